#!/usr/bin/env python3
"""Development helper: confirm sub-agent twins (tests pass with the change) and store them under /verif/twins.
usage: import_twins.py <worktree> <property> <tag> <round> [<first index>]"""
import json, os, re, subprocess, shutil, sys
props = {}
for l in open('/verif/properties.jsonl'):
    d = json.loads(l); props[d['id']] = d
d, pid, tag, rnd = sys.argv[1], sys.argv[2], sys.argv[3], int(sys.argv[4])
first = int(sys.argv[5]) if len(sys.argv) > 5 else 1
for k in (1, 2, 3):
    p = '%s/twin%d.patch' % (d, k); t = '%s/twin%d.txt' % (d, k)
    name = '%s-%s%d' % (pid, tag, first + k - 1)
    if not os.path.isfile(p) or os.path.isdir('/verif/twins/' + name):
        continue
    subprocess.run(['git', 'checkout', '-q', '--', 'praatio'], cwd=d)
    subprocess.run(['git', 'clean', '-qfd', 'praatio'], cwd=d)
    r = subprocess.run(['git', 'apply', p], cwd=d, capture_output=True, text=True)
    if r.returncode:
        print(name, 'APPLY-FAILED', r.stderr[:200]); continue
    r = subprocess.run(['/venv/bin/python', '-m', 'pytest', '-q', '-p', 'no:cacheprovider'], cwd=d, env=dict(os.environ, PYTHONPATH=d), capture_output=True, text=True)
    tail = r.stdout.strip().splitlines()[-1]
    subprocess.run(['git', 'checkout', '-q', '--', 'praatio'], cwd=d)
    subprocess.run(['git', 'clean', '-qfd', 'praatio'], cwd=d)
    if '367 passed' not in tail:
        print(name, 'TESTS', tail); continue
    files = re.findall(r'^\+\+\+ b/(\S+)', open(p).read(), re.M)
    rel = sorted(q for q, pd in props.items() if set(files) & set(pd['anchors']['files']))
    if pid not in rel:
        rel.append(pid)
    os.makedirs('/verif/twins/' + name)
    shutil.copy(p, '/verif/twins/%s/patch.diff' % name)
    meta = {"id": name, "round": rnd, "written_for": pid, "origin": "independent sub-agent (round %d) given only the property text and a scratch worktree; asked for behaviour-preserving restructurings" % rnd, "files": files,
            "what": open(t).read().strip()[:1500] if os.path.isfile(t) else "", "properties": sorted(rel), "confirmed": {"tests_with_change": tail}}
    json.dump(meta, open('/verif/twins/%s/meta.json' % name, 'w'), indent=1)
    print(name, 'ok', tail, rel)
