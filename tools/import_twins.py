import json, os, re, subprocess, shutil, sys
props={}
for l in open('/verif/properties.jsonl'):
    d=json.loads(l); props[d['id']]=d
SRC=sys.argv[1]; TAG=sys.argv[2]
for pid in sorted(os.listdir(SRC)):
    d=SRC+'/'+pid
    for k in (1,2,3):
        p='%s/twin%d.patch'%(d,k); t='%s/twin%d.txt'%(d,k)
        name='%s-%s%d'%(pid,TAG,k)
        if not os.path.isfile(p) or os.path.isdir('/verif/twins/'+name): continue
        subprocess.run(['git','checkout','-q','--','praatio'],cwd=d)
        subprocess.run(['git','clean','-qfd','praatio'],cwd=d)
        r=subprocess.run(['git','apply',p],cwd=d,capture_output=True,text=True)
        if r.returncode: print(name,'APPLY-FAILED',r.stderr[:200]); continue
        r=subprocess.run(['/venv/bin/python','-m','pytest','-q','-p','no:cacheprovider'],cwd=d,env=dict(os.environ,PYTHONPATH=d),capture_output=True,text=True)
        tail=r.stdout.strip().splitlines()[-1]
        subprocess.run(['git','checkout','-q','--','praatio'],cwd=d)
        subprocess.run(['git','clean','-qfd','praatio'],cwd=d)
        if '367 passed' not in tail: print(name,'TESTS',tail); continue
        files=re.findall(r'^\+\+\+ b/(\S+)',open(p).read(),re.M)
        rel=sorted(q for q,pd in props.items() if set(files)&set(pd['anchors']['files']))
        if pid not in rel: rel.append(pid)
        os.makedirs('/verif/twins/'+name)
        shutil.copy(p,'/verif/twins/%s/patch.diff'%name)
        meta={"id":name,"round":int(sys.argv[3]),"written_for":pid,"origin":"independent sub-agent (round 2) given only the property text and a scratch worktree; asked for behaviour-preserving restructurings","files":files,
              "what":open(t).read().strip()[:1500] if os.path.isfile(t) else "","properties":sorted(rel),"confirmed":{"tests_with_change":tail}}
        json.dump(meta,open('/verif/twins/%s/meta.json'%name,'w'),indent=1)
        print(name,'ok',tail,rel)
