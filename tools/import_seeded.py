#!/usr/bin/env python3
"""Development helper: confirm sub-agent mutants in their scratch worktree and store them under /verif/seeded.
usage: import_seeded.py <worktree> <property> <tag> <round> [<first index>]
   <worktree> holds mutant{k}.patch + demo{k}.py (k = 1, 2)."""
import json, os, re, subprocess, shutil, sys
d, pid, tag, rnd = sys.argv[1], sys.argv[2], sys.argv[3], int(sys.argv[4])
first = int(sys.argv[5]) if len(sys.argv) > 5 else 1
head = subprocess.run(['git', 'rev-parse', '--short', 'HEAD'], cwd=d, capture_output=True, text=True).stdout.strip()
for k in (1, 2, 3):
    p = '%s/mutant%d.patch' % (d, k); demo = '%s/demo%d.py' % (d, k)
    name = '%s-%sm%d' % (pid, tag, first + k - 1)
    if not os.path.isfile(p) or os.path.isdir('/verif/seeded/' + name):
        continue
    env = dict(os.environ, PYTHONPATH=d)
    def clean():
        subprocess.run(['git', 'checkout', '-q', '--', 'praatio'], cwd=d); subprocess.run(['git', 'clean', '-qfd', 'praatio'], cwd=d)
    clean()
    r = subprocess.run(['git', 'apply', p], cwd=d, capture_output=True, text=True)
    if r.returncode:
        print(name, 'APPLY-FAILED'); continue
    t = subprocess.run(['/venv/bin/python', '-m', 'pytest', '-q', '-p', 'no:cacheprovider'], cwd=d, env=env, capture_output=True, text=True).stdout.strip().splitlines()[-1]
    w = subprocess.run(['/venv/bin/python', demo], cwd=d, env=env, capture_output=True, text=True, timeout=900).returncode
    clean()
    wo = subprocess.run(['/venv/bin/python', demo], cwd=d, env=env, capture_output=True, text=True, timeout=900).returncode
    ok = '367 passed' in t and w != 0 and wo == 0
    print(name, 'tests=[%s] demo_with=%d demo_without=%d %s' % (t, w, wo, 'CONFIRMED' if ok else 'REJECTED'), flush=True)
    if not ok:
        continue
    dst = '/verif/seeded/' + name; os.makedirs(dst)
    shutil.copy(p, dst + '/patch.diff'); shutil.copy(demo, dst + '/demo.py')
    txt = open(p).read()
    files = re.findall(r'^\+\+\+ b/(\S+)', txt, re.M)
    ctx = sorted(set(x.strip() for x in re.findall(r'^@@.*@@ (.*)$', txt, re.M)))
    doc = open(demo).read()
    m = re.match(r'\s*(?:#!.*\n)?\s*(?:"""|\'\'\')(.*?)(?:"""|\'\'\')', doc, re.S)
    meta = {"id": name, "property": pid, "round": rnd, "origin": "independent sub-agent (round %d) given only the property text and a scratch worktree of /repo (HEAD %s)" % (rnd, head),
            "changed": ", ".join(files), "edit": "; ".join(ctx)[:300], "needs_to_manifest": " ".join((m.group(1) if m else "").split())[:400],
            "confirmed": {"how": "in the scratch worktree %s: git apply patch.diff; pytest; python demo.py; git checkout -- praatio; python demo.py" % d,
                          "tests_with_change": t, "demo_with_change": "exit %d" % w, "demo_without_change": "exit %d" % wo}}
    json.dump(meta, open(dst + '/meta.json', 'w'), indent=1)
