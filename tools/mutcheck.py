#!/usr/bin/env python3
"""Development helper (never run by a check): apply a patch to a scratch copy of /repo
and run the given property checks against it.
usage: mutcheck.py [-R] <patch> <Cnn> [<Cnn>...]     (-R: reverse-apply)
       mutcheck.py --commit <sha> <Cnn>...            (reverse of a /repo commit)
"""
import os, shutil, subprocess, sys, tempfile

def main():
    args = sys.argv[1:]
    reverse = False
    commit = None
    if args[0] == "-R":
        reverse = True; args = args[1:]
    if args[0] == "--commit":
        commit = args[1]; args = args[2:]
        patch = None
    else:
        patch = os.path.abspath(args[0]); args = args[1:]
    props = args
    d = tempfile.mkdtemp(prefix="vpmut_")
    try:
        dst = os.path.join(d, "repo")
        os.makedirs(dst)
        shutil.copytree("/repo/praatio", os.path.join(dst, "praatio"), ignore=shutil.ignore_patterns("__pycache__"))
        shutil.copy("/repo/README.md", dst)
        if commit:
            p = subprocess.run(["git", "-C", "/repo", "show", commit, "--", "praatio"], capture_output=True, text=True)
            patchtext = p.stdout
            reverse = True
        else:
            patchtext = open(patch).read()
        cmd = ["patch", "-p1", "-s", "-d", dst] + (["-R"] if reverse else [])
        r = subprocess.run(cmd, input=patchtext, text=True, capture_output=True)
        if r.returncode != 0:
            print("PATCH FAILED", r.stdout, r.stderr); return 3
        env = dict(os.environ, VP_REPO=dst, VP_NO_EVIDENCE="1")
        worst = 0
        for p in props:
            r = subprocess.run(["/verif/vcheck", p], env=env, capture_output=True, text=True, cwd="/verif")
            lines = [l for l in r.stdout.splitlines() if l.strip()]
            print("== %s exit=%d" % (p, r.returncode))
            for l in lines[:-1][:12]:
                print("   " + l[:260])
            print("   " + lines[-1] if lines else "")
            worst = max(worst, r.returncode)
        return 0
    finally:
        shutil.rmtree(d, ignore_errors=True)

sys.exit(main())
