import os, subprocess, sys, json
from concurrent.futures import ThreadPoolExecutor
sys.path.insert(0,'/verif')
os.environ.setdefault('VP_REPO','/repo')
from vp_static.selftest import run_variant
tag=sys.argv[1]
jobs=[]
for name in sorted(os.listdir('/verif/seeded')):
    if tag in name:
        m=json.load(open('/verif/seeded/%s/meta.json'%name))
        jobs.append((name,m['property'],'/verif/seeded/%s/patch.diff'%name))
def one(j):
    name,prop,p=j
    r=run_variant(p,[prop])
    return "%s exit=%d %s"%(name,r[prop][0],r[prop][1][:200])
with ThreadPoolExecutor(3) as ex:
    for line in ex.map(one,jobs): print(line, flush=True)
