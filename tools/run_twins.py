import json, os, subprocess, shutil, tempfile, sys
from concurrent.futures import ThreadPoolExecutor
def one(name):
    d='/verif/twins/'+name
    m=json.load(open(d+'/meta.json'))
    tmp=tempfile.mkdtemp(prefix='vptwin_')
    res=[]
    try:
        dst=tmp+'/repo'; os.makedirs(dst)
        shutil.copytree('/repo/praatio', dst+'/praatio', ignore=shutil.ignore_patterns('__pycache__'))
        shutil.copy('/repo/README.md', dst)
        r=subprocess.run(['patch','-p1','-s','-d',dst], stdin=open(d+'/patch.diff'), capture_output=True, text=True)
        if r.returncode: return ["%s PATCH-FAILED"%name]
        env=dict(os.environ, VP_REPO=dst, VP_NO_EVIDENCE='1')
        for p in [q for q in m['properties'] if not os.environ.get('ONLY_PROPS') or q in os.environ['ONLY_PROPS'].split(',')]:
            r=subprocess.run(['/verif/vcheck',p], env=env, capture_output=True, text=True, cwd='/verif')
            lines=[l for l in r.stdout.splitlines() if l.strip()]
            bad=[l.strip()[:400] for l in lines if l.startswith('ANALYSIS-ERROR') or (l.startswith('  ') and '--' in l) or 'witness' in l][:4]
            res.append("%s %s exit=%d %s"%(name,p,r.returncode,(" || ".join(bad)) if r.returncode else ""))
    finally:
        shutil.rmtree(tmp, ignore_errors=True)
    return res
names=sorted(n for n in os.listdir('/verif/twins') if (len(sys.argv)<3 or sys.argv[2] in n))
out=open(sys.argv[1],'w')
with ThreadPoolExecutor(7) as ex:
    for res in ex.map(one, names):
        for l in res: out.write(l+"\n")
        out.flush()
out.write("DONE\n")
