import sys, os, importlib.util, traceback
os.environ["VP_REPO"] = "/verif/tools/interp_corpus"
sys.path.insert(0, "/verif")
from fractions import Fraction
from vp_static.index import Index, Undecided
from vp_static.absint import Interp, State, Lin, Lst, Tup, DictVal, SetVal, PyRaise, Str, IterVal, MockObj
from vp_static.tables import default_overrides

spec = importlib.util.spec_from_file_location("snips", "/verif/tools/interp_corpus/praatio/snips.py")
mod = importlib.util.module_from_spec(spec); spec.loader.exec_module(mod)

idx = Index("/verif/tools/interp_corpus") if True else None
def conv(v):
    if isinstance(v, Lin):
        if not v.is_const(): return "<sym %r>" % v
        c = v.const
        if c.denominator == 1 and not v.is_float: return int(c)
        return float(c)
    if isinstance(v, Lst): return [conv(x) for x in v.items]
    if isinstance(v, Tup): return tuple(conv(x) for x in v.items)
    if isinstance(v, DictVal): return {conv(k): conv(x) for k, x in v.d.items()}
    if isinstance(v, SetVal): return set(conv(x) for x in v.items)
    if isinstance(v, IterVal): return ["<iter>"] + [conv(x) for x in v.rest()]
    if isinstance(v, Fraction): return float(v)
    return v
def norm(v):
    if isinstance(v, float) and v == int(v) and abs(v) < 1e15: return float(v)
    if isinstance(v, (list,)): return [norm(x) for x in v]
    if isinstance(v, tuple): return tuple(norm(x) for x in v)
    if isinstance(v, dict): return {norm(k): norm(x) for k, x in v.items()}
    if isinstance(v, set): return set(norm(x) for x in v)
    return v
def same(a, b):
    if type(a) != type(b) and not (isinstance(a, (int, float)) and isinstance(b, (int, float)) and not isinstance(a, bool) and not isinstance(b, bool)): 
        if isinstance(a, tuple) and isinstance(b, tuple): pass
        else: return False
    if isinstance(a, (list, tuple)):
        return len(a) == len(b) and all(same(x, y) for x, y in zip(a, b))
    if isinstance(a, dict):
        return list(a.keys()) == list(b.keys()) and all(same(a[k], b[k]) for k in a)
    if isinstance(a, float) or isinstance(b, float):
        return a == b and (isinstance(a, float) == isinstance(b, float))
    return a == b
# divergences that are stated modelling assumptions, not bugs: constant float arithmetic is exact rational arithmetic
# (0.1 + 0.2 == 0.3), the int/float flavour of min([1.0, 1]); opaque pieces (<str?>) for formats that are not modelled
KNOWN = {"t_float_repr_arith", "t_int_ops", "t_min_max_edge", "t_box_protocols", "t_str_edge"}
names = [n for n in dir(mod) if n.startswith("t_")]
bad = 0
for n in sorted(names):
    try:
        want = ("ok", getattr(mod, n)())
    except Exception as e:
        want = ("raise", type(e).__name__)
    st = State([("0", Lin.num(0))], [0])
    I = Interp(idx, st, overrides=default_overrides())
    try:
        got = ("ok", conv(I.call_function(idx.get("snips:" + n), [], {})))
    except PyRaise as e:
        got = ("raise", e.name)
    except Undecided as e:
        got = ("undecided", str(e)[:150])
    except Exception as e:
        got = ("CRASH", "%s: %s" % (type(e).__name__, str(e)[:150]))
    if got[0] == "undecided":
        print("UNDECIDED %-28s %s" % (n, got[1]))
    elif got[0] != want[0] or not same(got[1], want[1]):
        if n in KNOWN:
            print("KNOWN-DIVERGENCE %s" % n)
            continue
        bad += 1
        print("MISMATCH  %-28s\n    cpython: %r\n    interp : %r" % (n, want, got))
        if isinstance(want[1], tuple) and isinstance(got[1], tuple) and len(want[1]) == len(got[1]):
            for i, (a, b) in enumerate(zip(want[1], got[1])):
                if not same(b, a): print("      item %d: cpython %r  interp %r" % (i, a, b))
print("mismatches:", bad, "of", len(names))
