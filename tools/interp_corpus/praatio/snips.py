import itertools
import functools
import operator
import math
import copy
from collections import namedtuple, OrderedDict

class P(namedtuple("P", ["a", "b"])):
    pass

_SENT = object()
_COUNTER = [0]


def t_nonlocal():
    n = 0

    def inc():
        nonlocal n
        n += 1
        return n
    inc(); inc()
    return n


def t_closure_late():
    fs = [lambda: i for i in range(3)]
    return [f() for f in fs]


def t_default_mutable():
    def f(x, acc=[]):
        acc.append(x)
        return acc
    f(1)
    return f(2)


def t_comp_scope():
    x = 10
    ys = [x for x in range(3)]
    return x, ys


def t_try_finally():
    out = []
    try:
        out.append(1)
        raise ValueError("x")
    except ValueError:
        out.append(2)
    else:
        out.append(3)
    finally:
        out.append(4)
    return out


def t_try_finally_return():
    def f():
        try:
            return 1
        finally:
            out.append("f")
    out = []
    r = f()
    return r, out


def t_for_else():
    for i in range(3):
        if i == 5:
            break
    else:
        return "else"
    return "broke"


def t_while_else():
    i = 0
    while i < 3:
        i += 1
        if i == 2:
            break
    else:
        return "else"
    return i


def t_aug_attr():
    class_like = {"v": 1}
    class_like["v"] += 2
    l = [1, 2, 3]
    l[1] *= 5
    return class_like, l


def t_chain_assign():
    a = b = [1]
    a.append(2)
    return b


def t_star_call():
    def f(a, b, c=0, *rest, k=1, **kw):
        return a, b, c, rest, k, sorted(kw.items())
    return f(*[1, 2, 3, 4], k=5, **{"z": 1})


def t_slice_neg():
    l = list(range(10))
    return l[::-1], l[8:2:-2], l[-3:], l[:-7], l[::3]


def t_int_trunc():
    return int(2.7), int(-2.7), int("12"), round(2.5), round(3.5), round(-0.5), round(2.675, 2)


def t_floordiv_mod():
    return 7 // 2, -7 // 2, 7 % 3, -7 % 3, 7 % -3, divmod(-7, 2), 7.5 // 2, -7.5 % 2


def t_str_float():
    return str(1.0), str(0.1), repr(1e-7), str(1e16), str(123456789.123), "%s" % 2.50, "%.2f" % 2.675, "{:.3f}".format(1.0005), f"{1/3:.4f}", "%d" % 3.9, "%5.1f|" % 2.25, "%-5d|" % 3, "%05d" % 42, "%x" % 255, "%e" % 12345.678, "%g" % 0.0001


def t_minmax_key():
    rows = [(1, "b"), (0, "z"), (1, "a"), (0, "y")]
    return min(rows, key=lambda r: r[0]), max(rows, key=lambda r: r[0]), min(rows), max(rows), min([], default=5), max(3, 7, 5)


def t_sort_stable():
    rows = [(1, "b"), (0, "z"), (1, "a"), (0, "y")]
    return sorted(rows, key=lambda r: r[0]), sorted(rows, key=lambda r: r[0], reverse=True), sorted(rows, reverse=True)


def t_list_methods():
    l = [3, 1, 3, 2]
    l.remove(3)
    i = l.index(3)
    p = l.pop()
    q = l.pop(0)
    l.insert(10, 9)
    l.insert(-1, 8)
    l.extend((7, 6))
    c = l.count(7)
    l.reverse()
    return l, i, p, q, c


def t_dict_methods():
    d = {"a": 1}
    d.setdefault("b", []).append(1)
    d.update({"c": 3}, e=5)
    x = d.pop("a")
    y = d.pop("zz", None)
    g = d.get("q", 7)
    ks = list(d)
    it = list(d.items())
    d2 = dict(zip("xy", (1, 2)))
    d3 = {**d2, "y": 9}
    return d, x, y, g, ks, it, d3, "c" in d, len(d)


def t_set_ops():
    a, b = {1, 2, 3}, {2, 3, 4}
    return sorted(a & b), sorted(a | b), sorted(a - b), sorted(a ^ b), len(a), 2 in a, sorted({x % 2 for x in range(5)})


def t_bool_arith():
    return True + True, sum([True, False, True]), 3 * False, True == 1


def t_chained_cmp():
    x = 5
    return 1 < x < 10, 1 < x > 7, 1 == 1.0 != 2, (x > 3) is True


def t_walrus():
    out = []
    data = [1, 5, 2, 8]
    if (n := len(data)) > 3:
        out.append(n)
    out.extend(y for x in data if (y := x * 2) > 4)
    return out


def t_generators():
    def gen(n):
        for i in range(n):
            yield i
            if i == 2:
                return
    def gen2():
        yield from gen(5)
        yield 99
    g = gen2()
    first = next(g)
    return first, list(g), list(gen(0)), next(gen(0), "dflt")


def t_iter_consumption():
    it = iter([1, 2, 3, 4, 5])
    a = list(zip(it, it))
    rest = list(it)
    e = enumerate("abc", 1)
    next(e)
    return a, rest, list(e)


def t_itertools():
    return (list(itertools.chain([1], (2, 3))), list(itertools.islice(itertools.count(5, 2), 3)), list(itertools.accumulate([1, 2, 3, 4])),
            list(itertools.accumulate([1, 2, 3], operator.mul, initial=10)), [(k, list(g)) for k, g in itertools.groupby("aabbbc")],
            list(itertools.zip_longest([1, 2], "abc", fillvalue=0)), list(itertools.product([1, 2], "ab")), list(itertools.takewhile(lambda x: x < 3, [1, 2, 5, 1])),
            list(itertools.dropwhile(lambda x: x < 3, [1, 2, 5, 1])), list(itertools.starmap(pow, [(2, 3), (3, 2)])), list(itertools.compress("abcd", [1, 0, 1, 0])),
            list(itertools.repeat("x", 2)), list(itertools.filterfalse(lambda x: x % 2, range(5))), list(itertools.pairwise([1, 2, 3])))


def t_functools():
    add3 = functools.partial(lambda a, b, c: (a, b, c), 1, c=3)
    return add3(2), functools.reduce(operator.add, [1, 2, 3], 10), functools.reduce(lambda a, b: a * b, [2, 3, 4])


def t_operator():
    g = operator.itemgetter(1, 0)
    a = operator.attrgetter("b")
    m = operator.methodcaller("upper")
    return g("xyz"), a(P(1, 2)), m("ab"), operator.itemgetter(0)([5]), operator.neg(3), operator.truediv(1, 4), operator.contains([1], 1), operator.not_(0)


def t_namedtuple():
    p = P(1, 2)
    q = p._replace(b=5)
    a, b = q
    return p, q, a + b, p == (1, 2), P._make([7, 8]), q._asdict() == {"a": 1, "b": 5}, P._fields, p[1], len(p), p + (3,)


def t_str_methods():
    s = "  Hello, World  "
    return (s.strip(), s.lstrip(), s.rstrip().upper(), s.split(","), s.split(), "a,b,,c".split(","), "a b  c".split(" "), "x".join(["1", "2"]), s.find("o"), s.rfind("o"),
            s.replace("l", "L", 1), s.startswith("  H"), s.endswith(("x", "  ")), "abc"[::-1], "abc" * 2, "a" in "abc", "%s-%s" % ("a", 1), "{}-{b}".format(1, b=2),
            "line1\nline2\r\nline3".splitlines(), "a\tb".expandtabs(4), "abc".partition("b"), "abc".rpartition("x"), "Abc".swapcase(), "abc".center(7, "*"), "5".zfill(3), "ab".isalpha(), "12".isdigit(), " ".isspace())


def t_sentinel():
    def get(d, k):
        return d.get(k, _SENT)
    return get({}, "a") is _SENT, get({"a": None}, "a") is _SENT, _SENT is _SENT, _SENT == _SENT


def t_module_state():
    _COUNTER[0] += 1
    _COUNTER[0] += 1
    return _COUNTER[0] >= 2


def t_copy():
    a = [[1], [2]]
    b = copy.copy(a)
    c = copy.deepcopy(a)
    a[0].append(9)
    return b, c, list(a) is a, a[:] == a


def t_exceptions():
    out = []
    for f in (lambda: [][0], lambda: {}["k"], lambda: int("x"), lambda: 1 / 0, lambda: None.x, lambda: "a" + 1, lambda: [1, 2].index(5), lambda: next(iter([])), lambda: (1, 2)[5], lambda: float("abc"), lambda: [].pop(), lambda: {}.pop("a"), lambda: max([])):
        try:
            f()
            out.append("ok")
        except IndexError:
            out.append("IndexError")
        except KeyError:
            out.append("KeyError")
        except ValueError:
            out.append("ValueError")
        except ZeroDivisionError:
            out.append("ZeroDivisionError")
        except AttributeError:
            out.append("AttributeError")
        except TypeError:
            out.append("TypeError")
        except StopIteration:
            out.append("StopIteration")
    return out


def t_exception_flow():
    out = []

    def f():
        try:
            raise KeyError("k")
        except (ValueError, KeyError) as e:
            out.append("caught")
            raise RuntimeError("r") from e
        finally:
            out.append("fin")
    try:
        f()
    except RuntimeError:
        out.append("outer")
    return out


def t_unpack():
    a, *b, c = [1, 2, 3, 4]
    (d, e), f = (1, 2), 3
    for i, (x, y) in enumerate([(1, 2), (3, 4)]):
        pass
    first, *_ = "xyz"
    return a, b, c, d, e, f, i, x, y, first


def t_cond_and_or():
    return 0 or "x", 1 and "y", None or 0 or [], "" and 5, not [] , (1 if [] else 2), [] == False, bool("0")


def t_math():
    return math.floor(-2.5), math.ceil(2.1), math.sqrt(16), abs(-3.5), math.fsum([0.1] * 10), math.log10(1000), -0.0 == 0.0, math.trunc(-2.7), pow(2, 10), 2 ** -1, 10 ** 2, math.pi > 3


def t_enumerate_zip_range():
    return list(enumerate("ab", start=2)), list(zip("abc", [1, 2])), list(range(5, 0, -2)), list(range(0)), list(reversed(range(3))), len(range(2, 11, 3)), sum(range(4)), list(map(lambda a, b: a + b, [1, 2], [10, 20])), list(filter(None, [0, 1, "", "a"]))


def t_any_all():
    return any([]), all([]), any(x > 2 for x in [1, 3]), all(x > 2 for x in [1, 3]), any([0, "", None]), all([1, "a"])


def t_nested_funcs():
    def outer(k):
        def inner(x):
            return x * k
        return inner
    double = outer(2)
    k = 100
    return double(4), list(map(outer(3), [1, 2]))


def t_class_like_dict_order():
    d = OrderedDict()
    d["b"] = 1
    d["a"] = 2
    d["b"] = 3
    d.move_to_end("b") if hasattr(d, "move_to_end") else None
    return list(d.items())


def t_list_alias_in_loop():
    l = [1, 2, 3]
    out = []
    for x in l:
        if x == 1:
            l.append(4)
        out.append(x)
    return out


def t_list_mult_alias():
    a = [[0]] * 2
    a[0].append(1)
    b = [[0] for _ in range(2)]
    b[0].append(1)
    return a, b


def t_sort_inplace():
    l = [3, 1, 2]
    r = l.sort()
    m = sorted(l, key=lambda v: -v)
    t = [(2, "a"), (1, "b")]
    t.sort(key=operator.itemgetter(0), reverse=True)
    return l, r, m, t


def t_string_compare():
    return "a" < "b", "B" < "a", "abc" < "abd", "" < "a", ("a", 2) < ("a", 3), "10" < "9"


def t_is_identity():
    a = [1]
    b = a
    c = [1]
    return a is b, a is c, a == c, None is None, (a is not c)


def t_global_const_math():
    return math.floor(7 / 2.0), int(math.floor(9 / 2.0)), int(len("abcde") / 2.0), 5 // 2


class Base:
    kind = "base"

    def __init__(self, x, items=None):
        self.x = x
        self.items = list(items or [])

    @property
    def double(self):
        return self.x * 2

    @classmethod
    def make(cls, x):
        return cls(x)

    @staticmethod
    def helper(a, b=2):
        return a * b

    def describe(self):
        return "%s:%s" % (self.kind, self.x)

    def __eq__(self, other):
        return isinstance(other, Base) and self.x == other.x

    def __len__(self):
        return len(self.items)

    def __iter__(self):
        for i in self.items:
            yield i


class Child(Base):
    kind = "child"

    def __init__(self, x, y):
        super(Child, self).__init__(x, [y])
        self.y = y

    def describe(self):
        return "<" + super().describe() + ">"


def t_classes():
    b = Base(3, [1, 2])
    c = Child.make2(4) if hasattr(Child, "make2") else Child(4, 5)
    return (b.double, b.describe(), c.describe(), Base.helper(3), c.helper(2, b=5), Base.make(7).x, type(c) is Child, isinstance(c, Base), b == Base(3), b == c, b != Base(4),
            len(b), list(c), [i for i in b], c.kind, Base.kind, hasattr(b, "y"), getattr(c, "y", None), getattr(b, "y", "dflt"))


def t_obj_alias():
    b = Base(1, [1])
    b2 = b
    b2.x = 9
    b.items.append(2)
    c = copy.deepcopy(b)
    c.items.append(3)
    s = copy.copy(b)
    s.items.append(4)
    s.x = 0
    return b.x, b.items, c.items, s.x


def t_with_stmt():
    import io
    buf = io.StringIO()
    with buf as fd:
        fd.write("a")
        fd.write("b")
    out = buf.getvalue() if not buf.closed else "closed"
    return out


def t_int_float_conv():
    return float("1e3"), float(" 2.5 "), int(" 7 "), float(3), int(3.0), str(3), str(3.0), repr("a"), float("-0"), int(True), float("1_0") if False else 1


def t_nested_data():
    d = {"a": [1, {"b": (2, 3)}]}
    d["a"][1]["b"] += (4,)
    e = copy.deepcopy(d)
    e["a"][0] = 0
    return d, e, d["a"][1]["b"][-1], list(d.keys()), [k for k in d], {k: len(v) for k, v in d.items()}


def t_lambda_sort_multi():
    rows = [("b", 2), ("a", 2), ("c", 1)]
    return sorted(rows, key=lambda r: (-r[1], r[0])), sorted(rows, key=operator.itemgetter(1, 0)), max(rows, key=lambda r: (r[1], r[0]))


def t_string_build():
    parts = []
    for i, w in enumerate(["x", "y"]):
        parts.append("%d:%s" % (i, w))
    s = ", ".join(parts)
    t = "".join(reversed(s))
    u = " ".join(str(v) for v in (1, 2.0, None, True))
    return s, t, u, "-".join(map(str, range(3))), "a%sb" % "", f"{'x':>3}|{3:03d}|{2.5:.1f}|{'ab'!r}"


def t_early_return_loops():
    def find(xs, t):
        for i, x in enumerate(xs):
            if x == t:
                return i
        return -1
    def count_until(xs):
        n = 0
        while True:
            if n >= len(xs) or xs[n] is None:
                break
            n += 1
        return n
    return find([5, 6, 7], 6), find([], 1), count_until([1, None, 2]), count_until([])


def t_dict_iteration_mutation_free():
    d = {"x": 1, "y": 2}
    out = []
    for k in list(d):
        if d[k] == 1:
            del d[k]
        out.append(k)
    return out, d, sorted(d.values()), dict(sorted({"b": 1, "a": 2}.items()))


def t_tuple_compare_sort():
    return sorted([(1, "b"), (1, "a"), (0, "c")]), (1, 2) < (1, 3), (1, 2) == (1, 2), (2,) > (1, 9), min((3, "a"), (3, "B"))


class MyError(Exception):
    pass


class SubError(MyError):
    pass


def t_custom_exc():
    out = []
    for cls in (MyError, SubError, ValueError):
        try:
            try:
                raise cls("m")
            except SubError:
                out.append("sub")
                raise
            except MyError:
                out.append("my")
        except MyError:
            out.append("outer-my")
        except Exception:
            out.append("outer-any")
    return out


def t_transpose_zip():
    m = [[1, 2, 3], [4, 5, 6]]
    return list(zip(*m)), [list(r) for r in zip(*m)], list(map(list, zip(*m))), [x for row in m for x in row if x % 2], [[c * 2 for c in r] for r in m]


def t_sum_start():
    return sum((x * x for x in range(4)), 10), sum([[1], [2]], []), sum([0.1, 0.2]), abs(-2), divmod(7, 2), divmod(7.5, 2)


def t_isinstance_multi():
    return isinstance(1, (int, float)), isinstance("a", (int, float)), isinstance(1.0, float), isinstance(True, int), isinstance([], (list, tuple)), isinstance((1,), tuple), isinstance(None, type(None)) if False else True, isinstance({}, dict), isinstance(1, float)


def t_none_handling():
    def f(x=None):
        x = x or []
        x.append(1)
        return x
    a = f()
    b = f()
    return a, b, a is b, None is None, [None] * 2, (None or 5), None == 0


def t_str_index_slice():
    s = "abcdef"
    return s[1], s[-1], s[1:4], s[::2], s[::-2], s[10:], s[-100:2], s.index("c"), s.count("c"), len(s), list(enumerate(s[:2])), s * 0, s[2:2]


def t_nested_comp_cond():
    return [(x, y) for x in range(3) for y in range(x) if (x + y) % 2], {x: [y for y in range(x)] for x in range(3)}, [x if x % 2 else -x for x in range(4)], list(x for x in range(3))


def t_reversed_sorted_combo():
    l = [3, 1, 2]
    return list(reversed(sorted(l))), sorted(l)[::-1], sorted(set([2, 2, 1])), sorted("bca"), sorted({"b": 1, "a": 2}), list(reversed("abc")), l


def t_loop_var_after():
    for i in range(3):
        pass
    j = 0
    for j in []:
        pass
    return i, j


def t_int_ops():
    return 7 // 2 * 2 + 7 % 2, 2 ** 3 ** 2, -2 ** 2, (-2) ** 2, 1 / 2, 3 // 1, 10 % 3, 1e3, 5 & 3, 5 | 3, 5 ^ 3, 1 << 3, 8 >> 1, ~5, int(7 / 2), round(7 / 2), 0.1 + 0.2 == 0.3, 0.5 + 0.25 == 0.75


def t_float_repr_arith():
    return 0.1 + 0.2, 1 / 3, 2 / 3 * 3, 1e16 + 1, 0.1 * 3, 1.1 - 1.0, 100 * 1.1, str(0.1 + 0.2), 3.0 * 2, 7 / 7


def t_while_complex():
    i, out = 0, []
    while i < 10:
        i += 1
        if i % 2:
            continue
        if i > 6:
            break
        out.append(i)
    return out, i


def t_dict_default_counting():
    counts = {}
    for w in "a b a c b a".split():
        counts[w] = counts.get(w, 0) + 1
    inv = {}
    for k, v in counts.items():
        inv.setdefault(v, []).append(k)
    return counts, inv, max(counts, key=counts.get), sorted(counts.items(), key=lambda kv: (-kv[1], kv[0]))


def t_closure_counter():
    def make():
        total = [0]

        def add(n):
            total[0] += n
            return total[0]
        return add
    a = make()
    b = make()
    a(1); a(2)
    return a(0), b(5)


def t_generator_pipeline():
    def evens(xs):
        for x in xs:
            if x % 2 == 0:
                yield x

    def squares(xs):
        return (x * x for x in xs)
    return list(squares(evens(range(7)))), sum(squares(evens([2, 4]))), list(itertools.islice(evens(itertools.count()), 3)), any(x > 10 for x in squares(evens(range(100))))


def t_tuple_immutability_paths():
    t = (1, [2])
    t[1].append(3)
    u = t + (4,)
    return t, u, t[0:1], tuple([1, 2]) == (1, 2), (1,) * 3, len(()), () == tuple()


def t_assert_and_raise():
    out = []
    try:
        assert 1 == 2, "no"
    except AssertionError:
        out.append("assert")
    try:
        raise NotImplementedError
    except NotImplementedError:
        out.append("ni")
    return out


def t_min_max_edge():
    return min(1, 2.0), max("a", "b"), min([2, 1], key=None) if False else 1, max([1, 3, 2]), min(x for x in [3, 2]), max([(1, 2), (1, 3)]), min([1.0, 1]), max([1, 1.0])


# ---------------------------------------------------------------- batch 3: object protocols, mutation through aliases, string edge cases

class Box:
    def __init__(self, items):
        self._items = list(items)

    @property
    def items(self):
        return tuple(self._items)

    def add(self, x):
        self._items.append(x)
        self._items.sort()
        return self

    def __contains__(self, x):
        return x in self._items

    def __getitem__(self, i):
        return self._items[i]

    def __repr__(self):
        return "Box(%r)" % (self._items,)

    def __bool__(self):
        return bool(self._items)

    def __lt__(self, other):
        return len(self._items) < len(other._items)

    def __hash__(self):
        return hash(tuple(self._items))

    def __eq__(self, other):
        return isinstance(other, Box) and self._items == other._items

    def __ne__(self, other):
        return not self == other


def t_box_protocols():
    b = Box([3, 1])
    b.add(2).add(0)
    e = Box([])
    return b.items, 2 in b, 9 in b, b[0], b[-1], bool(b), bool(e), (1 if e else 0), not e, b == Box([0, 1, 2, 3]), b != e, repr(e), str(b), "%s" % e


def t_property_no_cache():
    b = Box([1])
    first = b.items
    b.add(5)
    return first, b.items, first is b.items


def t_alias_through_return():
    def get(d):
        return d["k"]
    d = {"k": [1]}
    l = get(d)
    l.append(2)
    m = list(get(d))
    m.append(3)
    return d, m


def t_arg_mutation():
    def f(a, b):
        a.append(1)
        b = b + [1]
        return b
    x, y = [], []
    r = f(x, y)
    return x, y, r


def t_aug_assign_alias():
    a = [1]
    b = a
    a += [2]
    c = (1,)
    d = c
    c += (2,)
    s = "x"
    t = s
    s += "y"
    return a, b, c, d, s, t


def t_str_edge():
    return ("".split(","), "".split(), " ".split(" "), "a".split("a"), "abc".split("b", 0), "a,b,c".split(",", 1), "a,b,c".rsplit(",", 1), "\n".splitlines(), "a\n".splitlines(), "a\n\nb".split("\n"),
            "".join([]), "x".strip("x"), "  ".strip() == "", "aXbXc".replace("X", ""), "abc".find("z"), "abc"[5:], "é".encode("utf-8") if False else 1, "Ab".lower() == "ab", "a" "b", 'it''s', "tab\there".split("\t"),
            "%%" % (), "%s%%" % 5, "{{}}".format(), "{0}{0}".format("a"), "a=%(a)s" % {"a": 1}, "%r" % "q", "%3s|%-3s|" % ("a", "b"), "%.3s" % "abcdef", "%c" % 65, "%i" % 7.9, "%+d" % 5, "% d" % 5)


def t_numeric_str_roundtrip():
    vals = [0.1, 1e-5, 123456.789, 1e22, 1.0, 100.0, 1e16, 0.30000000000000004, 5e-324, 1.7976931348623157e308]
    return [repr(v) for v in vals], [float(repr(v)) == v for v in vals], [str(int(v)) for v in (1.0, 100.0)], "%s" % 1e-5, "%d" % 1e2, "%.15f" % 0.1, "%.0f" % 0.5, "%.0f" % 1.5, "%g" % 1e-5, "%g" % 123456789.0


def t_range_len_index():
    l = ["a", "b", "c"]
    out = []
    for i in range(len(l) - 1, -1, -1):
        out.append(l[i])
    for i in range(1, len(l)):
        out.append(l[i - 1] + l[i])
    return out, l[len(l) // 2], l[int(len(l) / 2.0)], l[-len(l)]


def t_enumerate_modify():
    l = [1, 2, 3, 4]
    for i, v in enumerate(l):
        if v % 2 == 0:
            l[i] = v * 10
    keep = [v for v in l if v > 5]
    l[:] = keep
    return l, keep is l


def t_del_and_slices():
    l = list(range(8))
    del l[0]
    del l[-1]
    del l[1:3]
    l[1:2] = [9, 9]
    l[len(l):] = [7]
    m = l[:]
    m.clear() if hasattr(m, "clear") else None
    return l, m


def t_dict_views():
    d = {"a": 1, "b": 2}
    ks = d.keys()
    vs = list(d.values())
    d["c"] = 3
    return list(ks), vs, list(d.items())[-1], "a" in ks, len(d.items()), list(zip(d, d.values())), {v: k for k, v in d.items()}, dict.fromkeys("ab", 0), dict([("x", 1)]), dict(a=1)


def t_set_building():
    seen = set()
    out = []
    for x in [3, 1, 3, 2, 1]:
        if x not in seen:
            seen.add(x)
            out.append(x)
    seen.discard(99)
    seen.remove(3)
    s2 = set(out) - {1}
    s3 = frozenset([1, 2]) | {3}
    return out, sorted(seen), sorted(s2), sorted(s3), len(set()), set() == set([]), {1, 2} == {2, 1}, sorted(set("hello"))


def t_recursion():
    def fact(n):
        return 1 if n <= 1 else n * fact(n - 1)

    def flat(x):
        out = []
        for e in x:
            if isinstance(e, list):
                out.extend(flat(e))
            else:
                out.append(e)
        return out
    return fact(5), flat([1, [2, [3, [4]], 5]])


def t_kwargs_passthrough():
    def inner(a, b=2, *, c=3, **rest):
        return a, b, c, sorted(rest.items())

    def outer(*args, **kwargs):
        kwargs.setdefault("c", 30)
        return inner(*args, **kwargs)
    return outer(1), outer(1, 5, d=4), outer(a=7, c=0)


def t_ternary_chain_and_short_circuit():
    calls = []

    def f(x):
        calls.append(x)
        return x
    r = f(0) or f(2) or f(3)
    s = f(1) and f(0) and f(5)
    t = "a" if f(0) else "b" if f(7) else "c"
    return r, s, t, calls


def t_sorting_with_none_keys():
    rows = [("a", None), ("b", 2), ("c", 1)]
    return sorted(rows, key=lambda r: (r[1] is None, r[1] or 0)), sorted(rows, key=lambda r: r[0], reverse=True)


def t_string_num_compare_paths():
    vals = ["10", "9", "2.5"]
    return sorted(vals), sorted(vals, key=float), max(vals, key=float), [v for v in vals if "." in v], sum(float(v) for v in vals)


def t_exception_in_comprehension():
    def safe(v):
        try:
            return int(v)
        except ValueError:
            return None
    return [safe(v) for v in ("1", "x", "3")], [v for v in map(safe, ("1", "x")) if v is not None]


# ---------------------------------------------------------------- batch 4

def t_lambda_default_binding():
    fs = [lambda i=i: i * 10 for i in range(3)]
    gs = []
    for j in range(3):
        def g(k=j):
            return k
        gs.append(g)
    return [f() for f in fs], [g() for g in gs], fs[1](7)


def t_sort_method_variants():
    l = [("b", 2), ("a", 2), ("c", 1)]
    l.sort(key=lambda r: r[1], reverse=True)
    m = [3, 1, 2]
    m.sort(reverse=True)
    n = sorted(["b", "A", "c"], key=str.lower)
    return l, m, n, sorted([1, 2, 3], key=lambda v: -v), sorted([(1, "x"), (1, "a")], key=lambda r: r[0])


def t_slice_assign_step():
    l = list(range(6))
    l[::2] = ["a", "b", "c"]
    m = list(range(6))
    m[1:4] = []
    n = list(range(4))
    n[2:2] = [9, 9]
    o = list(range(5))
    del o[::2]
    return l, m, n, o


def t_zip_variants():
    a = list(zip([1, 2, 3], "ab", strict=False))
    try:
        b = list(zip([1, 2], "abc", strict=True))
    except ValueError:
        b = "ValueError"
    c = dict(zip("ab", range(2)))
    d = list(zip())
    e = [x + y for x, y in zip([1, 2], [10, 20])]
    return a, b, c, d, e


def t_join_generator_consumes():
    it = iter("abcd")
    first = next(it)
    s = "-".join(it)
    rest = list(it)
    return first, s, rest, ",".join(str(i) for i in range(3)), "".join(c.upper() for c in "ab" if c != "a")


def t_dict_update_variants():
    d = {"a": 1}
    d.update(b=2)
    d.update([("c", 3)])
    d.update({"a": 9})
    e = {**d, **{"z": 0}}
    f = dict(d, y=5)
    d |= {"k": 1}
    return d, e, f, d | {"q": 2}


def t_nested_ternary_bools():
    def cls(x):
        return "neg" if x < 0 else "zero" if x == 0 else "small" if x < 10 else "big"
    return [cls(v) for v in (-1, 0, 5, 50)], (1 if 0 else 2 if 0 else 3), [x for x in range(5) if x % 2 if x > 1]


def t_string_methods_chain():
    s = " A,b ; C "
    return [p.strip().lower() for p in s.replace(";", ",").split(",")], s.strip().split(" ; "), s.upper().count("A"), s.title(), "x=1;y=2".partition(";")[2].split("=")[1], "abc".startswith(("x", "a")), "  ".join(["a"]), "a-b".split("-", -1)


def t_int_parsing_and_bases():
    return int("007"), int("-5"), int("1_000"), int("ff", 16), int(3.99), int(-3.99), float("1."), float(".5"), float("1e-3"), int("  12  "), str(10 ** 20), 10 ** 20 // 3, bin(5) if False else 1


def t_while_with_else_and_flags():
    found = None
    i = 0
    data = [3, 8, 5]
    while i < len(data):
        if data[i] % 2 == 0:
            found = i
            break
        i += 1
    else:
        found = -1
    n = 0
    while n < 3:
        n += 1
    else:
        n += 100
    return found, i, n


def t_exception_else_finally_order():
    log = []

    def f(x):
        try:
            log.append("try")
            if x:
                raise ValueError
        except ValueError:
            log.append("except")
            return "handled"
        else:
            log.append("else")
            return "clean"
        finally:
            log.append("finally")
    return f(0), f(1), log


def t_list_comprehension_side_effects():
    seen = []
    out = [seen.append(x) or x * 2 for x in range(3)]
    return out, seen


def t_global_rebinding_via_container():
    state = {"n": 0}

    def bump():
        state["n"] += 1
        return state["n"]
    return bump(), bump(), state


def t_min_max_default_key_combo():
    return min([], default=None), max([], default=0), min([3, 1, 2], key=lambda v: abs(v - 2)), max(["aa", "b"], key=len), min((len(w), w) for w in ["bb", "a", "cc"])
