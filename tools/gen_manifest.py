#!/usr/bin/env python3
"""Regenerates MANIFEST.json from the table below (run by hand, never by a check)."""
import json, os
HERE = os.path.dirname(os.path.dirname(os.path.abspath(__file__)))
CLAIMS = json.load(open(os.path.join(HERE, "claims.json")))
checks = []
for pid, c in sorted(CLAIMS["claimed"].items()):
    checks.append({
        "property_id": pid,
        "quick_cmd": "./vcheck %s --tier quick" % pid,
        "thorough_cmd": "./vcheck %s --tier thorough" % pid,
        "evidence_file": "/verif/evidence/%s.json" % pid,
        "replay_cmd_template": "./vcheck --replay {path}",
        "engine": "vp_static",
        "level_claimed": {
            "category": "other",
            "text": "Static analysis of /repo's working tree: the source is parsed with ast and analysed or abstractly interpreted by vp_static's own interpreter over symbolic values; no repository code is imported or run by Python. A pass establishes exactly the structural clauses listed here and nothing else: " + c["clauses"] + " Not decided (named in DESIGN.md and in the evidence file under not_decided): " + c["not_decided"],
            "design_ref": "DESIGN.md section 5, " + pid,
        },
        "level_note": "Trusted base: CPython ast / re._parser; the hand-written spec tables and vocabulary tables in vp_static (each row cites the property sentence it encodes); ill-typed arguments are outside the quantifier. " + c.get("note", ""),
        "technique": c["technique"],
    })
m = {
    "version": 1,
    "setup_cmd": "/venv/bin/python -m compileall -q vp_static >/dev/null 2>&1 || python3 -m compileall -q vp_static; ./vcheck --selftest controls",
    "hooks": {
        "guard": "TIMMAHRT_PRAATIO_VERIF",
        "enable": "none needed: the checks read the source; no instrumentation exists in /repo",
        "baseline_off_cmd": "cd /repo && /venv/bin/python -m pytest -ra -q -p no:cacheprovider --timeout=900 --continue-on-collection-errors",
        "source_commits": [],
        "add_only": True,
    },
    "engines": [{
        "name": "vp_static",
        "path": "/verif/vp_static",
        "serves_properties": sorted(CLAIMS["claimed"]),
        "kind_free_text": "repository-specific static analysis over Python ast: program index + call resolution, effect/alias analysis, raise-after-write ordering, order-type abstract interpretation of comparison-only bodies against spec decision tables, float-order monotonicity prover (seams and positive lengths), polynomial-term number domain with uninterpreted sqrt/reciprocal for the numeric helpers (normal form proves, a sample assignment of the derived expressions refutes), symbolic-document interpretation of the text writers and readers (atoms for times and labels, an independent specification-based tokenizer), alignment and sentinel dataflow",
    }],
    "checks": checks,
    "notes": "Exit codes of every command: 0 = all obligations proved (or refuted ones are listed in known_findings.json and printed as KNOWN-FINDING); 1 = VIOLATION line; 2 = ANALYSIS-ERROR (an anchor vanished or a construct is outside the modelled subset) - never a silent pass and never a VIOLATION. Fixed defects and known findings: known_findings.json.",
    "not_applicable": [{"property_id": k, "reason": v} for k, v in sorted(CLAIMS["not_applicable"].items())],
}
json.dump(m, open(os.path.join(HERE, "MANIFEST.json"), "w"), indent=1)
print("wrote MANIFEST.json with %d checks, %d n/a" % (len(checks), len(m["not_applicable"])))
