#!/usr/bin/env python3
"""Development helper (never run by a check): systematic operator mutation of the anchored praatio sources.

phase 1  automut.py gen <out.json>          generate mutants, keep those the pinned test suite does not kill
phase 2  automut.py run <in.json> <out.json> run the checks of the properties that reach the mutated function
phase 3  automut.py show <out.json>          undetected survivors, grouped by function

Everything happens in scratch copies of /repo under a temporary directory that is removed at the end.
"""
import ast, collections, json, os, random, shutil, subprocess, sys, tempfile
from concurrent.futures import ThreadPoolExecutor

REPO = "/repo"
FILES = ["praatio/data_classes/interval_tier.py", "praatio/data_classes/point_tier.py", "praatio/data_classes/textgrid_tier.py",
         "praatio/data_classes/textgrid.py", "praatio/data_classes/klattgrid.py", "praatio/utilities/utils.py", "praatio/utilities/my_math.py",
         "praatio/utilities/textgrid_io.py", "praatio/utilities/constants.py", "praatio/textgrid.py", "praatio/klattgrid.py", "praatio/audio.py",
         "praatio/pitch_and_intensity.py", "praatio/praatio_scripts.py", "praatio/data_points.py"]

CMP = {ast.Lt: ["<="], ast.LtE: ["<"], ast.Gt: [">="], ast.GtE: [">"], ast.Eq: ["!="], ast.NotEq: ["=="], ast.Is: ["is not"], ast.IsNot: ["is"], ast.In: ["not in"], ast.NotIn: ["in"]}
CMPTXT = {ast.Lt: "<", ast.LtE: "<=", ast.Gt: ">", ast.GtE: ">=", ast.Eq: "==", ast.NotEq: "!=", ast.Is: "is", ast.IsNot: "is not", ast.In: "in", ast.NotIn: "not in"}
BIN = {ast.Add: ("+", "-"), ast.Sub: ("-", "+"), ast.Mult: ("*", "/"), ast.Div: ("/", "*"), ast.FloorDiv: ("//", "/")}


def offsets(src):
    offs = [0]
    for line in src.splitlines(True):
        offs.append(offs[-1] + len(line.encode("utf-8")))
    return offs


def mutants_of(path):
    src = open(os.path.join(REPO, path), encoding="utf-8").read()
    b = src.encode("utf-8")
    offs = offsets(src)
    tree = ast.parse(src)
    out = []

    def pos(node, end=False):
        return offs[(node.end_lineno if end else node.lineno) - 1] + (node.end_col_offset if end else node.col_offset)

    def add(fn, node, a, z, new, what):
        out.append({"file": path, "function": fn, "line": node.lineno, "what": what, "start": a, "end": z, "new": new})

    def between(a, z, token):
        seg = b[a:z].decode("utf-8")
        i = seg.find(token)
        if i < 0:
            return None
        return a + len(seg[:i].encode("utf-8"))

    def visit(node, fn):
        for child in ast.iter_child_nodes(node):
            name = fn
            if isinstance(child, (ast.FunctionDef, ast.ClassDef)):
                name = (fn + "." if fn else "") + child.name
            if fn and isinstance(child, ast.Compare) and len(child.ops) == 1:
                op = child.ops[0]
                txt = CMPTXT[type(op)]
                p = between(pos(child.left, True), pos(child.comparators[0]), txt)
                if p is not None:
                    for new in CMP[type(op)]:
                        add(fn, child, p, p + len(txt), new, "%s -> %s" % (txt, new))
            if fn and isinstance(child, ast.BinOp) and type(child.op) in BIN and not isinstance(child.left, ast.Constant) or (fn and isinstance(child, ast.BinOp) and type(child.op) in BIN and not isinstance(child.left.value, str)):
                txt, new = BIN[type(child.op)]
                p = between(pos(child.left, True), pos(child.right), txt)
                if p is not None and not (isinstance(child.left, ast.Constant) and isinstance(child.left.value, str)):
                    add(fn, child, p, p + len(txt), new, "%s -> %s" % (txt, new))
            if fn and isinstance(child, ast.BoolOp):
                txt = "and" if isinstance(child.op, ast.And) else "or"
                new = "or" if txt == "and" else "and"
                p = between(pos(child.values[0], True), pos(child.values[1]), txt)
                if p is not None:
                    add(fn, child, p, p + len(txt), new, "%s -> %s" % (txt, new))
            if fn and isinstance(child, ast.UnaryOp) and isinstance(child.op, ast.Not):
                add(fn, child, pos(child), pos(child.operand), "", "not dropped")
            if fn and isinstance(child, ast.Constant) and type(child.value) is int and not isinstance(node, (ast.Expr,)):
                for new in ([child.value + 1] if child.value != 0 else [1]) + ([child.value - 1] if child.value not in (0,) else [-1]):
                    add(fn, child, pos(child), pos(child, True), str(new), "%d -> %d" % (child.value, new))
            if fn and isinstance(child, ast.Constant) and type(child.value) is bool:
                add(fn, child, pos(child), pos(child, True), str(not child.value), "%s -> %s" % (child.value, not child.value))
            if fn and isinstance(child, (ast.Break, ast.Continue)):
                add(fn, child, pos(child), pos(child, True), "pass", "%s -> pass" % type(child).__name__.lower())
            if fn and isinstance(child, ast.Expr) and isinstance(child.value, ast.Call) and child.lineno == child.end_lineno:
                add(fn, child, pos(child), pos(child, True), "pass", "statement `%s` dropped" % ast.unparse(child)[:60])
            if fn and isinstance(child, (ast.Assign, ast.AugAssign)) and isinstance(node, (ast.If, ast.For, ast.While, ast.FunctionDef)) and child.lineno == child.end_lineno and isinstance(child, ast.AugAssign):
                add(fn, child, pos(child), pos(child, True), "pass", "statement `%s` dropped" % ast.unparse(child)[:60])
            if fn and isinstance(child, ast.If) and not child.orelse and isinstance(child.test, ast.expr):
                add(fn, child, pos(child.test), pos(child.test, True), "False", "condition `%s` -> False" % ast.unparse(child.test)[:60])
            if fn and isinstance(child, ast.Call) and isinstance(child.func, ast.Name) and child.func.id in ("min", "max"):
                other = "max" if child.func.id == "min" else "min"
                add(fn, child, pos(child.func), pos(child.func, True), other, "%s -> %s" % (child.func.id, other))
            if fn and isinstance(child, ast.Attribute) and child.attr in ("start", "end") and isinstance(child.ctx, ast.Load):
                other = "end" if child.attr == "start" else "start"
                z = pos(child, True)
                add(fn, child, z - len(child.attr), z, other, ".%s -> .%s" % (child.attr, other))
            if fn and isinstance(child, ast.Attribute) and child.attr in ("minTimestamp", "maxTimestamp") and isinstance(child.ctx, ast.Load):
                other = "maxTimestamp" if child.attr == "minTimestamp" else "minTimestamp"
                z = pos(child, True)
                add(fn, child, z - len(child.attr), z, other, ".%s -> .%s" % (child.attr, other))
            if fn and isinstance(child, ast.Call) and len(child.args) == 2 and not child.keywords and all(isinstance(a, ast.Name) for a in child.args) and child.args[0].id != child.args[1].id and child.lineno == child.end_lineno:
                a0, a1 = child.args
                add(fn, child, pos(a0), pos(a1, True), "%s, %s" % (a1.id, a0.id), "arguments (%s, %s) swapped" % (a0.id, a1.id))
            if fn and isinstance(child, ast.AugAssign) and isinstance(child.op, (ast.Add, ast.Sub)):
                txt = "+=" if isinstance(child.op, ast.Add) else "-="
                p_ = between(pos(child.target, True), pos(child.value), txt)
                if p_ is not None:
                    add(fn, child, p_, p_ + 2, "-=" if txt == "+=" else "+=", "%s -> %s" % (txt, "-=" if txt == "+=" else "+="))
            if fn and isinstance(child, ast.Subscript) and isinstance(child.slice, ast.UnaryOp) and isinstance(child.slice.op, ast.USub) and isinstance(child.slice.operand, ast.Constant) and child.slice.operand.value == 1:
                add(fn, child, pos(child.slice), pos(child.slice, True), "0", "[-1] -> [0]")
            visit(child, name if isinstance(child, (ast.FunctionDef, ast.ClassDef)) else fn)
    visit(tree, "")
    # drop mutants inside docstrings / raise messages / f-strings: positions inside string constants are never produced, but
    # mutations inside `raise` statements only change messages
    return out, b


def apply_to(root, m, blobs):
    b = blobs[m["file"]]
    nb = b[:m["start"]] + m["new"].encode("utf-8") + b[m["end"]:]
    with open(os.path.join(root, m["file"]), "wb") as f:
        f.write(nb)
    return nb


def restore(root, m, blobs):
    with open(os.path.join(root, m["file"]), "wb") as f:
        f.write(blobs[m["file"]])


def make_workers(n, tmp):
    roots = []
    for i in range(n):
        d = os.path.join(tmp, "w%d" % i)
        shutil.copytree(REPO, d, ignore=shutil.ignore_patterns(".git", "__pycache__", "*.egg-info", "docs", "tutorials"))
        roots.append(d)
    return roots


SKIP_FUNCS = ("_extractPIPiecewise", "_extractPIFile", "extractIntensity", "extractPitchTier", "extractPitch", "extractPI", "generatePIMeasures",
              "spellCheckEntries", "splitTierEntries", "wavToKlattgrid", "runPraatScript", "resynthesize", "makeDir", "_KlattBaseTier.__eq__")


def gen(out_path, per_function=12, seed=1, exclude=None):
    rng = random.Random(seed)
    done = set()
    if exclude:
        for pth in exclude.split(","):
            for m in json.load(open(pth)):
                done.add((m["file"], m["start"], m["end"], m["new"]))
    allm, blobs = [], {}
    for f in FILES:
        if not os.path.exists(os.path.join(REPO, f)):
            continue
        ms, b = mutants_of(f)
        blobs[f] = b
        byfn = collections.defaultdict(list)
        seen = set()
        for m in ms:
            k = (m["start"], m["end"], m["new"])
            if k in seen or (m["file"],) + k in done or m["function"] in SKIP_FUNCS:
                continue
            seen.add(k)
            byfn[m["function"]].append(m)
        for fn, lst in byfn.items():
            rng.shuffle(lst)
            allm.extend(lst[:per_function])
    # syntactically valid only
    ok = []
    for m in allm:
        b = blobs[m["file"]]
        nb = b[:m["start"]] + m["new"].encode() + b[m["end"]:]
        try:
            ast.parse(nb.decode("utf-8"))
            ok.append(m)
        except SyntaxError:
            pass
    print("generated %d mutants in %d files" % (len(ok), len(blobs)), flush=True)
    tmp = tempfile.mkdtemp(prefix="vpauto_")
    try:
        roots = make_workers(14, tmp)
        free = list(roots)

        def one(m):
            root = free.pop()
            try:
                apply_to(root, m, blobs)
                r = subprocess.run(["/venv/bin/python", "-m", "pytest", "-x", "-q", "-p", "no:cacheprovider", "--timeout=120"], cwd=root,
                                   env=dict(os.environ, PYTHONPATH=root, PYTHONDONTWRITEBYTECODE="1"), capture_output=True, text=True)
                tail = (r.stdout.strip().splitlines() or ["?"])[-1]
                m["tests"] = tail
                m["survives"] = r.returncode == 0 and "367 passed" in tail
            except Exception as e:  # noqa
                m["tests"] = "error %s" % e
                m["survives"] = False
            finally:
                restore(root, m, blobs)
                free.append(root)
            return m
        with ThreadPoolExecutor(14) as ex:
            res = list(ex.map(one, ok))
    finally:
        shutil.rmtree(tmp, ignore_errors=True)
    surv = [m for m in res if m["survives"]]
    print("%d of %d survive the test suite" % (len(surv), len(res)))
    json.dump(surv, open(out_path, "w"), indent=1)
    json.dump(res, open(out_path + ".all", "w"), indent=1)


def callgraph():
    """simple-name call closure over all praatio functions (over-approximate)."""
    calls, defs = collections.defaultdict(set), {}
    for f in FILES:
        p = os.path.join(REPO, f)
        if not os.path.exists(p):
            continue
        tree = ast.parse(open(p).read())
        for node in ast.walk(tree):
            if isinstance(node, ast.ClassDef):
                for x in node.body:
                    if isinstance(x, ast.FunctionDef):
                        defs.setdefault(x.name, set()).add(node.name + "." + x.name)
                        for c in ast.walk(x):
                            if isinstance(c, ast.Call):
                                nm = c.func.attr if isinstance(c.func, ast.Attribute) else getattr(c.func, "id", None)
                                if nm:
                                    calls[node.name + "." + x.name].add(nm)
                            if isinstance(c, ast.Attribute):
                                calls[node.name + "." + x.name].add(c.attr)
        for x in tree.body:
            if isinstance(x, ast.FunctionDef):
                defs.setdefault(x.name, set()).add(x.name)
                for c in ast.walk(x):
                    if isinstance(c, ast.Call):
                        nm = c.func.attr if isinstance(c.func, ast.Attribute) else getattr(c.func, "id", None)
                        if nm:
                            calls[x.name].add(nm)
                    if isinstance(c, (ast.Attribute,)):
                        calls[x.name].add(c.attr)
                    if isinstance(c, ast.Name):
                        calls[x.name].add(c.id)
    # calling a class reaches its constructor (its own or an inherited one)
    bases, has_init = {}, set()
    for f in FILES:
        p = os.path.join(REPO, f)
        if not os.path.exists(p):
            continue
        for node in ast.walk(ast.parse(open(p).read())):
            if isinstance(node, ast.ClassDef):
                bases[node.name] = [getattr(b, "id", getattr(b, "attr", None)) for b in node.bases]
                if any(isinstance(x, ast.FunctionDef) and x.name == "__init__" for x in node.body):
                    has_init.add(node.name)
    for c in bases:
        k, seen = c, set()
        while k and k not in has_init and k not in seen:
            seen.add(k)
            k = next((b for b in bases.get(k, []) if b in bases), None)
        if k in has_init:
            defs.setdefault(c, set()).add(k + ".__init__")
    return calls, defs


def props_for(m, reach):
    return sorted(p for p, fns in reach.items() if m["function"] in fns or m["function"].split(".")[-1] in {f.split(".")[-1] for f in fns} and m["function"] in fns)


def run(in_path, out_path):
    surv = json.load(open(in_path))
    calls, defs = callgraph()
    reach, wall = {}, {}
    for i in range(1, 21):
        pid = "C%02d" % i
        ev = json.load(open("/verif/evidence/%s.json" % pid))
        wall[pid] = ev.get("wall_s", 10)
        start = set()
        for q in ev["coverage"].get("functions_analysed", []):
            start.add(q.split(":")[-1])
        seen = set(start)
        todo = list(start)
        while todo:
            f = todo.pop()
            for nm in calls.get(f, ()):  # simple names
                for g in defs.get(nm, ()):  # every definition with that name
                    if g not in seen:
                        seen.add(g)
                        todo.append(g)
            # constructors: Class(...) calls reach __init__
        reach[pid] = seen
    blobs = {f: open(os.path.join(REPO, f), "rb").read() for f in FILES if os.path.exists(os.path.join(REPO, f))}
    tmp = tempfile.mkdtemp(prefix="vpauto_")
    try:
        roots = []
        for i in range(5):
            d = os.path.join(tmp, "w%d" % i)
            os.makedirs(d)
            shutil.copytree(REPO + "/praatio", d + "/praatio", ignore=shutil.ignore_patterns("__pycache__"))
            shutil.copy(REPO + "/README.md", d)
            roots.append(d)
        free = list(roots)

        def one(m):
            root = free.pop()
            try:
                props = sorted((p for p, fns in reach.items() if m["function"] in fns), key=lambda p: wall[p])
                m["properties"] = props
                apply_to(root, m, blobs)
                res = {}
                for p in props:
                    r = subprocess.run(["/verif/vcheck", p], env=dict(os.environ, VP_REPO=root, VP_NO_EVIDENCE="1"), capture_output=True, text=True, cwd="/verif")
                    lines = [l for l in r.stdout.splitlines() if l.strip()]
                    res[p] = {"exit": r.returncode, "first": next((l.strip()[:300] for l in lines if "witness" in l or l.startswith("ANALYSIS-ERROR")), "")}
                    if r.returncode == 1:
                        break  # detected: the other properties are not needed for the question asked here
                m["checks"] = res
                m["detected"] = any(v["exit"] == 1 for v in res.values())
                print("%s %s:%d %s -> %s" % ("DET " if m["detected"] else "MISS", m["function"], m["line"], m["what"], {p: v["exit"] for p, v in res.items()}), flush=True)
            finally:
                restore(root, m, blobs)
                free.append(root)
            return m
        with ThreadPoolExecutor(5) as ex:
            res = list(ex.map(one, surv))
    finally:
        shutil.rmtree(tmp, ignore_errors=True)
    json.dump(res, open(out_path, "w"), indent=1)
    print("%d survivors, %d detected, %d reach no property" % (len(res), sum(m["detected"] for m in res), sum(not m["properties"] for m in res)))


def show(path):
    res = json.load(open(path))
    for m in res:
        if not m.get("detected") and m.get("properties"):
            src = open(os.path.join(REPO, m["file"])).read().splitlines()[m["line"] - 1].strip()
            print("%s:%d %s [%s]  %s  | %s" % (m["file"].split("/")[-1], m["line"], m["function"], m["what"], {p: v["exit"] for p, v in m["checks"].items()}, src[:110]))


if __name__ == "__main__":
    if sys.argv[1] == "gen":
        gen(sys.argv[2], int(sys.argv[3]) if len(sys.argv) > 3 else 12, int(sys.argv[4]) if len(sys.argv) > 4 else 1, sys.argv[5] if len(sys.argv) > 5 else None)
    elif sys.argv[1] == "run":
        run(sys.argv[2], sys.argv[3])
    elif sys.argv[1] == "show":
        show(sys.argv[2])


def emit(path, key, out):
    """write the patch of the mutant whose 'function:line:what' contains key"""
    import difflib
    res = json.load(open(path))
    hits = [m for m in res if key in "%s:%d:%s" % (m["function"], m["line"], m["what"])]
    for i, m in enumerate(hits):
        b = open(os.path.join(REPO, m["file"]), "rb").read()
        nb = b[:m["start"]] + m["new"].encode() + b[m["end"]:]
        d = "".join(difflib.unified_diff(b.decode().splitlines(1), nb.decode().splitlines(1), "a/" + m["file"], "b/" + m["file"]))
        fn = "%s.%d.diff" % (out, i)
        open(fn, "w").write(d)
        print(fn, m["function"], m["line"], m["what"])
        print("".join(l for l in d.splitlines(1) if l[0] in "+-" and not l.startswith(("+++", "---"))), end="")


if __name__ == "__main__" and sys.argv[1] == "emit":
    emit(sys.argv[2], sys.argv[3], sys.argv[4])
