#!/bin/bash
cd /verif
for p in C01 C02 C03 C04 C05 C06 C07 C08 C09 C10 C11 C12 C13 C14 C15 C16 C17 C18 C19 C20; do
  s=$(date +%s); ./vcheck $p --tier thorough > /tmp/thor_$p.out 2>&1; rc=$?; e=$(date +%s)
  echo "$p rc=$rc $((e-s))s $(tail -1 /tmp/thor_$p.out | cut -c1-160)"
done
