"""Triage (run once by hand, never by a check): the seven unsafe delimiter scans (D3) against the real code."""
import tempfile, os, shutil
from praatio import textgrid
from praatio.data_classes.interval_tier import IntervalTier
from praatio.data_classes.point_tier import PointTier
from praatio.data_classes.textgrid import Textgrid

def trip(label, fmt, point=False):
    tg = Textgrid(0, 2)
    if point:
        tg.addTier(PointTier("t", [(1, label)], 0, 2))
    else:
        tg.addTier(IntervalTier("t", [(0, 1, label), (1, 2, "z")], 0, 2))
    d = tempfile.mkdtemp()
    try:
        fn = os.path.join(d, "x.TextGrid")
        tg.save(fn, fmt, True)
        try:
            t2 = textgrid.openTextgrid(fn, False)
            ok = t2.getTier("t").entries == tg.getTier("t").entries
            return "reopened, equal=%s" % ok
        except Exception as e:
            return "%s: %s" % (type(e).__name__, str(e)[:50])
    finally:
        shutil.rmtree(d)

print("1 'ooTextFile short' in data        :", trip("ooTextFile short", "long_textgrid"))
print("2 'item [' not in data  (short file):", trip("item [", "short_textgrid"))
print("3 re.split item ?\\[  (long)          :", trip("item [2]:", "long_textgrid"))
print("4 re.split intervals ?\\[ (long)      :", trip("intervals [1]:", "long_textgrid"))
print("5 re.split points ?\\[ (long, point)  :", trip("points [1]:", "long_textgrid", point=True))
print("6 findAll '\"IntervalTier\"' (short)   :", trip('"IntervalTier"', "short_textgrid"))
print("7 findAll '\"TextTier\"' (short)       :", trip('"TextTier"', "short_textgrid"))
print("control                              :", trip('plain "quoted" label', "short_textgrid"), "/", trip('plain "quoted" label', "long_textgrid"))
