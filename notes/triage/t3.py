from praatio import textgrid
IT=textgrid.IntervalTier; PT=textgrid.PointTier; TG=textgrid.Textgrid
def attempt(name, f):
    try:
        r=f(); print("OK  ", name, "->", r)
    except Exception as e:
        print("EXC ", name, "->", type(e).__name__, e)
t=IT("i",[(0,1,'a')],0,2)
attempt("erase seam 0.1-0.3", lambda: t.eraseRegion(0.1,0.3,'truncate',True).entries)
attempt("erase seam 0.1-0.7", lambda: t.eraseRegion(0.1,0.7,'truncate',True).entries)
t=IT("i",[(0,0.3,'a'),(0.3,1,'b')],0,2)
attempt("erase edge", lambda: t.eraseRegion(0.1,0.3,'truncate',True).entries)
t=IT("i",[(0.0,1.0,'a'),(1.0,2.0,'b')],0,3)
attempt("insertSpace split 0.7,0.1", lambda: t.insertSpace(0.7,0.1,'split').entries)
attempt("insertSpace split 0.3,0.1", lambda: t.insertSpace(0.3,0.1,'split').entries)
# insertEntry reportingMode error
t=IT("i",[(0,1,'a')],0,2)
try: t.insertEntry((0.5,1.5,'b'),'replace','error')
except Exception as e: print("insertEntry err-mode raised", type(e).__name__, "entries now", t.entries)
# Textgrid.crop with an empty secondary tier
tg=TG(0,5); tg.addTier(IT("w",[(1,2,'x')],0,5)); tg.addTier(IT("e",[(4,5,'y')],0,5))
attempt("tg.crop rebase w/ empty secondary", lambda: tg.crop(1,2,'truncated',True).tierNames)
attempt("tg.editTimestamps all clipped", lambda: tg.editTimestamps(-10,'silence').tierNames)
e=TG(0,5); e.addTier(IT("w",[],0,5))
attempt("appendTextgrid with empty tier", lambda: tg.appendTextgrid(e, False).tierNames)
