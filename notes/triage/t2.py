import os, tempfile, shutil
from praatio import textgrid, audio, klattgrid, data_points
from praatio.data_classes import data_point
def attempt(name, f):
    try:
        r=f(); print("OK  ", name, "->", r)
    except Exception as e:
        print("EXC ", name, "->", type(e).__name__, e)
# C16 byte misalignment
frames = audio.convertToBytes(tuple(range(100)), 2)
w = audio.Wav(frames, [1,2,8000,100,"NONE","not compressed"])
t = 3.3/8000  # off-boundary -> byte idx round(6.6)=7 odd
print("idx", w._getIndexAtTime(t), "samples:", )
attempt("getSamples off-grid", lambda: w.getSamples(t, 10.3/8000)[:5])
w2=w.new(); w2.deleteSegment(t, 10.3/8000)
attempt("after delete len bytes", lambda: (len(w2.frames), audio.convertFromBytes(w2.frames[: len(w2.frames)//2*2],2)[:8]))
# C19 klattgrid
d=tempfile.mkdtemp(dir="/tmp/triage")
src="/repo/tests/files/bobby.KlattGrid"
print(os.path.exists(src))
kg=klattgrid.openKlattgrid(src)
out=os.path.join(d,"a.KlattGrid"); kg.save(out)
kg2=klattgrid.openKlattgrid(out)
out2=os.path.join(d,"b.KlattGrid"); kg2.save(out2)
a=open(out).read(); b=open(out2).read()
print("klatt resave identical:", a==b, len(a), len(b))
if a!=b:
    import difflib
    for l in list(difflib.unified_diff(a.splitlines(), b.splitlines(), lineterm="", n=0))[:30]: print(l)
orig=open(src, encoding="utf-8", errors="replace").read() if True else ""
# compare last values per container tier
def lastvals(kg):
    res={}
    for name in kg.tierNames:
        t=kg._tierDict[name]
        if hasattr(t,"tierNameList") and t.tierNameList:
            for iname in t.tierNameList:
                it=t.tierDict[iname]
                if it.tierNameList:
                    st=it.tierDict[it.tierNameList[-1]]
                    res[(name,iname)]=st.entries[-1:] 
    return res
lv1=lastvals(kg); lv2=lastvals(kg2)
for k in lv1:
    if lv1[k]!=lv2.get(k): print("DIFF",k,lv1[k],lv2.get(k))
# points
po=data_point.PointObject2D([(0.1,100.0),(0.25,5e-05),(3.0,1e22)],"PitchTier",0,4.0)
fn=os.path.join(d,"p.PitchTier"); po.save(fn)
attempt("po2d", lambda: data_points.open2DPointObject(fn).pointList)
po=data_point.PointObject1D([(0.1,),(0.25,),(3.0,)],"PointProcess",0,4.0)
fn=os.path.join(d,"p.PointProcess"); po.save(fn)
attempt("po1d", lambda: (data_points.open1DPointObject(fn).pointList, data_points.open1DPointObject(fn)==po))
po=data_point.PointObject1D([],"PointProcess",0,4.0)
fn=os.path.join(d,"e.PointProcess"); po.save(fn)
attempt("po1d-empty", lambda: (data_points.open1DPointObject(fn).pointList))
shutil.rmtree(d)
