import random
from praatio import textgrid
IT=textgrid.IntervalTier
random.seed(1)
found=0
for _ in range(20000):
    e=round(random.uniform(0.5,3),2); s=round(random.uniform(0.01,e-0.01),2); d=round(random.uniform(0.01,2),2)
    t=IT("i",[(0.0,e,'a'),(e,e+1.0,'b')],0,e+2)
    try:
        r=t.insertSpace(s,d,'split')
        en=r.entries
        if en[1].end!=en[2].start:
            found+=1
            if found<3: print("gap/seam", s,d,e, en)
    except Exception as ex:
        found+=1
        if found<6: print("EXC", s,d,e,type(ex).__name__, str(ex)[:80])
print("insertSpace split failures", found, "of 20000")
found=0
for _ in range(20000):
    a=round(random.uniform(0.01,1),2); b=round(random.uniform(a+0.01,2),2)
    t=IT("i",[(0.0,3.0,'a')],0,3)
    try:
        r=t.eraseRegion(a,b,'truncate',True)
        if len(r.entries)!=1: found+=1
    except Exception as ex:
        found+=1
print("eraseRegion straddle failures", found, "of 20000")
