"""D17 (C08): IntervalTier.insertSpace in 'split' mode fails on a well-formed input because of rounding.

    interval (0.2, 0.1 + 0.2) = (0.2, 0.30000000000000004), insertion point 0.3, duration 0.25

The right piece is built as (start + duration, interval.end + duration); both sums round to 0.55, the piece has
length 0 and the tier constructor raises TextgridStateError.  'stretch' on the same input works.
Run with the repository on the path:  PYTHONPATH=/repo python d17_insertspace_split.py   (development aid, not a check)
"""
from praatio.data_classes.interval_tier import IntervalTier
from praatio.utilities.constants import Interval

t = IntervalTier("w", [Interval(0.2, 0.1 + 0.2, "a")], 0, 1)
print("stretch:", t.insertSpace(0.3, 0.25, "stretch").entries)
try:
    print("split:", t.insertSpace(0.3, 0.25, "split").entries)
except Exception as e:  # noqa
    print("split: %s: %s" % (type(e).__name__, e))
