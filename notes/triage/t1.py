import traceback, io, os, tempfile
from praatio import textgrid, audio, klattgrid, data_points
from praatio.utilities import textgrid_io, my_math, utils, constants
from praatio.data_classes.textgrid import _tgToDictionary
IT=textgrid.IntervalTier; PT=textgrid.PointTier; TG=textgrid.Textgrid

def attempt(name, f):
    try:
        r=f(); print("OK  ", name, "->", r)
    except Exception as e:
        print("EXC ", name, "->", type(e).__name__, e)

def rt(tg, fmt, blanks=True, inc=True):
    s = textgrid_io.getTextgridAsStr(_tgToDictionary(tg), fmt, blanks)
    d = textgrid_io.parseTextgridStr(s, inc)
    return textgrid._dictionaryToTg(d, "silence")

# C01: point label with quote in long format
tg=TG(); tg.addTier(PT("p",[(1.0,'say "hi"')],0,2))
for fmt in ["long_textgrid","short_textgrid","json","textgrid_json"]:
    attempt("point-quote "+fmt, lambda: rt(tg,fmt).getTier("p").entries)
# exponent notation
tg=TG(); tg.addTier(IT("i",[(0.00005,1.0,'a')],0,2))
for fmt in ["long_textgrid","short_textgrid"]:
    attempt("exp "+fmt, lambda: rt(tg,fmt).getTier("i").entries)
tg=TG(); tg.addTier(IT("i",[(0.5,1.0,'a')],0.00005,2))
for fmt in ["long_textgrid","short_textgrid"]:
    attempt("exp-tier-xmin "+fmt, lambda: (rt(tg,fmt).getTier("i").minTimestamp))
# label with newline, with '=' and digits
tg=TG(); tg.addTier(IT("i",[(0.5,1.0,'xmin = 3\nfoo')],0,2))
for fmt in ["long_textgrid","short_textgrid"]:
    attempt("label-keyword "+fmt, lambda: rt(tg,fmt).getTier("i").entries)
tg=TG(); tg.addTier(IT("i",[(0.5,1.0,'item [2]:')],0,2))
for fmt in ["long_textgrid","short_textgrid"]:
    attempt("label-item "+fmt, lambda: rt(tg,fmt).getTier("i").entries)
tg=TG(); tg.addTier(IT("i",[(0.5,1.0,'"IntervalTier"')],0,2))
for fmt in ["long_textgrid","short_textgrid"]:
    attempt("label-IntervalTier "+fmt, lambda: rt(tg,fmt).getTier("i").entries)
# label ending with quote: 'a"' -> "a""" 
tg=TG(); tg.addTier(IT("i",[(0.5,1.0,'a"'),(1.0,1.5,'"b')],0,2))
for fmt in ["long_textgrid","short_textgrid"]:
    attempt("label-endquote "+fmt, lambda: rt(tg,fmt).getTier("i").entries)
# big
tg=TG(); tg.addTier(IT("i",[(0.5,1e15,'a')],0,1e15))
for fmt in ["long_textgrid","short_textgrid"]:
    attempt("big "+fmt, lambda: rt(tg,fmt).getTier("i").entries)
tg=TG(); tg.addTier(IT("i",[(0.5,123456789012345.6,'a')],0,123456789012345.6))
for fmt in ["long_textgrid","short_textgrid"]:
    attempt("big2 "+fmt, lambda: rt(tg,fmt).getTier("i").entries)

# C06 crop empty rebase
t=IT("i",[(1,2,'a')],0,5)
attempt("crop empty rebase", lambda: t.crop(3,4,"strict",True).entries)
attempt("crop empty norebase", lambda: t.crop(3,4,"strict",False).entries)
# C09 editTimestamps all clipped / empty
attempt("edit all clipped", lambda: t.editTimestamps(-3,"silence").entries)
e=IT("e",[],0,5)
attempt("edit empty", lambda: e.editTimestamps(1,"silence").entries)
attempt("append empty", lambda: t.appendTier(e).entries)
p=PT("p",[(1,'a')],0,5)
attempt("pt edit all clipped", lambda: p.editTimestamps(-3,"silence").entries)
# C11 point insert outside span
p=PT("p",[(1,'a')],0,5); p.insertEntry((7,'b'))
print("point insert outside span:", p.entries, p.minTimestamp, p.maxTimestamp, p.validate("silence"))
# C05 label whitespace via insertEntry
t=IT("i",[(1,2,'a')],0,5); t.insertEntry((3,4,' b '))
print("insert unstripped:", t.entries)
# C13 addTier error after mutation
tg=TG(0,2); tg.addTier(IT("a",[(0,1,'x')],0,2))
try: tg.addTier(IT("b",[(0,3,'x')],0,3), reportingMode="error")
except Exception as ex: print("addTier raised", type(ex).__name__, "names after:", tg.tierNames, tg.maxTimestamp)
tg=TG(0,2); tg.addTier(IT("a",[(0,1,'x')],0,2)); tg.addTier(IT("b",[(0,1,'x')],0,2))
try: tg.renameTier("a","b")
except Exception as ex: print("rename raised", type(ex).__name__, "names after:", tg.tierNames)
try: tg.replaceTier("b", IT("zz",[(0,5,'x')],0,5), reportingMode="error")
except Exception as ex: print("replace raised", type(ex).__name__, "names after:", tg.tierNames)
