"""Equality of symbolic numeric results (polynomials over the input symbols with uninterpreted sqrt / reciprocal).

`decide` first compares normal forms (proof of equality as expressions).  If they differ it looks for a *refutation*:
an assignment of the symbols, consistent with the abstract state, under which the two expressions -- read with the
real meaning of sqrt and 1/x -- have different values.  Only a refutation is reported as a violation; expressions
that differ in form but agree at every sample are "unknown" (the analysis is incomplete there, and says so).
No repository code is involved: what is evaluated are the two closed-form expressions the analysis derived.
"""

import random
from fractions import Fraction

from .absint import Lin


def _lin_value(lin, env):
    tot = lin.const
    for k, c in lin.coef.items():
        tot += c * env[k]  # KeyError: a symbol the assignment does not cover
    return tot


def consistent(state, env):
    """Does the assignment satisfy the state's weak order and every refinement fact?"""
    try:
        vals = [_lin_value(lin, env) for _, lin in state.atoms]
        for i in range(len(vals)):
            for j in range(i):
                a, b = vals[i] - vals[j], state.ranks[i] - state.ranks[j]
                if (a > 0) - (a < 0) != (b > 0) - (b < 0):
                    return False
        for lin, strict in state.side:
            v = _lin_value(lin, env)
            if v > 0 or (strict and v == 0):
                return False
    except KeyError:
        return False
    return True


def model_points(state, count=6, seed=20, tries=600):
    """Assignments {symbol: Fraction} consistent with the state (its weak order of plain symbols and constants and
    its refinement facts), found by sampling and checked exactly.  None when an atom is a compound expression."""
    pinned = {}
    facts = [(lin.key(), strict) for lin, strict in state.side]
    for lin, strict in state.side:
        # lin <= 0 and -lin <= 0 with a single symbol: the symbol is that number
        if not strict and len(lin.coef) == 1 and (lin.neg().key(), False) in facts:
            (k, c), = lin.coef.items()
            pinned[k] = -lin.const / c
    for k, v in list(pinned.items()):
        rk = [r for (nm, lin), r in zip(state.atoms, state.ranks) if list(lin.coef) == [k] and lin.const == 0]
        for (nm, lin), r in zip(state.atoms, state.ranks):
            if rk and r == rk[0] and len(lin.coef) == 1 and lin.const == 0 and list(lin.coef.values())[0] == 1:
                pinned[list(lin.coef)[0]] = v
    out = []
    for t in range(tries):
        cand = _sample(state, seed + t)
        if cand is None:
            return None
        cand.update(pinned)
        if consistent(state, cand):
            out.append(cand)
            if len(out) >= count:
                break
    return out


def _sample(state, seed):
    classes = {}
    for (name, lin), r in zip(state.atoms, state.ranks):
        classes.setdefault(r, []).append(lin)
    order = sorted(classes)
    fixed = {}
    for r in order:
        for lin in classes[r]:
            if lin.is_const():
                fixed[r] = lin.const
            elif not (len(lin.coef) == 1 and lin.const == 0 and list(lin.coef.values())[0] == 1):
                return None
    rng = random.Random(seed)
    scale = rng.choice([1, 1, 4, 16, 64])  # small and large magnitudes: side facts may pin a symbol near a constant
    if True:
        vals = {}
        i = 0
        prev = None  # last assigned value
        while i < len(order):
            r = order[i]
            if r in fixed:
                vals[r] = fixed[r]
                prev = fixed[r]
                i += 1
                continue
            j = i
            while j < len(order) and order[j] not in fixed:
                j += 1
            run = order[i:j]
            hi = fixed[order[j]] if j < len(order) else None
            if prev is None and hi is None:
                xs = sorted(rng.sample(range(-4000, 9000), len(run)))
                xs = [Fraction(x, 16 * scale) for x in xs]
            elif prev is None:
                steps = sorted(rng.sample(range(1, 5000), len(run)), reverse=True)
                xs = [hi - Fraction(x, 16 * scale) for x in steps]
            elif hi is None:
                steps = sorted(rng.sample(range(1, 9000), len(run)))
                xs = [prev + Fraction(x, 16 * scale) for x in steps]
            else:
                steps = sorted(rng.sample(range(1, 4096), len(run)))
                xs = [prev + (hi - prev) * Fraction(x, 4096) for x in steps]
            for rr, x in zip(run, xs):
                vals[rr] = x
            prev = xs[-1]
            i = j
        env = {}
        for r in order:
            for lin in classes[r]:
                if not lin.is_const():
                    env[list(lin.coef)[0]] = vals[r]
        return env


def canon(state, symbols, v):
    """Symbols the state makes equal become one symbol; symbols equal to a constant become that constant."""
    mapping = {}
    consts = {}
    names = [list(x.coef)[0] for x in symbols]
    for i, x in enumerate(symbols):
        for (nm, lin) in state.atoms:
            if lin.is_const() and state.signs(x - lin) == frozenset([0]):
                consts[names[i]] = lin.const
                break
        else:
            for j in range(i):
                if names[j] not in consts and state.signs(x - symbols[j]) == frozenset([0]):
                    mapping[names[i]] = mapping.get(names[j], names[j])
                    break
    mapping.update(consts)
    return v.subst(mapping)


def decide(state, symbols, got, want, extra_env=None, scaled=None):
    """-> ("same",) | ("differ", env, got value, want value) | ("unknown", reason)
    scaled: a positive expression; equality of got*scaled and want*scaled in form also proves got = want."""
    g, w = canon(state, symbols, got), canon(state, symbols, want)
    if g.same(w):
        return ("same",)
    if scaled is not None:
        k = canon(state, symbols, scaled)
        if g.times(k).same(w.times(k)):
            return ("same",)
    pts = model_points(state)
    if pts is None:
        return ("unknown", "the expressions %r and %r differ in form and the state is not a plain order of symbols" % (g, w))
    tried = 0
    for env in pts:
        env = dict(env, **(extra_env or {}))
        try:
            a, b = got.evaluate(env), want.evaluate(env)
        except (ArithmeticError, KeyError):
            continue
        tried += 1
        if abs(a - b) > 1e-7 * max(1.0, abs(a), abs(b)):
            return ("differ", {k: float(v) for k, v in env.items()}, a, b)
    return ("unknown", "the expressions %r and %r differ in form but agree at %d sample assignments" % (g, w, tried))


def refute(state, pred):
    """pred(env) -> None | message, tried at every sample assignment; -> (message, env) | None"""
    for env in model_points(state) or []:
        try:
            m = pred(env)
        except (ArithmeticError, KeyError):
            continue
        if m:
            return m, {k: float(v) for k, v in env.items()}
    return None
