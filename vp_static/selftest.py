"""E9 -- self-test driver (positive controls now; mutant sweep added later)."""

import sys


def main(what=None) -> int:
    from . import controls

    return controls.run()
