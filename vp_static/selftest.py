"""E9 -- self-test driver: the checkers against seeded breaking changes (and benign twins).

Every variant is applied to a scratch copy of $VP_REPO/praatio created under $TMPDIR and removed
before the command returns; /repo itself is never touched.  Results are informational: they are
reported in the evidence of the thorough tier and never influence a property verdict.
"""

import json
import os
import shutil
import subprocess
import sys
import tempfile
from concurrent.futures import ThreadPoolExecutor

from . import REPO, VERIF

SEEDED = os.path.join(VERIF, "seeded")
TWINS = os.path.join(VERIF, "twins")


def _variants(kind_dir):
    out = []
    if not os.path.isdir(kind_dir):
        return out
    for name in sorted(os.listdir(kind_dir)):
        d = os.path.join(kind_dir, name)
        meta = os.path.join(d, "meta.json")
        patch = os.path.join(d, "patch.diff")
        if os.path.isfile(meta) and os.path.isfile(patch):
            with open(meta) as fd:
                m = json.load(fd)
            out.append((name, m, patch))
    return out


def run_variant(patch, props, tier="quick"):
    """Apply patch to a scratch copy and run the given property checks; returns {prop: (exit, tail)}."""
    d = tempfile.mkdtemp(prefix="vpself_")
    try:
        dst = os.path.join(d, "repo")
        os.makedirs(dst)
        shutil.copytree(os.path.join(REPO, "praatio"), os.path.join(dst, "praatio"), ignore=shutil.ignore_patterns("__pycache__"))
        if os.path.exists(os.path.join(REPO, "README.md")):
            shutil.copy(os.path.join(REPO, "README.md"), dst)
        with open(patch) as fd:
            r = subprocess.run(["patch", "-p1", "-s", "-d", dst], stdin=fd, capture_output=True, text=True)
        if r.returncode != 0:
            return {p: (3, "patch does not apply: " + (r.stdout + r.stderr)[:200]) for p in props}
        env = dict(os.environ, VP_REPO=dst, VP_NO_EVIDENCE="1", VP_SERIAL="1", VERIF_TIER=tier)
        out = {}
        for p in props:
            r = subprocess.run([os.path.join(VERIF, "vcheck"), p, "--tier", tier], env=env, capture_output=True, text=True, cwd=VERIF)
            lines = [l for l in r.stdout.splitlines() if l.strip()]
            first = next((l.strip() for l in lines if l.startswith("  ") and "--" in l), "")
            out[p] = (r.returncode, first[:300])
        return out
    finally:
        shutil.rmtree(d, ignore_errors=True)


def for_property(prop, tier="quick"):
    """Seeded changes that break `prop` must be reported (exit 1); twins must stay silent (exit 0)."""
    res = {"breaking": {}, "twins": {}}
    jobs = []
    for name, m, patch in _variants(SEEDED):
        if m.get("property") == prop or prop in m.get("also_breaks", []):
            jobs.append(("breaking", name, patch))
    own, others = [], []
    for name, m, patch in _variants(TWINS):
        if prop in m.get("properties", []) or not m.get("properties"):
            (own if prop in (m.get("written_for"), m.get("made_for")) or name.startswith(prop + "-") else others).append(("twins", name, patch))
    # every twin written for this property, plus a bounded, deterministic sample of the others that touch its files
    # (the full cross product is `./vcheck --selftest twins`)
    jobs += own + others[: max(0, 24 - len(own))]
    with ThreadPoolExecutor(max_workers=min(16, max(1, len(jobs)))) as ex:
        futs = {ex.submit(run_variant, patch, [prop], tier): (kind, name) for kind, name, patch in jobs}
        for f, (kind, name) in futs.items():
            code, first = f.result()[prop]
            want = 1 if kind == "breaking" else 0
            res[kind][name] = {"exit": code, "as_expected": code == want, "first_report": first}
    return res


def matrix(props=None, tier="quick"):
    """Every seeded change against every property check (development aid; prints a table)."""
    from .cli import PROPS

    props = props or PROPS
    rows = []
    variants = _variants(SEEDED)
    with ThreadPoolExecutor(max_workers=8) as ex:
        futs = [(name, m, ex.submit(run_variant, patch, props, tier)) for name, m, patch in variants]
        for name, m, f in futs:
            r = f.result()
            rows.append((name, m.get("property"), {p: r[p][0] for p in props}))
    return rows


def main(what=None) -> int:
    from . import controls

    if what in (None, "controls"):
        return controls.run()
    if what == "matrix":
        rows = matrix()
        from .cli import PROPS

        print("%-12s %-4s " % ("variant", "prop") + " ".join(p[1:] for p in PROPS))
        bad = 0
        for name, prop, r in rows:
            print("%-12s %-4s " % (name, prop) + " ".join({0: " .", 1: " X", 2: " ?", 3: " !"}.get(r[p], " ?") for p in PROPS))
            if r.get(prop) != 1:
                bad += 1
        print("%d variants; %d not reported by the check of their own property" % (len(rows), bad))
        return 0
    if what == "twins":
        bad = 0
        from .cli import PROPS

        for name, m, patch in _variants(TWINS):
            props = m.get("properties") or PROPS
            r = run_variant(patch, props)
            flagged = {p: c for p, (c, _) in r.items() if c != 0}
            print("%-28s %s" % (name, "silent" if not flagged else "ALARM %s" % flagged))
            if flagged:
                bad += 1
                for p in flagged:
                    print("      %s: %s" % (p, r[p][1]))
        print("%d twin(s) raised an alarm" % bad)
        return 0
    res = for_property(what.upper())
    print(json.dumps(res, indent=1))
    return 0
