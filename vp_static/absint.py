"""E4 -- order-type abstract interpreter.

Interprets repository functions (read from the AST, never imported) over
symbolic values.  Timestamps are *linear forms over named atoms*; the abstract
state is a weak order (total preorder) over a finite set of declared atoms, so
every comparison the code makes has one definite truth value per state.  The
interpreter never computes with concrete timestamps; a comparison that the
declared atoms cannot decide ends the analysis of that state as UNDECIDED.

Labels are opaque terms; option parameters and booleans are concrete constants.
"""

import ast
import itertools
from fractions import Fraction
from typing import Dict, List, Optional, Tuple

from .index import ClassInfo, FuncInfo, Index, ModuleInfo, Undecided, norm

# --------------------------------------------------------------------------- values


OPAQUE: Dict[str, tuple] = {}


class Lin:
    """Linear form sum(coef[v]*v) + const, with the float evaluation tree attached."""

    __slots__ = ("coef", "const", "tree", "is_float")

    def __init__(self, coef=None, const=0, tree=None, is_float=False):
        self.coef = {k: Fraction(v) for k, v in (coef or {}).items() if v != 0}
        self.const = Fraction(const)
        self.is_float = is_float  # only affects how a constant prints (2 vs 2.0); symbolic values are floats anyway
        if tree is None:
            if not self.coef:
                tree = ("c", self.const)
            elif len(self.coef) == 1 and self.const == 0 and list(self.coef.values())[0] == 1:
                tree = ("v", list(self.coef)[0])
            else:
                tree = ("?",)
        self.tree = tree

    @staticmethod
    def var(name):
        return Lin({name: 1}, 0, ("v", name))

    @staticmethod
    def num(c):
        return Lin({}, Fraction(c), ("c", Fraction(c)))

    def is_const(self):
        return not self.coef

    def key(self):
        return (tuple(sorted(self.coef.items())), self.const)

    def __add__(self, o):
        c = dict(self.coef)
        for k, v in o.coef.items():
            c[k] = c.get(k, 0) + v
        return Lin(c, self.const + o.const, ("+", self.tree, o.tree), self.is_float or o.is_float)

    def __sub__(self, o):
        c = dict(self.coef)
        for k, v in o.coef.items():
            c[k] = c.get(k, 0) - v
        return Lin(c, self.const - o.const, ("-", self.tree, o.tree), self.is_float or o.is_float)

    def neg(self):
        return Lin({k: -v for k, v in self.coef.items()}, -self.const, ("neg", self.tree), self.is_float)

    def scale(self, f, tree=None):
        f = Fraction(f)
        return Lin({k: v * f for k, v in self.coef.items()}, self.const * f, tree or ("*", self.tree, ("c", f)), self.is_float)

    def as_float(self):
        return Lin(self.coef, self.const, self.tree, True)

    @staticmethod
    def factors(name):
        """A variable name is a monomial: factors joined by a top-level middle dot."""
        out, depth, cur = [], 0, ""
        for ch in name:
            if ch in "([":
                depth += 1
            elif ch in ")]":
                depth -= 1
            if ch == "\u00b7" and depth == 0:
                out.append(cur)
                cur = ""
            else:
                cur += ch
        out.append(cur)
        return out

    @staticmethod
    def apply(fname, *args):
        """An uninterpreted function of symbolic numbers: a fresh symbol named after its (canonical) arguments."""
        name = "%s(%s)" % (fname, ", ".join(repr(a) for a in args))
        OPAQUE[name] = (fname, args)
        return Lin.var(name).as_float()

    def subst(self, mapping):
        """Replace symbols by symbols or numbers (e.g. by the representative of their class of equal values),
        through monomials and uninterpreted applications."""
        import math as _m

        def factor(f):
            if f in mapping:
                r = mapping[f]
                return Lin.var(r) if isinstance(r, str) else Lin.num(r)
            if f in OPAQUE:
                fname, args = OPAQUE[f]
                args = [a.subst(mapping) for a in args]
                if all(a.is_const() for a in args):
                    try:
                        if fname == "inv":
                            return Lin.num(1 / args[0].const)
                        return Lin.num(Fraction(getattr(_m, fname)(*[float(a.const) for a in args])))
                    except (ValueError, ZeroDivisionError, OverflowError):
                        pass
                return Lin.apply(fname, *args)
            return Lin.var(f)
        out = Lin.num(self.const)
        for a, va in self.coef.items():
            term = Lin.num(va)
            for f in Lin.factors(a):
                term = term.times(factor(f))
            out = out + term
        return Lin(out.coef, out.const, None, self.is_float)

    @staticmethod
    def monomial(coef, factors):
        """coef * product(factors) in normal form: a factor and its reciprocal cancel, two equal square roots give
        their argument."""
        res = Lin.num(coef)
        fs = sorted(factors)
        changed = True
        while changed:
            changed = False
            for f in fs:
                info = OPAQUE.get(f)
                if info is None:
                    continue
                fname, args = info
                if fname == "inv" and len(args[0].coef) == 1 and args[0].const == 0 and list(args[0].coef.values())[0] == 1 and list(args[0].coef)[0] in fs:
                    fs.remove(f)
                    fs.remove(list(args[0].coef)[0])
                    changed = True
                    break
                if fname == "sqrt" and fs.count(f) >= 2:
                    fs.remove(f)
                    fs.remove(f)
                    res = res.times(args[0])
                    changed = True
                    break
        if not fs:
            return res
        return res.times(Lin({"\u00b7".join(fs): 1}, 0, None, True)) if not res.is_const() else Lin({"\u00b7".join(fs): res.const}, 0, None, True)

    def times(self, o):
        """Polynomial product: symbols stay uninterpreted, monomials are named canonically (sorted factors), so two
        expressions are `same` exactly when they are equal as polynomials over the symbols."""
        out = Lin.num(self.const * o.const)
        for a, va in self.coef.items():
            if o.const:
                out = out + Lin({a: va * o.const})
            for b, vb in o.coef.items():
                fa, fb = Lin.factors(a), Lin.factors(b)
                if any(f in OPAQUE for f in fa + fb):
                    out = out + Lin.monomial(va * vb, fa + fb)
                else:
                    out = out + Lin({"\u00b7".join(sorted(fa + fb)): va * vb})
        if self.const:
            for b, vb in o.coef.items():
                out = out + Lin({b: vb * self.const})
        return Lin(out.coef, out.const, ("*", self.tree, o.tree), True)

    def over(self, o):
        """Quotient by a symbolic number: multiplication by its (uninterpreted) reciprocal."""
        return self.times(Lin.apply("inv", o))

    def evaluate(self, env):
        """Float value under an assignment of the plain symbols; uninterpreted functions get their real meaning.
        Raises ArithmeticError where that is undefined."""
        import math as _m

        def fac(f):
            if f in env:
                return float(env[f])
            if f in OPAQUE:
                fname, args = OPAQUE[f]
                vs = [a.evaluate(env) for a in args]
                try:
                    if fname == "inv":
                        return 1.0 / vs[0]
                    if fname == "div":
                        return vs[0] / vs[1]
                    return getattr(_m, fname)(*vs)
                except (ValueError, ZeroDivisionError, OverflowError) as ex:
                    raise ArithmeticError(str(ex))
            raise KeyError(f)
        tot = float(self.const)
        for m, c in self.coef.items():
            v = float(c)
            for f in Lin.factors(m):
                v *= fac(f)
            tot += v
        return tot

    def same(self, o):
        return isinstance(o, Lin) and self.key() == o.key()

    def __repr__(self):
        parts = []
        for k in sorted(self.coef):
            v = self.coef[k]
            if v == 1:
                parts.append("+" + k)
            elif v == -1:
                parts.append("-" + k)
            else:
                parts.append("%+g*%s" % (float(v), k))
        if self.const != 0 or not parts:
            parts.append("%+g" % float(self.const))
        s = "".join(parts)
        return s[1:] if s.startswith("+") else s


class MinMax:
    """Unevaluated min/max of linear forms the state cannot order (canonical set)."""

    def __init__(self, op, args):
        self.op = op
        self.args = args  # list of Lin

    def key(self):
        return (self.op, tuple(sorted(a.key() for a in self.args)))

    def __repr__(self):
        return "%s(%s)" % (self.op, ", ".join(map(repr, self.args)))


class Str:
    """Opaque string term.  kind: 'var' (a label atom), 'cat', 'join', 'opaque'."""

    def __init__(self, kind, parts=()):
        self.kind = kind
        self.parts = tuple(parts)

    def key(self):
        return (self.kind,) + tuple(p.key() if hasattr(p, "key") else p for p in self.parts)

    def __repr__(self):
        if self.kind == "var":
            return "<%s>" % self.parts[0]
        if self.kind == "raw":
            return "<raw %s>" % self.parts[0]
        if self.kind == "esc":
            return "esc(%r)" % (self.parts[0],)
        if self.kind == "num":
            return "num(%r)" % (self.parts[0],)
        if self.kind == "trunc":
            return "int(%r)" % (self.parts[0],)
        if self.kind == "cat":
            return "".join(p if isinstance(p, str) else repr(p) for p in self.parts)
        if self.kind == "join":
            sep = self.parts[0]
            return ("%s" % (sep if isinstance(sep, str) else repr(sep))).join(p if isinstance(p, str) else repr(p) for p in self.parts[1:])
        return "<str?>"


def label_var(name):
    return Str("var", (name,))


def raw_label(name):
    """A label that may carry surrounding whitespace (not yet normalised)."""
    return Str("raw", (name,))


def has_raw(v) -> bool:
    if isinstance(v, Str):
        if v.kind == "raw":
            return True
        return any(has_raw(p) for p in v.parts)
    return False


class Tup:
    """tuple / namedtuple value."""

    def __init__(self, items, cls=None):
        self.items = list(items)
        self.cls = cls  # None | 'Interval' | 'Point'

    def __repr__(self):
        return "%s(%s)" % (self.cls or "", ", ".join(map(repr, self.items)))


class Lst:
    def __init__(self, items=()):
        self.items = list(items)

    def __repr__(self):
        return "[%s]" % ", ".join(map(repr, self.items))


class DictView(Lst):
    """dict.keys() / values() / items(): a live view -- it shows the dictionary as it is when looked at."""

    def __init__(self, dv, kind):
        self.dv, self.kind = dv, kind

    @property
    def items(self):
        d = self.dv.d
        if self.kind == "keys":
            return list(d.keys())
        if self.kind == "values":
            return list(d.values())
        return [Tup([k, v]) for k, v in d.items()]

    @items.setter
    def items(self, value):
        raise Undecided("assignment to a dictionary view")


class DictVal:
    def __init__(self, d=None, ordered=False):
        self.d = dict(d or {})

    def __repr__(self):
        return "{%s}" % ", ".join("%r: %r" % kv for kv in self.d.items())


class IterVal:
    """A one-shot iterator (iter(x), a generator expression, zip(...)): items are produced on demand and consumed."""

    def __init__(self, source):
        self.it = iter(source)

    def pull(self):
        """next item or raise StopIteration"""
        return next(self.it)

    def rest(self):
        return list(self.it)

    def __repr__(self):
        return "<iterator>"


class BufVal:
    """Abstract byte buffer: a concatenation of segments (source name, lo, hi) with linear byte offsets.
    'orig' is the receiver's buffer at entry; any other name is a buffer passed in."""

    def __init__(self, segs):
        self.segs = [(s_, lo, hi) for s_, lo, hi in segs]

    def length(self):
        tot = Lin.num(0)
        for _, lo, hi in self.segs:
            tot = tot + (hi - lo)
        return tot

    def __repr__(self):
        return " + ".join("%s[%r:%r]" % x for x in self.segs) or "b''"


class SliceVal:
    def __init__(self, lo, hi, step=None):
        self.lo, self.hi, self.step = lo, hi, step


class LazyGen:
    """A generator function's body run lazily: it executes in its own thread, strictly hand-in-hand with the
    consumer (only one of the two ever runs), and stops at every yield until the next item is asked for.  So an
    endless generator consumed by a loop that breaks behaves as in Python."""

    def __init__(self, body):
        import threading

        self._body = body          # body(emit): runs the function body, calling emit(value) at each yield
        self._resume = threading.Semaphore(0)
        self._ready = threading.Semaphore(0)
        self._box = None
        self._thread = None
        self._done = False

    def _run(self):
        self._resume.acquire()
        try:
            self._body(self._emit)
            self._box = ("done", None)
        except BaseException as e:  # NeedSplit, PyRaise, Undecided ... are re-raised in the consumer
            self._box = ("exc", e)
        self._ready.release()

    def _emit(self, value):
        self._box = ("item", value)
        self._ready.release()
        self._resume.acquire()

    def __iter__(self):
        return self

    def __next__(self):
        import threading

        if self._done:
            raise StopIteration
        if self._thread is None:
            threading.stack_size(256 * 1024 * 1024)
            self._thread = threading.Thread(target=self._run, daemon=True)
            self._thread.start()
        self._resume.release()
        self._ready.acquire()
        kind, v = self._box
        if kind == "item":
            return v
        self._done = True
        if kind == "exc":
            raise v
        raise StopIteration


class _YieldSink:
    """What a generator body's yield writes to."""

    def __init__(self, emit):
        self.emit = emit


class SetVal:
    def __init__(self, items=()):
        self.items = list(items)


class ObjVal:
    def __init__(self, cls: ClassInfo):
        self.cls = cls
        self.attrs: Dict[str, object] = {}

    def __repr__(self):
        return "<%s %s>" % (self.cls.name, {k: v for k, v in self.attrs.items() if k != "errorReporter"})


class FuncVal:
    def __init__(self, fn: FuncInfo = None, self_obj=None, node=None, env=None, module=None, name=None):
        self.fn = fn
        self.self_obj = self_obj
        self.node = node  # Lambda / nested FunctionDef
        self.env = env
        self.module = module
        self.name = name or (fn.short if fn else "<lambda>")


class PyFunc:
    """A caller-supplied callback modelled by a python function (e.g. a label filter)."""

    def __init__(self, fn, name="<callback>"):
        self.fn = fn
        self.name = name


class MockObj:
    """A stand-in for an external object (e.g. a wave.Wave_read): attribute name -> value / PyFunc."""

    def __init__(self, attrs, name="<mock>"):
        self.attrs = attrs
        self.name = name


class ClassVal:
    def __init__(self, cls: ClassInfo):
        self.cls = cls


class ModuleVal:
    def __init__(self, mod: ModuleInfo = None, ext=None):
        self.mod = mod
        self.ext = ext  # name of an external module (math, re, copy, ...)


class Builtin:
    def __init__(self, name, recv=None):
        self.name = name
        self.recv = recv


class ExcVal:
    def __init__(self, name, args=()):
        self.name = name
        self.args = args


class Opaque:
    def __init__(self, why=""):
        self.why = why

    def __repr__(self):
        return "<opaque %s>" % self.why


NONE = None  # python None represents None


class DontCare(Undecided):
    """The outcome depends on something no property constrains (e.g. lexicographic order of two labels)."""


class NeedSplit(Undecided):
    """A comparison whose outcome the abstract state does not fix: the driver refines the state on `lin`."""

    def __init__(self, lin, msg):
        Undecided.__init__(self, msg)
        self.lin = lin


_NOLIB = object()


def _has_payload(text: str) -> bool:
    """Text that carries opaque payload atoms (private-use characters placed by the document encoding)."""
    return any("\ue000" <= ch <= "\uf8ff" for ch in text)



def _own_yield(fnode) -> bool:
    """True if the function itself (not a nested def / lambda / class) contains yield."""
    todo = list(fnode.body) if not isinstance(fnode, ast.Lambda) else []
    while todo:
        n = todo.pop()
        if isinstance(n, (ast.Yield, ast.YieldFrom)):
            return True
        if isinstance(n, (ast.FunctionDef, ast.AsyncFunctionDef, ast.Lambda, ast.ClassDef)):
            continue
        todo.extend(ast.iter_child_nodes(n))
    return False

def _declared_nonlocal(fn_node):
    """names a nested def declares `nonlocal` (in its own body, not in defs nested deeper)"""
    out, todo = set(), list(fn_node.body)
    while todo:
        n = todo.pop()
        if isinstance(n, ast.Nonlocal):
            out.update(n.names)
        if isinstance(n, (ast.FunctionDef, ast.AsyncFunctionDef, ast.Lambda, ast.ClassDef)):
            continue
        todo.extend(ast.iter_child_nodes(n))
    return out


_PURE_STR_METHODS = {
    "capitalize", "casefold", "center", "count", "endswith", "expandtabs", "find", "index", "isalnum", "isalpha", "isascii", "isdecimal", "isdigit",
    "isidentifier", "islower", "isnumeric", "isprintable", "isspace", "istitle", "isupper", "ljust", "lower", "lstrip", "partition", "removeprefix",
    "removesuffix", "replace", "rfind", "rindex", "rjust", "rpartition", "rsplit", "rstrip", "split", "splitlines", "startswith", "strip", "swapcase",
    "title", "upper", "zfill",
}


class PyRaise(Exception):
    def __init__(self, name, node=None):
        Exception.__init__(self, name)
        self.name = name
        self.node = node


class _Return(Exception):
    def __init__(self, value):
        self.value = value


class _Break(Exception):
    pass


class _Continue(Exception):
    pass


BUILTIN_EXC_PARENTS = {
    "KeyError": "LookupError", "IndexError": "LookupError", "LookupError": "Exception", "ValueError": "Exception",
    "TypeError": "Exception", "Exception": "BaseException", "NotImplementedError": "RuntimeError",
    "RuntimeError": "Exception", "UnicodeError": "ValueError", "AttributeError": "Exception", "StopIteration": "Exception",
    "ZeroDivisionError": "ArithmeticError", "ArithmeticError": "Exception", "JSONDecodeError": "ValueError",
    "UnicodeDecodeError": "UnicodeError", "OverflowError": "ArithmeticError",
}

# --------------------------------------------------------------------------- abstract state


class State:
    """A weak order over declared atoms (name -> Lin).  rank[i] < rank[j]  <=>  atom_i < atom_j."""

    def __init__(self, atoms: List[Tuple[str, Lin]], ranks: List[int], side=()):
        self.atoms = atoms
        self.ranks = ranks
        self.side = list(side)  # extra linear facts [(lin, strict)]: lin < 0 / lin <= 0
        self._pairs = {}
        self._memo2 = {}
        self._memo_signs = {}
        self._cons = None
        for i, (_, a) in enumerate(atoms):
            for j, (_, b) in enumerate(atoms):
                if i == j:
                    continue
                d = a - b
                k, scale = _direction(d)
                if k is not None and k not in self._pairs:
                    self._pairs[k] = (i, j, scale)

    def signs(self, d: Lin) -> frozenset:
        """The set of signs (-1, 0, 1) the linear form can take under this state (exact, Fourier-Motzkin)."""
        if any(("\u00b7" in k or k in OPAQUE) for k in d.coef):
            return self._nonlinear_signs(d)
        s = self._pair_sign(d)
        if s is not None:
            return frozenset([s])
        key = d.key()
        if key in self._memo_signs:
            return self._memo_signs[key]
        if self._cons is None:
            cons, eqs = order_constraints(self.atoms, self.ranks)
            self._cons = (cons + self.side, eqs)
        cons, eqs = self._cons
        out = set()
        if fm_feasible(cons + [(d, True)], eqs):
            out.add(-1)
        if fm_feasible(cons, eqs + [d]):
            out.add(0)
        if fm_feasible(cons + [(d.neg(), True)], eqs):
            out.add(1)
        res = frozenset(out)
        self._memo_signs[key] = res
        return res

    def linear(self, d: Lin):
        """-> (linear form, +1/-1) with sign(d) = sign(form) * factor.  A form with reciprocals of expressions of known
        sign is multiplied through by them (exact algebra: a monomial holding 1/t loses that factor, every other
        monomial gains t).  Anything still non-linear after that is not compared at all: treating a product or a root
        as a free variable could put a spurious case on the table."""
        flip = 1
        for _ in range(8):
            invs = sorted({f for k in d.coef for f in Lin.factors(k) if f in OPAQUE and OPAQUE[f][0] == "inv"})
            if not invs:
                break
            f = invs[0]
            arg = OPAQUE[f][1][0]
            sg = self.signs(arg)
            if sg == frozenset([0]):
                raise Undecided("comparison involving 1/0")
            if len(sg) != 1:
                raise NeedSplit(self.linear(arg)[0], "sign of the divisor %r" % (arg,))
            flip *= next(iter(sg))
            out = Lin.num(d.const).times(arg)
            for k, c in d.coef.items():
                fs = Lin.factors(k)
                if f in fs:
                    fs.remove(f)
                    out = out + (Lin.monomial(c, fs) if fs else Lin.num(c))
                else:
                    out = out + Lin({k: c}).times(arg)
            d = out
        if any(("\u00b7" in k or k in OPAQUE) for k in d.coef):
            raise Undecided("comparison of the non-linear expression %r" % (d,))
        return d, flip

    def _nonlinear_signs(self, d: Lin) -> frozenset:
        d, flip = self.linear(d)
        return frozenset(x * flip for x in self.signs(d))

    def sign(self, d: Lin) -> Optional[int]:
        """sign of a linear form under this state, or None if not decided."""
        ss = self.signs(d)
        if len(ss) == 1:
            return next(iter(ss))
        return None

    def sign_old(self, d: Lin) -> Optional[int]:
        if d.is_const():
            return (d.const > 0) - (d.const < 0)
        s = self._pair_sign(d)
        if s is not None:
            return s
        # d = (atom_i - atom_j) + rest, rest again an atom difference (or constant): same signs add up
        key = d.key()
        if key in self._memo2:
            return self._memo2[key]
        res = None
        n = len(self.atoms)
        for i in range(n):
            for j in range(n):
                if i == j:
                    continue
                p = self.atoms[i][1] - self.atoms[j][1]
                rest = d - p
                if len(rest.coef) > 2:
                    continue
                s2 = self._pair_sign(rest) if not rest.is_const() else ((rest.const > 0) - (rest.const < 0))
                if s2 is None:
                    continue
                s1 = (self.ranks[i] > self.ranks[j]) - (self.ranks[i] < self.ranks[j])
                if s1 == 0:
                    res = s2
                elif s2 == 0 or s2 == s1:
                    res = s1
                else:
                    continue
                break
            if res is not None:
                break
        self._memo2[key] = res
        return res

    def _pair_sign(self, d: Lin) -> Optional[int]:
        if d.is_const():
            return (d.const > 0) - (d.const < 0)
        k, scale = _direction(d)
        hit = self._pairs.get(k)
        if hit is None:
            return None
        i, j, s0 = hit
        base = (self.ranks[i] > self.ranks[j]) - (self.ranks[i] < self.ranks[j])
        # d = (scale/s0) * (atom_i - atom_j)
        f = scale / s0
        return base if f > 0 else -base

    def describe(self) -> str:
        groups: Dict[int, List[str]] = {}
        for (n, _), r in zip(self.atoms, self.ranks):
            groups.setdefault(r, []).append(n)
        return " < ".join(" = ".join(groups[r]) for r in sorted(groups))


def _direction(d: Lin):
    """Normalise a non-constant linear form to (direction key, positive/negative scale)."""
    items = sorted(d.coef.items())
    if not items:
        return None, None
    lead = items[0][1]
    key = (tuple((k, v / lead) for k, v in items), d.const / lead)
    return key, lead


def weak_orders(n: int, constraints=()):
    """All rank vectors (weak orders) of n items; constraints = [(i, op, j)] with op in '<','<=','==','!='."""
    cons = list(constraints)

    def ok(ranks, upto):
        for i, op, j in cons:
            if i < upto and j < upto:
                a, b = ranks[i], ranks[j]
                if op == "<" and not a < b:
                    return False
                if op == "<=" and not a <= b:
                    return False
                if op == "==" and not a == b:
                    return False
                if op == "!=" and not a != b:
                    return False
        return True

    # generate by inserting items one at a time into an ordered list of groups
    def rec(groups, k):
        if k == n:
            ranks = [0] * n
            for r, g in enumerate(groups):
                for i in g:
                    ranks[i] = r
            yield ranks
            return
        # place item k into an existing group or a new group at any position
        for pos in range(len(groups)):
            ng = [list(g) for g in groups]
            ng[pos].append(k)
            if _partial_ok(ng, k + 1, cons):
                yield from rec(ng, k + 1)
        for pos in range(len(groups) + 1):
            ng = [list(g) for g in groups]
            ng.insert(pos, [k])
            if _partial_ok(ng, k + 1, cons):
                yield from rec(ng, k + 1)

    yield from rec([], 0)


def _partial_ok(groups, upto, cons):
    rank = {}
    for r, g in enumerate(groups):
        for i in g:
            rank[i] = r
    for i, op, j in cons:
        if i in rank and j in rank:
            a, b = rank[i], rank[j]
            if op == "<" and not a < b:
                return False
            if op == "<=" and not a <= b:
                return False
            if op == "==" and a != b:
                return False
            if op == "!=" and a == b:
                return False
    return True


def order_constraints(atoms: List[Tuple[str, Lin]], ranks: List[int]):
    """The weak order as linear constraints: (ineqs [(lin, strict)] meaning lin < 0 / lin <= 0, eqs [lin == 0])."""
    cons, eqs = [], []
    order = sorted(range(len(atoms)), key=lambda i: ranks[i])
    for a, b in zip(order, order[1:]):
        d = atoms[a][1] - atoms[b][1]
        if ranks[a] == ranks[b]:
            eqs.append(d)
        else:
            cons.append((d, True))
    return cons, eqs


def fm_feasible(cons, eqs) -> bool:
    """Exact feasibility over Q of  {lin < 0 | lin <= 0} and {lin == 0}  by substitution + Fourier-Motzkin."""
    cons = list(cons)
    eqs = list(eqs)
    while eqs:
        e = eqs.pop()
        if e.is_const():
            if e.const != 0:
                return False
            continue
        v = sorted(e.coef)[0]
        c = e.coef[v]
        rest = Lin({k: x for k, x in e.coef.items() if k != v}, e.const).scale(Fraction(-1) / c)

        def sub(l, v=v, rest=rest):
            if v not in l.coef:
                return l
            f = l.coef[v]
            base = Lin({k: x for k, x in l.coef.items() if k != v}, l.const)
            return base + rest.scale(f)

        eqs = [sub(x) for x in eqs]
        cons = [(sub(l), st) for l, st in cons]
    # constant constraints
    live = []
    for l, st in cons:
        if l.is_const():
            if (st and not l.const < 0) or (not st and not l.const <= 0):
                return False
        else:
            live.append((l, st))
    cons = live
    while cons:
        # eliminate the variable with the fewest pos*neg combinations
        counts = {}
        for l, _ in cons:
            for v, c in l.coef.items():
                p, n = counts.get(v, (0, 0))
                counts[v] = (p + (c > 0), n + (c < 0))
        v = min(counts, key=lambda x: counts[x][0] * counts[x][1])
        pos = [(l, st) for l, st in cons if l.coef.get(v, 0) > 0]
        neg = [(l, st) for l, st in cons if l.coef.get(v, 0) < 0]
        rest = [(l, st) for l, st in cons if l.coef.get(v, 0) == 0]
        seen = set()
        for lp, sp in pos:
            a = lp.scale(Fraction(1) / lp.coef[v])
            for ln, sn in neg:
                b = ln.scale(Fraction(-1) / ln.coef[v])
                c = a + b
                st = sp or sn
                if c.is_const():
                    if (st and not c.const < 0) or (not st and not c.const <= 0):
                        return False
                    continue
                k = (c.key(), st)
                if k not in seen:
                    seen.add(k)
                    rest.append((c, st))
        cons = rest
        if len(cons) > 3000:
            return True  # give up pruning (sound: keeps the state)
    return True


def feasible(atoms: List[Tuple[str, Lin]], ranks: List[int], side=()) -> bool:
    cons, eqs = order_constraints(atoms, ranks)
    return fm_feasible(cons + list(side), eqs)


# --------------------------------------------------------------------------- interpreter


class Interp:
    MAX_STEPS = 200000

    def __init__(self, idx: Index, state: State, overrides=None):
        self.idx = idx
        self.state = state
        self.overrides = overrides or {}
        self.steps = 0
        self.prints = 0
        self.trace_calls: List[str] = []
        self.call_depth = 0
        self._nt_fields: Dict[str, List[str]] = {}

    # ---- order oracle -------------------------------------------------------
    def sign(self, a, b=None, node=None) -> int:
        d = a if b is None else (a - b)
        s = self.state.sign(d)
        if s is None:
            raise NeedSplit(self.state.linear(d)[0], "comparison of %r with 0 is not decided by the declared atoms%s" % (d, (" at " + norm(node)[:60]) if node is not None else ""))
        return s

    def num(self, v, node=None) -> Lin:
        if isinstance(v, Lin):
            return v
        if isinstance(v, MinMax):
            # the value is needed exactly: refine the state until the min/max is determined
            raise NeedSplit(v.args[0] - v.args[1], "%r is used in a computation/comparison" % (v,))
        if isinstance(v, bool):
            return Lin.num(1 if v else 0)  # True == 1, False == 0
        if isinstance(v, (int, float, Fraction)):
            return Lin.num(Fraction(v).limit_denominator(10 ** 12) if isinstance(v, float) else v)
        if v is None or isinstance(v, (str, Str, Lst, Tup, DictVal, SetVal)):
            raise PyRaise("TypeError", node)  # arithmetic / ordering on something that is certainly not a number
        raise Undecided("numeric value expected, got %r%s" % (v, (" at " + norm(node)[:60]) if node is not None else ""))

    def compare(self, op, a, b, node=None) -> bool:
        if isinstance(op, (ast.Is, ast.IsNot)):
            r = self._identical(a, b)
            return r if isinstance(op, ast.Is) else not r
        if isinstance(op, (ast.In, ast.NotIn)):
            r = self._contains(b, a, node)
            return r if isinstance(op, ast.In) else not r
        if isinstance(op, (ast.Eq, ast.NotEq)):
            r = self.equal(a, b, node)
            return r if isinstance(op, ast.Eq) else not r
        # ordering
        if isinstance(a, MinMax) or isinstance(b, MinMax):
            self.num(a if isinstance(a, MinMax) else b)
        if isinstance(a, (Lin, int, float, Fraction)) and isinstance(b, (Lin, int, float, Fraction)) and not isinstance(a, bool) and not isinstance(b, bool):
            ss = self.state.signs(self.num(a) - self.num(b))
            truths = {{ast.Lt: s < 0, ast.LtE: s <= 0, ast.Gt: s > 0, ast.GtE: s >= 0}[type(op)] for s in ss}
            if len(truths) != 1:
                raise NeedSplit(self.state.linear(self.num(a) - self.num(b))[0], "comparison %s of %r and %r is not decided by the abstract state%s" % (type(op).__name__, a, b, (" at " + norm(node)[:60]) if node is not None else ""))
            res = truths.pop()
            # path fact for the float-order prover: the program itself evaluated this comparison (on floats) and went this way
            ta, tb = getattr(a, "tree", None), getattr(b, "tree", None)
            # (not inside a constructor / validator: their comparisons ARE the obligations the prover has to discharge)
            if ta is not None and tb is not None and not any(f in ("__init__", "validate", "sort") for f in self.__dict__.get("frames", ())):
                facts = self.__dict__.setdefault("path_facts", [])
                le_ab = (isinstance(op, (ast.Lt, ast.LtE)) and res) or (isinstance(op, (ast.Gt, ast.GtE)) and not res)
                if len(facts) < 400:
                    facts.append((ta, tb) if le_ab else (tb, ta))
                    # strict version: `a < b` found true, or `a >= b` found false, ... (fl(p) < fl(q) holds on this path)
                    strict = (isinstance(op, ast.Lt) and res) or (isinstance(op, ast.GtE) and not res) or (isinstance(op, ast.Gt) and res) or (isinstance(op, ast.LtE) and not res)
                    if strict:
                        self.__dict__.setdefault("strict_facts", []).append((ta, tb) if le_ab else (tb, ta))
            return res
        if isinstance(a, Tup) and isinstance(b, Tup):
            c = self.tuple_cmp(a, b, node)
            return {ast.Lt: c < 0, ast.LtE: c <= 0, ast.Gt: c > 0, ast.GtE: c >= 0}[type(op)]
        if isinstance(a, str) and isinstance(b, str):
            return {ast.Lt: a < b, ast.LtE: a <= b, ast.Gt: a > b, ast.GtE: a >= b}[type(op)]
        raise Undecided("ordering comparison of %r and %r" % (a, b))

    def tuple_cmp(self, a: Tup, b: Tup, node=None) -> int:
        for x, y in zip(a.items, b.items):
            if isinstance(x, (Lin, int, float)) and isinstance(y, (Lin, int, float)):
                s = self.sign(self.num(x), self.num(y), node)
                if s != 0:
                    return s
                continue
            if self.equal(x, y, node):
                continue
            if isinstance(x, str) and isinstance(y, str):
                return -1 if x < y else 1
            raise DontCare("lexicographic comparison reaches labels %r / %r" % (x, y))
        return (len(a.items) > len(b.items)) - (len(a.items) < len(b.items))

    def _identical(self, a, b):
        if a is None or b is None or isinstance(a, bool) or isinstance(b, bool):
            return a is b
        if isinstance(a, ClassVal) and isinstance(b, ClassVal):
            return a.cls is b.cls  # a class is one object however often it is looked up
        if isinstance(a, Builtin) and isinstance(b, Builtin) and a.recv is None and b.recv is None:
            return a.name == b.name
        return a is b

    def equal(self, a, b, node=None) -> bool:
        if a is None or b is None:
            return a is b
        if isinstance(a, bool) and isinstance(b, bool):
            return a == b
        if isinstance(a, bool) or isinstance(b, bool):
            o = b if isinstance(a, bool) else a
            if isinstance(o, (Lin, int, float, Fraction)):
                a, b = self.num(a), self.num(b)  # True == 1, False == 0
            else:
                return False
        if isinstance(a, MinMax) or isinstance(b, MinMax):
            self.num(a if isinstance(a, MinMax) else b)
        if isinstance(a, (Lin, int, float, Fraction)) and isinstance(b, (Lin, int, float, Fraction)):
            ss = self.state.signs(self.num(a) - self.num(b))
            if ss == frozenset([0]):
                return True
            if 0 not in ss:
                return False
            raise NeedSplit(self.state.linear(self.num(a) - self.num(b))[0], "equality of %r and %r is not decided by the abstract state" % (a, b))
        if isinstance(a, str) and isinstance(b, str):
            return a == b
        if isinstance(a, Str) or isinstance(b, Str):
            if isinstance(a, Str) and isinstance(b, Str):
                if a.key() == b.key():
                    return True
                if a.kind == "var" and b.kind == "var":
                    return False  # generic labels are pairwise distinct (stated assumption)
                return False
            s, o = (a, b) if isinstance(a, Str) else (b, a)
            if isinstance(o, str):
                if s.kind == "var":
                    if o == "":
                        return False  # generic labels are non-empty (stated assumption)
                    return False
                if s.kind in ("cat", "join") and o == "":
                    return False
            return False
        if isinstance(a, SetVal) and isinstance(b, SetVal):
            return len(a.items) == len(b.items) and all(any(self.equal(x, y, node) for y in b.items) for x in a.items)
        if isinstance(a, DictVal) and isinstance(b, DictVal):
            if len(a.d) != len(b.d):
                return False
            for k, v in a.d.items():
                hit = [k2 for k2 in b.d if self.equal(k, k2, node)]
                if not hit or not self.equal(v, b.d[hit[0]], node):
                    return False
            return True
        if isinstance(a, Tup) and a.cls in ("Interval", "Point") and not getattr(self, "_in_nt_eq", False):
            # the repository's own Interval.__eq__ / Point.__eq__ (constants.py), interpreted
            ci = self.idx.classes.get(a.cls)
            m = ci.lookup("__eq__") if ci is not None else None
            if m is not None:
                self._in_nt_eq = True
                try:
                    return self.truth(self.call_function(m, [a, b], {}))
                finally:
                    self._in_nt_eq = False
        if isinstance(a, Tup) and isinstance(b, Tup):
            if a.cls != b.cls and (a.cls in ("Interval", "Point") and b.cls in ("Interval", "Point")):
                return False
            if a.cls in ("Interval", "Point") and b.cls is None or b.cls in ("Interval", "Point") and a.cls is None:
                # namedtuple.__eq__ in constants.py returns False for a non-Interval/Point operand
                return False
            if len(a.items) != len(b.items):
                return False
            return all(self.equal(x, y, node) for x, y in zip(a.items, b.items))
        if isinstance(a, Lst) and isinstance(b, Lst):
            return len(a.items) == len(b.items) and all(self.equal(x, y, node) for x, y in zip(a.items, b.items))
        if isinstance(a, (Lst, Tup)) != isinstance(b, (Lst, Tup)) or type(a) != type(b):
            if isinstance(a, ObjVal) or isinstance(b, ObjVal):
                pass
            else:
                return False
        if isinstance(a, ObjVal) and not isinstance(b, ObjVal) and a.cls.lookup("__eq__") is None:
            return False
        if isinstance(a, ObjVal):
            m = a.cls.lookup("__eq__")
            if m is not None:
                return self.truth(self.call_function(m, [a, b], {}))
            return a is b
        if isinstance(a, ClassVal) and isinstance(b, ClassVal):
            return a.cls is b.cls
        if isinstance(a, Builtin) and isinstance(b, Builtin):
            return a.name == b.name and a.recv is b.recv
        return a is b

    def _contains(self, container, item, node=None) -> bool:
        if isinstance(container, (Lst, Tup, SetVal)):
            return any(self.equal(x, item, node) for x in container.items)
        if isinstance(container, DictVal):
            return any(self.equal(k, item, node) for k in container.d)
        if isinstance(container, str) and isinstance(item, str) and _has_payload(container):
            self.__dict__.setdefault("scan_log", []).append(("in", item, (self.__dict__.get("frames") or ["?"])[-1]))
        if isinstance(container, str) and isinstance(item, str):
            return item in container
        if isinstance(container, Str) or isinstance(item, Str):
            raise Undecided("substring test on a symbolic label")
        if isinstance(container, ObjVal):
            m = container.cls.lookup("__contains__")
            if m is not None:
                return self.truth(self.call_function(m, [container, item], {}))
            m = container.cls.lookup("__iter__")
            if m is not None:
                return any(self.equal(x, item, node) for x in self.iterate(container))
        if isinstance(container, IterVal):
            return any(self.equal(x, item, node) for x in self._lazy(container))  # consumes the iterator up to the hit
        raise Undecided("'in' on %r" % (container,))

    def truth(self, v, node=None) -> bool:
        if v is None or isinstance(v, bool):
            return bool(v)
        if isinstance(v, (int, float, str)):
            return bool(v)
        if isinstance(v, Lin):
            return self.sign(v, None, node) != 0
        if isinstance(v, (Lst, Tup, SetVal)):
            return len(v.items) > 0
        if isinstance(v, DictVal):
            return len(v.d) > 0
        if isinstance(v, Str):
            if v.kind == "var":
                return True
            raise Undecided("truth value of a symbolic string")
        if isinstance(v, ObjVal):
            m = v.cls.lookup("__bool__")
            if m is not None:
                return self.truth(self.call_function(m, [v], {}))
            m = v.cls.lookup("__len__")
            if m is not None:
                return self.truth(self.call_function(m, [v], {}))  # an object with __len__ is false when empty
            return True
        if isinstance(v, (FuncVal, ClassVal, ModuleVal, Builtin, PyFunc, MockObj, IterVal)):
            return True
        raise Undecided("truth value of %r" % (v,))

    # ---- calling ---------------------------------------------------------------
    def call_function(self, fn: FuncInfo, args: List, kwargs: Dict, closure_env=None):
        ov = self.overrides.get(fn.qual) or self.overrides.get(fn.short)
        if ov is not None:
            return ov(self, args, kwargs)
        self.call_depth += 1
        if self.call_depth > 40:
            raise Undecided("call depth exceeded")
        frames = self.__dict__.setdefault("frames", [])
        frames.append(fn.name)
        try:
            env = dict(closure_env or {})
            env["__fn__"] = fn
            params = fn.all_params
            node = fn.node
            a = node.args
            for i, v in enumerate(args):
                if i < len(params):
                    env[params[i]] = v
                elif a.vararg:
                    env.setdefault(a.vararg.arg, Tup([]))
                    env[a.vararg.arg].items.append(v)
                else:
                    raise PyRaise("TypeError")
            for k, v in kwargs.items():
                if k in params or k in fn.kwonly:
                    if k in env and k in params[: len(args)]:
                        raise PyRaise("TypeError")
                    env[k] = v
                else:
                    raise PyRaise("TypeError")
            for p in params + fn.kwonly:
                if p not in env:
                    if p in fn.defaults:
                        # a default is evaluated once, when the function is defined: a mutable default is shared
                        dc = self.__dict__.setdefault("_default_values", {})
                        if (fn.qual, p) not in dc:
                            dc[(fn.qual, p)] = self.eval(fn.defaults[p], {"__fn__": fn})
                        env[p] = dc[(fn.qual, p)]
                    else:
                        raise PyRaise("TypeError")
            self.trace_calls.append(fn.short)
            is_gen = _own_yield(node)
            if is_gen:
                return IterVal(self._lazy_generator(node.body, env))
            try:
                self.exec_block(node.body, env)
            except _Return as r:
                return r.value
            return None
        finally:
            self.call_depth -= 1
            frames.pop()

    def call_value(self, f, args, kwargs, node=None):
        if isinstance(f, FuncVal):
            if f.fn is not None:
                a = ([f.self_obj] + list(args)) if f.self_obj is not None else list(args)
                return self.call_function(f.fn, a, kwargs)
            # lambda / nested def
            n = f.node
            env = dict(f.env)
            a = n.args
            params = [x.arg for x in list(getattr(a, "posonlyargs", [])) + list(a.args)]
            kwonly = [x.arg for x in a.kwonlyargs]
            bound = set()
            extra = []
            for i, v in enumerate(args):
                if i < len(params):
                    env[params[i]] = v
                    bound.add(params[i])
                elif a.vararg is not None:
                    extra.append(v)
                else:
                    raise PyRaise("TypeError")
            if a.vararg is not None:
                env[a.vararg.arg] = Tup(extra)
            extra_kw = {}
            for k, v in kwargs.items():
                if k in params or k in kwonly:
                    if k in bound:
                        raise PyRaise("TypeError")
                    env[k] = v
                    bound.add(k)
                elif a.kwarg is not None:
                    extra_kw[k] = v
                else:
                    raise PyRaise("TypeError")
            if a.kwarg is not None:
                dv = DictVal()
                dv.d = extra_kw
                env[a.kwarg.arg] = dv
            defaults = a.defaults
            dvals = f.__dict__.setdefault("default_values", {})  # evaluated once per function object (at first use)
            for p, d in zip(params[len(params) - len(defaults):], defaults):
                if p not in bound:
                    if p not in dvals:
                        dvals[p] = self.eval(d, f.env)
                    env[p] = dvals[p]
                    bound.add(p)
            for p, d in zip(kwonly, a.kw_defaults):
                if p not in bound and d is not None:
                    if p not in dvals:
                        dvals[p] = self.eval(d, f.env)
                    env[p] = dvals[p]
                    bound.add(p)
            if any(p not in bound for p in params + kwonly):
                raise PyRaise("TypeError")
            if isinstance(n, ast.Lambda):
                return self.eval(n.body, env)
            if _own_yield(n):
                return IterVal(self._lazy_generator(n.body, env))
            outer = _declared_nonlocal(n)
            try:
                self.exec_block(n.body, env)
            except _Return as r:
                return r.value
            finally:
                # `nonlocal x`: assignments made by the nested function are the enclosing function's
                for nm in outer:
                    if nm in env:
                        f.env[nm] = env[nm]
            return None
        if isinstance(f, ClassVal):
            return self.instantiate(f.cls, args, kwargs, node)
        if isinstance(f, PyFunc):
            return f.fn(self, *args, **kwargs)
        if isinstance(f, Builtin):
            return self.call_builtin(f, args, kwargs, node)
        raise Undecided("call of %r%s" % (f, (" at " + norm(node)[:60]) if node is not None else ""))

    def namedtuple_fields(self, cls: ClassInfo) -> Optional[List[str]]:
        if cls.name in self._nt_fields:
            return self._nt_fields[cls.name]
        out = None
        for b in cls.node.bases:
            if isinstance(b, ast.Call) and norm(b.func).endswith("namedtuple") and len(b.args) == 2:
                try:
                    out = list(ast.literal_eval(b.args[1]))
                except Exception:
                    out = None
        self._nt_fields[cls.name] = out
        return out

    def instantiate(self, cls: ClassInfo, args, kwargs, node=None):
        fields = self.namedtuple_fields(cls)
        if fields is not None:
            items = list(args)
            for f in fields[len(items):]:
                if f in kwargs:
                    items.append(kwargs[f])
            if len(items) != len(fields):
                raise PyRaise("TypeError")
            return Tup(items, cls.name)
        if any(norm(b).split(".")[-1] in ("Exception", "BaseException") or b.split(".")[-1].endswith(("Error", "Exception")) for b in cls.base_exprs) or cls.module.last == "errors":
            return ExcVal(cls.name, args)
        if cls.is_abstract():
            raise PyRaise("TypeError")
        obj = ObjVal(cls)
        init = cls.lookup("__init__")
        if init is not None:
            self.call_function(init, [obj] + list(args), kwargs)
        return obj

    # ---- statements ------------------------------------------------------------
    def exec_block(self, stmts, env):
        for s in stmts:
            self.exec_stmt(s, env)

    def tick(self):
        self.steps += 1
        if self.steps > self.MAX_STEPS:
            raise Undecided("step limit exceeded (non-terminating loop under this abstract state?)")

    def exec_stmt(self, s, env):
        self.tick()
        if isinstance(s, ast.Expr):
            if isinstance(s.value, ast.Constant):
                return
            self.eval(s.value, env)
            return
        if isinstance(s, ast.Assign):
            v = self.eval(s.value, env)
            for t in s.targets:
                self.assign(t, v, env)
            return
        if isinstance(s, ast.AnnAssign):
            if s.value is not None:
                self.assign(s.target, self.eval(s.value, env), env)
            return
        if isinstance(s, ast.AugAssign):
            cur = self.eval(_load(s.target), env)
            v = self.eval(s.value, env)
            if isinstance(cur, Lst) and isinstance(s.op, ast.Add):
                cur.items.extend(self.iterate(v))
                return
            self.assign(s.target, self.binop(s.op, cur, v, s), env)
            return
        if isinstance(s, ast.Return):
            raise _Return(self.eval(s.value, env) if s.value is not None else None)
        if isinstance(s, ast.If):
            if self.truth(self.eval(s.test, env), s.test):
                self.exec_block(s.body, env)
            else:
                self.exec_block(s.orelse, env)
            return
        if isinstance(s, ast.For):
            itv = self.eval(s.iter, env)
            one_shot = itv if isinstance(itv, IterVal) else None
            items = [] if one_shot else self.iterate(itv, live=True)
            broke = False
            i = 0
            while True:
                if one_shot is not None:
                    try:
                        cur = one_shot.pull()
                    except StopIteration:
                        break
                else:
                    if i >= len(items):
                        break
                    cur = items[i]
                self.tick()
                self.assign(s.target, cur, env)
                i += 1
                try:
                    self.exec_block(s.body, env)
                except _Continue:
                    continue
                except _Break:
                    broke = True
                    break
            if not broke:
                self.exec_block(s.orelse, env)
            return
        if isinstance(s, ast.While):
            broke = False
            while self.truth(self.eval(s.test, env), s.test):
                self.tick()
                try:
                    self.exec_block(s.body, env)
                except _Continue:
                    continue
                except _Break:
                    broke = True
                    break
            if not broke:
                self.exec_block(s.orelse, env)
            return
        if isinstance(s, ast.Raise):
            if s.exc is None:
                cur = env.get("__exc__")
                if cur is None:
                    raise PyRaise("RuntimeError", s)
                raise cur
            v = self.eval(s.exc, env)
            if isinstance(v, ExcVal):
                raise PyRaise(v.name, s)
            if isinstance(v, ClassVal):
                raise PyRaise(v.cls.name, s)
            if isinstance(v, Builtin):
                raise PyRaise(v.name, s)
            raise Undecided("raise of %r" % (v,))
        if isinstance(s, ast.Try):
            # the finally block runs on every Python-level exit of the statement: normal completion, an exception
            # (handled or not), return, break, continue -- but not when the analysis itself gives up or asks for a split
            try:
                try:
                    self.exec_block(s.body, env)
                except PyRaise as e:
                    for h in s.handlers:
                        if self.handler_matches(h, e.name, env):
                            if h.name:
                                env[h.name] = ExcVal(e.name)
                            old = env.get("__exc__")
                            env["__exc__"] = e
                            try:
                                self.exec_block(h.body, env)
                            finally:
                                env["__exc__"] = old
                            break
                    else:
                        raise
                else:
                    self.exec_block(s.orelse, env)
            except (PyRaise, _Return, _Break, _Continue):
                if s.finalbody:
                    self.exec_block(s.finalbody, env)
                raise
            if s.finalbody:
                self.exec_block(s.finalbody, env)
            return
        if isinstance(s, ast.With):
            for item in s.items:
                v = self.eval(item.context_expr, env)
                if item.optional_vars is not None:
                    self.assign(item.optional_vars, v, env)
            self.exec_block(s.body, env)
            return
        if isinstance(s, ast.Pass):
            return
        if isinstance(s, ast.Break):
            raise _Break()
        if isinstance(s, ast.Continue):
            raise _Continue()
        if isinstance(s, (ast.FunctionDef,)):
            fv = FuncVal(node=s, env=env, name=s.name)
            a_ = s.args
            pos_ = [x.arg for x in list(getattr(a_, "posonlyargs", [])) + list(a_.args)]
            fv.default_values = {}
            for p_, d_ in zip(pos_[len(pos_) - len(a_.defaults):], a_.defaults):
                fv.default_values[p_] = self.eval(d_, env)  # at definition time, as Python does
            for p_, d_ in zip([x.arg for x in a_.kwonlyargs], a_.kw_defaults):
                if d_ is not None:
                    fv.default_values[p_] = self.eval(d_, env)
            env[s.name] = fv
            return
        if isinstance(s, ast.Assert):
            if not self.truth(self.eval(s.test, env)):
                raise PyRaise("AssertionError", s)
            return
        if isinstance(s, ast.Delete):
            for t in s.targets:
                if isinstance(t, ast.Subscript):
                    base = self.eval(t.value, env)
                    if isinstance(t.slice, ast.Slice) and isinstance(base, Lst):
                        lo = self.index(self.eval(t.slice.lower, env)) if t.slice.lower is not None else None
                        hi = self.index(self.eval(t.slice.upper, env)) if t.slice.upper is not None else None
                        del base.items[lo:hi]
                        continue
                    k = self.eval(t.slice, env)
                    if isinstance(base, Lst):
                        del base.items[self.index(k)]
                        continue
                    if isinstance(base, DictVal):
                        del base.d[self.dict_key(base, k)]
                        continue
                raise Undecided("del %s" % norm(t))
            return
        if isinstance(s, (ast.Import, ast.ImportFrom, ast.Global, ast.Nonlocal)):
            return
        raise Undecided("statement form %s" % type(s).__name__)

    def handler_matches(self, h: ast.ExceptHandler, name: str, env) -> bool:
        if h.type is None:
            return True
        types = h.type.elts if isinstance(h.type, ast.Tuple) else [h.type]
        anc = self.exc_ancestors(name)
        for t in types:
            if norm(t).split(".")[-1] in anc:
                return True
        return False

    def exc_ancestors(self, name):
        out, cur = set(), name
        errs = None
        try:
            errs = self.idx.module("utilities.errors")
        except Exception:
            pass
        todo = [name]
        while todo:
            n = todo.pop()
            if n in out:
                continue
            out.add(n)
            if errs and n in errs.classes:
                todo.extend(b.split(".")[-1] for b in errs.classes[n].base_exprs)
            elif n in self.idx.classes:  # an exception class defined in any other module of the package
                todo.extend(b.split(".")[-1] for b in self.idx.classes[n].base_exprs)
            elif n in BUILTIN_EXC_PARENTS:
                todo.append(BUILTIN_EXC_PARENTS[n])
            elif n != "BaseException":
                todo.append("Exception")
        return out

    def assign(self, t, v, env):
        if isinstance(t, ast.Name):
            env[t.id] = v
            return
        if isinstance(t, (ast.Tuple, ast.List)):
            items = self.iterate(v)
            star = [i for i, e in enumerate(t.elts) if isinstance(e, ast.Starred)]
            if star:
                if len(star) > 1:
                    raise Undecided("two starred assignment targets")
                k = star[0]
                after = len(t.elts) - k - 1
                if len(items) < len(t.elts) - 1:
                    raise PyRaise("ValueError")
                for e, x in zip(t.elts[:k], items[:k]):
                    self.assign(e, x, env)
                self.assign(t.elts[k].value, Lst(items[k:len(items) - after]), env)
                for e, x in zip(t.elts[k + 1:], items[len(items) - after:]):
                    self.assign(e, x, env)
                return
            if len(items) != len(t.elts):
                raise PyRaise("ValueError")
            for e, x in zip(t.elts, items):
                self.assign(e, x, env)
            return
        if isinstance(t, ast.Attribute):
            base = self.eval(t.value, env)
            if isinstance(base, ObjVal):
                base.attrs[t.attr] = v
                return
            raise Undecided("attribute store on %r" % (base,))
        if isinstance(t, ast.Subscript):
            base = self.eval(t.value, env)
            if isinstance(t.slice, ast.Slice) and isinstance(base, Lst):
                lo = self.index(self.eval(t.slice.lower, env)) if t.slice.lower is not None else None
                hi = self.index(self.eval(t.slice.upper, env)) if t.slice.upper is not None else None
                if t.slice.step is not None:
                    raise Undecided("extended slice assignment")
                base.items[lo:hi] = self.iterate(v)
                return
            k = self.eval(t.slice, env)
            if isinstance(base, Lst):
                base.items[self.index(k)] = v
                return
            if isinstance(base, DictVal):
                base.d[self.dict_key(base, k, create=True)] = v
                return
            raise Undecided("subscript store on %r" % (base,))
        raise Undecided("assignment target %s" % type(t).__name__)

    def dict_key(self, d: DictVal, k, create=False):
        for existing in d.d:
            if self.equal(existing, k):
                return existing
        if create:
            if isinstance(k, (str, int, bool)) or k is None:
                return k
            if isinstance(k, Str):
                return k
            if isinstance(k, (ClassVal, Builtin, Lin, Tup)):
                return k
            raise Undecided("dict key %r" % (k,))
        raise PyRaise("KeyError")

    def index(self, k) -> int:
        if isinstance(k, bool):
            raise Undecided("bool index")
        if isinstance(k, int):
            return k
        if isinstance(k, Lin) and k.is_const() and k.const.denominator == 1:
            return int(k.const)
        raise Undecided("symbolic index %r" % (k,))

    def _lazy(self, v):
        """A Python iterator over v's items that consumes a one-shot iterator item by item."""
        if isinstance(v, IterVal):
            def pulls():
                while True:
                    try:
                        yield v.pull()
                    except StopIteration:
                        return
            return pulls()
        return iter(self.iterate(v))

    def iterate(self, v, live=False) -> List:
        if isinstance(v, Lst):
            return v.items if live else list(v.items)
        if isinstance(v, Tup):
            return list(v.items)
        if isinstance(v, SetVal):
            # a set has no order: iterate against the insertion order, so that a result which silently depends on
            # "sets keep insertion order" (true of the model, not of Python) differs from its specification
            return list(reversed(v.items))
        if isinstance(v, IterVal):
            return v.rest()
        if isinstance(v, DictVal):
            return list(v.d.keys())
        if isinstance(v, str):
            return list(v)
        if isinstance(v, ObjVal):
            it = v.cls.lookup("__iter__")
            if it is not None:
                return self.iterate(self.call_function(it, [v], {}))
        raise Undecided("iteration over %r" % (v,))

    # ---- expressions -----------------------------------------------------------
    def eval(self, e, env):
        self.tick()
        m = getattr(self, "e_" + type(e).__name__, None)
        if m is None:
            raise Undecided("expression form %s" % type(e).__name__)
        return m(e, env)

    def e_Constant(self, e, env):
        v = e.value
        if isinstance(v, bool) or v is None or isinstance(v, str):
            return v
        if isinstance(v, (int, float)):
            return Lin.num(Fraction(str(v))).as_float() if isinstance(v, float) else Lin.num(v)
        if isinstance(v, bytes):
            return Lst([Lin.num(b) for b in v])  # byte strings are modelled as lists
        if v is Ellipsis:
            return Opaque("...")
        raise Undecided("constant %r" % (v,))

    def module_of(self, env) -> ModuleInfo:
        fn = env.get("__fn__")
        return fn.module if fn is not None else None

    def e_Name(self, e, env):
        if e.id in env:
            return env[e.id]
        mod = self.module_of(env)
        if mod is not None:
            return self.global_name(mod, e.id, e)
        raise Undecided("unbound name %s" % e.id)

    def global_name(self, mod: ModuleInfo, name: str, node=None):
        if name in mod.functions:
            return FuncVal(mod.functions[name])
        if name in mod.classes:
            return ClassVal(mod.classes[name])
        if name in mod.aliases:
            al = mod.aliases[name]
            if al[0] == "module":
                m = self.idx.modules.get(al[1])
                return ModuleVal(m) if m else ModuleVal(ext=al[1])
            m = self.idx.modules.get(al[1])
            if m is not None:
                return self.global_name(m, al[2], node)
            return Builtin(al[1] + "." + al[2])
        if name in mod.const_nodes:
            # a module global is evaluated once (a sentinel `X = object()` must stay one object)
            cache = self.__dict__.setdefault("_module_globals", {})
            key = (id(mod), name)
            if key not in cache:
                cache[key] = self.eval(mod.const_nodes[name], {"__fn__": _ModuleFn(mod)})
            return cache[key]
        if name in _BUILTIN_NAMES:
            return Builtin(name)
        if name in _BUILTIN_EXC:
            return Builtin(name)
        raise Undecided("unknown global %s" % name)

    def e_Attribute(self, e, env):
        base = self.eval(e.value, env)
        return self.getattr(base, e.attr, e, env)

    def getattr(self, base, attr, node=None, env=None):
        if base is None and not attr.startswith("__"):
            raise PyRaise("AttributeError", node)  # None.anything
        if isinstance(base, ObjVal):
            if attr in base.attrs:
                return base.attrs[attr]
            m = base.cls.lookup(attr)
            if m is not None:
                if m.is_property:
                    v = self.call_function(m, [base], {})
                    if getattr(m, "is_cached_property", False):
                        base.attrs[attr] = v  # functools.cached_property: computed once per object
                    return v
                if m.is_classmethod:
                    return FuncVal(m, self_obj=ClassVal(base.cls))
                if m.is_static:
                    return FuncVal(m)
                return FuncVal(m, self_obj=base)
            for c in base.cls.mro():
                if attr in c.const_nodes:
                    return self.class_const(c, attr)
            raise PyRaise("AttributeError", node)
        if isinstance(base, ClassVal):
            c = base.cls
            for k in c.mro():
                if attr in k.const_nodes:
                    return self.class_const(k, attr)
            m = c.lookup(attr)
            if m is not None:
                return FuncVal(m, self_obj=base if m.is_classmethod else None)
            nt = self.namedtuple_fields(c)
            if nt is not None:
                if attr == "_make":
                    return PyFunc(lambda I_, it, c=c: I_.instantiate(c, I_.iterate(it), {}))
                if attr == "_fields":
                    return Tup(list(nt))
            raise PyRaise("AttributeError", node)
        if isinstance(base, MockObj):
            if attr in base.attrs:
                return base.attrs[attr]
            raise PyRaise("AttributeError", node)
        if isinstance(base, SliceVal):
            if attr in ("start", "stop", "step"):
                return {"start": base.lo, "stop": base.hi, "step": base.step}[attr]
            raise PyRaise("AttributeError", node)
        if isinstance(base, ModuleVal):
            if base.mod is not None:
                return self.global_name(base.mod, attr, node)
            full = base.ext + "." + attr
            if full in EXT_CONSTS:
                return Lin.num(EXT_CONSTS[full])
            return Builtin(full)
        if isinstance(base, Tup):
            if base.cls:
                fields = self.namedtuple_fields(self.idx.classes[base.cls]) if base.cls in self.idx.classes else None
                if fields and attr in fields:
                    return base.items[fields.index(attr)]
                if fields and attr == "_replace":
                    def _replace(I_, base=base, fields=fields, **kw):
                        if any(k not in fields for k in kw):
                            raise PyRaise("ValueError")
                        return I_.instantiate(I_.idx.classes[base.cls], [kw.get(f, v) for f, v in zip(fields, base.items)], {})
                    return PyFunc(_replace)
                if fields and attr == "_asdict":
                    def _asdict(I_, base=base, fields=fields):
                        d = DictVal()
                        d.d = dict(zip(fields, base.items))
                        return d
                    return PyFunc(_asdict)
                if fields and attr == "_fields":
                    return Tup(list(fields))
                m = self.idx.classes[base.cls].lookup(attr) if base.cls in self.idx.classes else None
                if m is not None and not m.is_property:
                    return FuncVal(m, self_obj=base)
            if attr in ("index", "count"):
                return Builtin("seq." + attr, base)
            raise PyRaise("AttributeError", node)
        if isinstance(base, Lst):
            return Builtin("list." + attr, base)
        if isinstance(base, DictVal):
            return Builtin("dict." + attr, base)
        if isinstance(base, SetVal):
            return Builtin("set." + attr, base)
        if isinstance(base, (str, Str)):
            return Builtin("str." + attr, base)
        if isinstance(base, Builtin):
            full = base.name + "." + attr
            if full in EXT_CONSTS:
                return Lin.num(EXT_CONSTS[full])
            return Builtin(full)
        if isinstance(base, Lin):
            raise PyRaise("AttributeError", node)
        if isinstance(base, ExcVal):
            return Opaque("exc attr")
        raise Undecided("attribute %s of %r" % (attr, base))

    def class_const(self, c: ClassInfo, attr: str):
        """Value of a class-level constant (class body names are in scope for later ones)."""
        env = {"__fn__": _ModuleFn(c.module)}
        for k, node in c.const_nodes.items():
            try:
                env[k] = self.eval(node, env)
            except Undecided:
                if k == attr:
                    raise
        return env[attr]

    def e_Subscript(self, e, env):
        base = self.eval(e.value, env)
        if isinstance(base, (Builtin, Opaque)):
            return Opaque("typing expression")  # List[...], Tuple[...] inside cast()
        if isinstance(e.slice, ast.Slice) and isinstance(base, BufVal):
            if e.slice.step is not None:
                raise Undecided("extended slice of a byte buffer")
            lo_v = self.eval(e.slice.lower, env) if e.slice.lower is not None else None
            hi_v = self.eval(e.slice.upper, env) if e.slice.upper is not None else None
            return self._buf_slice(base, lo_v, hi_v, e)
        if isinstance(e.slice, ast.Slice):
            lo = self.index(self.eval(e.slice.lower, env)) if e.slice.lower is not None else None
            hi = self.index(self.eval(e.slice.upper, env)) if e.slice.upper is not None else None
            st = self.index(self.eval(e.slice.step, env)) if e.slice.step is not None else None
            if isinstance(base, Lst):
                return Lst(base.items[lo:hi:st])
            if isinstance(base, Tup):
                return Tup(base.items[lo:hi:st])
            if isinstance(base, str):
                return base[lo:hi:st]
            if isinstance(base, Lin) or base is None or isinstance(base, bool):
                raise PyRaise("TypeError", e)  # a number is not subscriptable
            raise Undecided("slice of %r" % (base,))
        k = self.eval(e.slice, env)
        if isinstance(k, SliceVal):
            if isinstance(base, BufVal):
                if k.step is not None:
                    raise Undecided("extended slice of a byte buffer")
                return self._buf_slice(base, k.lo, k.hi, e)
            lo = self.index(k.lo) if k.lo is not None else None
            hi = self.index(k.hi) if k.hi is not None else None
            st_ = self.index(k.step) if k.step is not None else None
            if isinstance(base, Lst):
                return Lst(base.items[lo:hi:st_])
            if isinstance(base, Tup):
                return Tup(base.items[lo:hi:st_])
            if isinstance(base, str):
                return base[lo:hi:st_]
            raise Undecided("slice of %r" % (base,))
        if isinstance(base, (Lst, Tup)):
            i = self.index(k)
            try:
                return base.items[i]
            except IndexError:
                raise PyRaise("IndexError", e)
        if isinstance(base, DictVal):
            return base.d[self.dict_key(base, k)]
        if isinstance(base, str):
            try:
                return base[self.index(k)]
            except IndexError:
                raise PyRaise("IndexError", e)
        if isinstance(base, ObjVal):
            m = base.cls.lookup("__getitem__")
            if m is not None:
                return self.call_function(m, [base, k], {})
        raise Undecided("subscript of %r" % (base,))

    def _buf_slice(self, buf: BufVal, lo, hi, node=None):
        """buf[lo:hi] for non-negative linear offsets (Python clamps to the buffer's length)."""
        total = buf.length()
        a = Lin.num(0) if lo is None else self.num(lo, node)
        b = total if hi is None else self.num(hi, node)

        def sgn(x, y):
            return self.sign(x, y, node)  # raises NeedSplit when the abstract state does not decide it
        if sgn(a, Lin.num(0)) < 0 or sgn(b, Lin.num(0)) < 0:
            raise Undecided("negative byte-buffer index")
        if sgn(a, total) > 0:
            a = total
        if sgn(b, total) > 0:
            b = total
        out = []
        acc = Lin.num(0)
        for src, slo, shi in buf.segs:
            seg_end = acc + (shi - slo)
            # intersection of [a, b) with [acc, seg_end)
            start = a if sgn(a, acc) > 0 else acc
            end = b if sgn(b, seg_end) < 0 else seg_end
            if sgn(start, end) < 0:
                out.append((src, slo + (start - acc), slo + (end - acc)))
            acc = seg_end
        return BufVal(out)

    def e_Tuple(self, e, env):
        return Tup(self._elts(e.elts, env))

    def e_List(self, e, env):
        return Lst(self._elts(e.elts, env))

    def e_Set(self, e, env):
        return self._mkset(self._elts(e.elts, env))

    def _elts(self, elts, env):
        out = []
        for x in elts:
            if isinstance(x, ast.Starred):
                out.extend(self.iterate(self.eval(x.value, env)))
            else:
                out.append(self.eval(x, env))
        return out

    def e_Dict(self, e, env):
        d = DictVal()
        for k, v in zip(e.keys, e.values):
            if k is None:
                src = self.eval(v, env)
                if not isinstance(src, DictVal):
                    raise Undecided("dict unpacking of %r" % (src,))
                for k2, v2 in src.d.items():
                    d.d[self.dict_key(d, k2, create=True)] = v2
                continue
            d.d[self.dict_key(d, self.eval(k, env), create=True)] = self.eval(v, env)
        return d

    def _comp_iter(self, e, env, make):
        cenv = dict(env)

        def rec(gi):
            if gi == len(e.generators):
                yield make(cenv)
                return
            g = e.generators[gi]
            src = self.eval(g.iter, cenv)
            if isinstance(src, IterVal):
                def pulls():
                    while True:
                        try:
                            yield src.pull()
                        except StopIteration:
                            return
                seq = pulls()
            else:
                seq = self.iterate(src)
            for item in seq:
                self.tick()
                self.assign(g.target, item, cenv)
                if all(self.truth(self.eval(c, cenv), c) for c in g.ifs):
                    yield from rec(gi + 1)

        return rec(0)

    def _comp(self, e, env, make):
        return list(self._comp_iter(e, env, make))

    def e_ListComp(self, e, env):
        return Lst(self._comp(e, env, lambda ce: self.eval(e.elt, ce)))

    def e_GeneratorExp(self, e, env):
        return IterVal(self._comp_iter(e, env, lambda ce: self.eval(e.elt, ce)))

    def e_SetComp(self, e, env):
        return self._mkset(self._comp(e, env, lambda ce: self.eval(e.elt, ce)))

    def e_DictComp(self, e, env):
        d = DictVal()
        for k, v in self._comp(e, env, lambda ce: (self.eval(e.key, ce), self.eval(e.value, ce))):
            d.d[self.dict_key(d, k, create=True)] = v
        return d

    def _mkset(self, items):
        out = []
        for x in items:
            if not any(self.equal(x, y) for y in out):
                out.append(x)
        return SetVal(out)

    def e_JoinedStr(self, e, env):
        parts = []
        for v in e.values:
            if isinstance(v, ast.Constant):
                parts.append(v.value)
            else:
                x = self.eval(v.value, env)
                spec = None
                if v.format_spec is not None:
                    sp = self.eval(v.format_spec, env)
                    spec = sp if isinstance(sp, str) else False
                if isinstance(x, Lin) and x.is_const() and spec is not False:
                    py = float(x.const) if (x.is_float or x.const.denominator != 1) else int(x.const)
                    try:
                        txt = repr(py) if v.conversion == 114 else str(py) if v.conversion == 115 else py
                        x = format(txt, spec or "")
                    except (ValueError, TypeError):
                        raise PyRaise("ValueError", e)
                elif isinstance(x, str) and spec is not False:
                    try:
                        x = format(repr(x) if v.conversion == 114 else x, spec or "")
                    except (ValueError, TypeError):
                        raise PyRaise("ValueError", e)
                elif isinstance(x, bool) or x is None:
                    x = str(x)
                if isinstance(x, Lin) and v.format_spec is None and v.conversion in (-1, 114, 115):
                    x = Str("num", (x,))
                parts.append(x if isinstance(x, (str, Str)) else _StrOf(x))
        return mkcat(parts)

    def e_NamedExpr(self, e, env):
        v = self.eval(e.value, env)
        self.assign(e.target, v, env)
        return v

    def e_Lambda(self, e, env):
        fv = FuncVal(node=e, env=env)
        a_ = e.args
        pos_ = [x.arg for x in list(getattr(a_, "posonlyargs", [])) + list(a_.args)]
        fv.default_values = {}
        for p_, d_ in zip(pos_[len(pos_) - len(a_.defaults):], a_.defaults):
            fv.default_values[p_] = self.eval(d_, env)  # `lambda i=i: ...` binds now, as in Python
        for p_, d_ in zip([x.arg for x in a_.kwonlyargs], a_.kw_defaults):
            if d_ is not None:
                fv.default_values[p_] = self.eval(d_, env)
        return fv

    def e_IfExp(self, e, env):
        return self.eval(e.body, env) if self.truth(self.eval(e.test, env), e.test) else self.eval(e.orelse, env)

    def e_BoolOp(self, e, env):
        if isinstance(e.op, ast.And):
            v = True
            for x in e.values:
                v = self.eval(x, env)
                if not self.truth(v, x):
                    return v
            return v
        v = False
        for x in e.values:
            v = self.eval(x, env)
            if self.truth(v, x):
                return v
        return v

    def e_UnaryOp(self, e, env):
        v = self.eval(e.operand, env)
        if isinstance(e.op, ast.Not):
            return not self.truth(v, e.operand)
        if isinstance(e.op, ast.USub):
            return self.num(v, e).neg()
        if isinstance(e.op, ast.UAdd):
            return self.num(v, e)
        if isinstance(e.op, ast.Invert) and isinstance(v, Lin) and v.is_const() and v.const.denominator == 1 and not v.is_float:
            return Lin.num(~int(v.const))
        raise Undecided("unary op")

    def e_Compare(self, e, env):
        left = self.eval(e.left, env)
        for op, c in zip(e.ops, e.comparators):
            right = self.eval(c, env)
            if not self.compare(op, left, right, e):
                return False
            left = right
        return True

    def e_BinOp(self, e, env):
        return self.binop(e.op, self.eval(e.left, env), self.eval(e.right, env), e)

    def binop(self, op, a, b, node=None):
        if isinstance(op, (ast.BitAnd, ast.BitOr, ast.Sub, ast.BitXor)) and (isinstance(a, DictView) or isinstance(b, DictView)) and all(isinstance(v, (SetVal, DictView)) for v in (a, b)):
            # keys() / items() views are set-like
            a = self._mkset(a.items) if isinstance(a, DictView) else a
            b = self._mkset(b.items) if isinstance(b, DictView) else b
        if isinstance(op, ast.BitOr) and isinstance(a, DictVal) and isinstance(b, DictVal):
            r_ = DictVal()
            r_.d = dict(a.d)
            for k_, v_ in b.d.items():
                hit_ = [k2 for k2 in r_.d if self.equal(k2, k_, node)]
                r_.d[hit_[0] if hit_ else k_] = v_
            return r_
        if isinstance(a, SetVal) and isinstance(b, SetVal) and isinstance(op, (ast.BitAnd, ast.BitOr, ast.Sub, ast.BitXor)):
            return self._set_op({ast.BitAnd: "&", ast.BitOr: "|", ast.Sub: "-", ast.BitXor: "^"}[type(op)], a, b)
        if isinstance(op, ast.Pow) and isinstance(a, Lin) and isinstance(b, Lin) and b.is_const() and b.const == Fraction(1, 2):
            if not a.is_const():
                return Lin.apply("sqrt", a)
            if a.const >= 0:
                import math as _m
                return Lin.num(Fraction(_m.sqrt(float(a.const)))).as_float()
        if isinstance(op, ast.Pow) and isinstance(a, Lin) and isinstance(b, Lin) and not a.is_const() and b.is_const() and b.const in (0, 1):
            return a if b.const == 1 else Lin.num(1)
        if isinstance(op, ast.Pow) and isinstance(a, Lin) and isinstance(b, Lin) and not a.is_const() and b.is_const() and b.const in (2, 3, 4):
            r = a
            for _ in range(int(b.const) - 1):
                r = r.times(a)
            return r
        if isinstance(op, ast.Pow) and isinstance(a, Lin) and isinstance(b, Lin) and a.is_const() and b.is_const() and b.const.denominator == 1 and abs(b.const) <= 64:
            try:
                return Lin.num(a.const ** int(b.const))
            except ZeroDivisionError:
                raise PyRaise("ZeroDivisionError", node)
        if isinstance(a, bool) and isinstance(b, bool):
            if isinstance(op, ast.BitAnd):
                return a and b
            if isinstance(op, ast.BitOr):
                return a or b
        if isinstance(op, ast.Add):
            if isinstance(a, Lst) and isinstance(b, Lst):
                return Lst(a.items + b.items)
            if isinstance(a, Tup) and isinstance(b, Tup):
                return Tup(a.items + b.items)
            if isinstance(a, (str, Str)) and isinstance(b, (str, Str)):
                return mkcat([a, b])
            if isinstance(a, BufVal) and isinstance(b, BufVal):
                return BufVal(a.segs + b.segs)
            return self.num(a, node) + self.num(b, node)
        if isinstance(op, ast.Sub):
            return self.num(a, node) - self.num(b, node)
        if isinstance(op, ast.Mult):
            if isinstance(a, BufVal) and isinstance(b, Lin) or isinstance(b, BufVal) and isinstance(a, Lin):
                buf, cnt = (a, b) if isinstance(a, BufVal) else (b, a)
                if len(buf.segs) == 1 and buf.segs[0][1].is_const() and buf.segs[0][1].const == 0:
                    src, lo, hi = buf.segs[0]
                    if hi.is_const():
                        return BufVal([(src + "*", Lin.num(0), cnt.scale(hi.const))])
                raise Undecided("repetition of a byte buffer")
            if isinstance(a, (str,)) and isinstance(b, Lin) and b.is_const():
                return a * int(b.const)
            if isinstance(a, Lst) and isinstance(b, Lin) and b.is_const():
                return Lst(a.items * int(b.const))
            if isinstance(a, Tup) and isinstance(b, Lin) and b.is_const() and b.const.denominator == 1:
                return Tup(a.items * int(b.const))
            if isinstance(b, (Lst, Tup)) and isinstance(a, Lin) and a.is_const() and a.const.denominator == 1:
                return type(b)(b.items * int(a.const))
            if isinstance(b, str) and isinstance(a, Lin) and a.is_const() and a.const.denominator == 1:
                return b * int(a.const)
            x, y = self.num(a, node), self.num(b, node)
            if y.is_const():
                r = x.scale(y.const, ("*", x.tree, y.tree))
                return r.as_float() if y.is_float else r
            if x.is_const():
                r = y.scale(x.const, ("*", x.tree, y.tree))
                return r.as_float() if x.is_float else r
            # non-linear: a polynomial over the symbols, monomials named canonically
            return x.times(y)
        if isinstance(op, ast.Div):
            x, y = self.num(a, node), self.num(b, node)
            if y.is_const():
                if y.const == 0:
                    raise PyRaise("ZeroDivisionError", node)
                return x.scale(1 / y.const, ("/", x.tree, y.tree)).as_float()
            return x.over(y)  # multiplication by an uninterpreted reciprocal
        if isinstance(op, ast.Mod) and isinstance(a, (str, Str)):
            if isinstance(a, str):
                vals = b.items if isinstance(b, Tup) else [b]
                conc = []
                for v in vals:
                    if isinstance(v, str):
                        conc.append(v)
                    elif isinstance(v, Lin) and v.is_const():
                        conc.append(float(v.const) if (v.is_float or v.const.denominator != 1) else int(v.const))
                    elif isinstance(v, bool) or v is None:
                        conc.append(v)
                    else:
                        conc = None
                        break
                if conc is not None:
                    try:
                        return a % tuple(conc)
                    except (TypeError, ValueError):
                        raise PyRaise("TypeError", node)
                sym = self._symbolic_percent(a, vals)
                if sym is not None:
                    return sym
            return Str("opaque", ("fmt",))
        if isinstance(op, (ast.BitXor, ast.LShift, ast.RShift)) and all(isinstance(v, Lin) and v.is_const() and v.const.denominator == 1 and not v.is_float for v in (a, b)):
            x, y = int(a.const), int(b.const)
            if isinstance(op, (ast.LShift, ast.RShift)) and (y < 0 or y > 4096):
                raise PyRaise("ValueError", node)
            return Lin.num(x ^ y if isinstance(op, ast.BitXor) else (x << y if isinstance(op, ast.LShift) else x >> y))
        if isinstance(op, (ast.Mod, ast.FloorDiv, ast.BitOr, ast.BitAnd)) and all(isinstance(v, Lin) and v.is_const() and v.const.denominator == 1 for v in (a, b)):
            x, y = int(a.const), int(b.const)
            if isinstance(op, (ast.Mod, ast.FloorDiv)) and y == 0:
                raise PyRaise("ZeroDivisionError", node)
            return Lin.num({ast.Mod: lambda: x % y, ast.FloorDiv: lambda: x // y, ast.BitOr: lambda: x | y, ast.BitAnd: lambda: x & y}[type(op)]())
        if isinstance(op, (ast.Mod, ast.FloorDiv)) and isinstance(a, Lin) and isinstance(b, Lin) and a.is_const() and b.is_const():
            if b.const == 0:
                raise PyRaise("ZeroDivisionError", node)
            import math as _m
            q_ = _m.floor(a.const / b.const)  # exact on the rationals
            r_ = Lin.num(q_ if isinstance(op, ast.FloorDiv) else a.const - q_ * b.const)
            return r_.as_float() if (a.is_float or b.is_float or a.const.denominator != 1 or b.const.denominator != 1) else r_
        if isinstance(op, ast.FloorDiv) and isinstance(a, Lin) and isinstance(b, Lin) and b.is_const() and b.const != 0:
            q = a.scale(1 / b.const)
            if all(v.denominator == 1 for v in list(q.coef.values()) + [q.const]):
                return q  # exact: every coefficient is a multiple of the divisor (symbols stand for whole numbers here)
            raise Undecided("floor division of %r by %r" % (a, b))
        if isinstance(op, (ast.BitAnd, ast.BitOr)) and isinstance(a, bool) and isinstance(b, bool):
            return (a and b) if isinstance(op, ast.BitAnd) else (a or b)
        raise Undecided("binary op %s" % type(op).__name__)

    def _symbolic_percent(self, fmt: str, vals):
        """'%s'-formatting with symbolic string arguments: the result is the concatenation of the literal pieces and
        the arguments (only plain %s / %d slots; anything else stays opaque)."""
        import re as _re

        pieces = _re.split(r"(%[sd%])", fmt)
        if "%" in "".join(p for p in pieces if not _re.fullmatch(r"%[sd%]", p)):
            return None
        out, k = [], 0
        for p in pieces:
            if p == "%%":
                out.append("%")
            elif p in ("%s", "%d"):
                if k >= len(vals):
                    raise PyRaise("TypeError")
                v = vals[k]
                k += 1
                if isinstance(v, str):
                    if p == "%d":
                        raise PyRaise("TypeError")
                    out.append(v)
                elif isinstance(v, Str):
                    if p == "%d":
                        return None
                    out.append(v)
                elif isinstance(v, Lin) and v.is_const() and v.const.denominator == 1 and not getattr(v, "is_float", False):
                    out.append(str(int(v.const)))
                elif isinstance(v, bool) or v is None:
                    out.append(str(v))
                elif isinstance(v, Lin) and p == "%s":
                    out.append(Str("num", (v,)))
                elif isinstance(v, Lin):
                    out.append(Str("trunc", (v,)))  # '%d' of a number that need not be whole
                else:
                    return None
            else:
                out.append(p)
        if k != len(vals):
            raise PyRaise("TypeError")
        return mkcat(out)

    def e_Call(self, e, env):
        f = e.func
        # super().__init__ / super(X, self).m
        if isinstance(f, ast.Attribute) and isinstance(f.value, ast.Call) and isinstance(f.value.func, ast.Name) and f.value.func.id == "super":
            fn = env.get("__fn__")
            selfv = env.get(fn.self_name)
            mro = fn.cls.mro()[1:]
            for c in mro:
                if f.attr in c.methods:
                    args, kwargs = self._args(e, env)
                    return self.call_function(c.methods[f.attr], [selfv] + args, kwargs)
            raise PyRaise("AttributeError", e)
        if isinstance(f, ast.Call) and isinstance(f.func, ast.Name) and f.func.id == "type" and len(f.args) == 1:
            o = self.eval(f.args[0], env)
            args, kwargs = self._args(e, env)
            if isinstance(o, ObjVal):
                return self.instantiate(o.cls, args, kwargs, e)
            if isinstance(o, Tup) and o.cls:
                return self.instantiate(self.idx.classes[o.cls], args, kwargs, e)
            raise Undecided("type(x)(...) on %r" % (o,))
        fv = self.eval(f, env)
        args, kwargs = self._args(e, env)
        return self.call_value(fv, args, kwargs, e)

    def _args(self, e, env):
        args = []
        for a in e.args:
            if isinstance(a, ast.Starred):
                args.extend(self.iterate(self.eval(a.value, env)))
            else:
                args.append(self.eval(a, env))
        kwargs = {}
        for k in e.keywords:
            if k.arg is None:
                dv = self.eval(k.value, env)
                if not isinstance(dv, DictVal) or not all(isinstance(x, str) for x in dv.d):
                    raise Undecided("**kwargs call")
                kwargs.update(dv.d)
                continue
            kwargs[k.arg] = self.eval(k.value, env)
        return args, kwargs

    def _lazy_generator(self, body, env):
        def run(emit):
            env["__yield__"] = _YieldSink(emit)
            depth, frames = self.call_depth, list(self.__dict__.get("frames", []))
            try:
                self.exec_block(body, env)
            except _Return:
                pass
            finally:
                self.call_depth = depth
        return LazyGen(run)

    def e_Yield(self, e, env):
        env["__yield__"].emit(self.eval(e.value, env) if e.value is not None else None)
        return None

    def e_YieldFrom(self, e, env):
        for x in self._lazy(self.eval(e.value, env)):
            env["__yield__"].emit(x)
        return None

    # ---- builtins --------------------------------------------------------------
    def call_builtin(self, b: Builtin, args, kwargs, node=None):
        n = b.name
        recv = b.recv
        bo = getattr(self, "builtin_overrides", None)
        if bo and n in bo:
            return bo[n](self, args, kwargs)
        if n in _BUILTIN_EXC:
            return ExcVal(n, args)
        if n == "itertools.count":
            start = self.index(args[0]) if args else 0
            step = self.index(args[1]) if len(args) > 1 else 1

            def counter():
                k = start
                while True:
                    yield Lin.num(k)
                    k += step
            return IterVal(counter())
        if n == "len":
            v = args[0]
            if isinstance(v, (Lst, Tup, SetVal)):
                return Lin.num(len(v.items))
            if isinstance(v, DictVal):
                return Lin.num(len(v.d))
            if isinstance(v, str):
                return Lin.num(len(v))
            if isinstance(v, BufVal):
                return v.length()
            if isinstance(v, ObjVal):
                m = v.cls.lookup("__len__")
                if m:
                    return self.call_function(m, [v], {})
            raise Undecided("len of %r" % (v,))
        if n in ("min", "max"):
            return self._minmax(n, args, kwargs, node)
        if n == "int" and isinstance(args[0], Lin) and args[0].is_const():
            c = args[0].const
            import math as _m
            return Lin.num(_m.trunc(c))
        if n == "math.fabs":
            v = self.num(args[0], node)
            return (v if self.sign(v, None, node) >= 0 else v.neg()).as_float()
        if n == "float":
            v = args[0]
            if isinstance(v, Lin):
                return v.as_float()
            if isinstance(v, bool):
                return Lin.num(int(v)).as_float()
            if isinstance(v, str):
                import math as _m
                try:
                    f_ = float(v)
                except ValueError:
                    raise PyRaise("ValueError", node)
                if _m.isinf(f_) or _m.isnan(f_):
                    raise Undecided("a non-finite float (%r)" % v)
                try:
                    return Lin.num(Fraction(v.strip().replace("_", ""))).as_float()
                except Exception:
                    return Lin.num(Fraction(f_)).as_float()
            raise Undecided("float(%r)" % (v,))
        if n == "int":
            v = args[0]
            if isinstance(v, str):
                try:
                    base_ = args[1] if len(args) > 1 else kwargs.get("base")
                    return Lin.num(int(v, self.index(base_)) if base_ is not None else int(v))
                except ValueError:
                    raise PyRaise("ValueError", node)
            if isinstance(v, Lin) and v.is_const():
                import math as _m
                return Lin.num(_m.trunc(v.const))
            if isinstance(v, bool):
                return Lin.num(int(v))
            raise Undecided("int(%r)" % (v,))
        if n == "abs":
            v = self.num(args[0], node)
            s = self.sign(v, None, node)
            return v if s >= 0 else v.neg()
        if n == "isinstance":
            return self._isinstance(args[0], args[1])
        if n in ("list", "tuple", "sorted", "reversed", "set", "frozenset", "iter"):
            if n == "iter":
                if isinstance(args[0], IterVal):
                    return args[0]
                src = args[0]
                if isinstance(src, Lst):  # a list iterator is live: it sees appends made while iterating
                    def live_list(l=src):
                        k = 0
                        while k < len(l.items):
                            yield l.items[k]
                            k += 1
                    return IterVal(live_list())
                return IterVal(self.iterate(src))
            items = self.iterate(args[0]) if args else []
            if n == "list":
                return Lst(items)
            if n == "tuple":
                return Tup(items)
            if n in ("set", "frozenset"):
                return self._mkset(items)
            if n == "reversed":
                return IterVal(list(reversed(items)))
            return Lst(self._sort(items, kwargs.get("key"), kwargs.get("reverse")))
        if n == "enumerate":
            start = self.index(args[1]) if len(args) > 1 else (self.index(kwargs["start"]) if "start" in kwargs else 0)
            return IterVal(Tup([Lin.num(i), x]) for i, x in enumerate(self._lazy(args[0]), start))
        if n == "zip":
            handles = [a if isinstance(a, IterVal) else IterVal(self.iterate(a)) for a in args]

            strict_ = kwargs.get("strict") is True

            def zipped():
                if not handles:
                    return
                while True:
                    row = []
                    for k_, h in enumerate(handles):
                        try:
                            row.append(h.pull())
                        except StopIteration:
                            if strict_:
                                # zip(strict=True): every input must end together
                                if k_ > 0:
                                    raise PyRaise("ValueError", node)
                                for h2 in handles[1:]:
                                    try:
                                        h2.pull()
                                    except StopIteration:
                                        continue
                                    raise PyRaise("ValueError", node)
                            return
                    yield Tup(row)
            return IterVal(zipped())
        if n == "range":
            vals = [self.index(a) for a in args]
            return Lst([Lin.num(i) for i in range(*vals)])
        if n in ("any", "all"):
            vals = [self.truth(x) for x in self.iterate(args[0])]
            return any(vals) if n == "any" else all(vals)
        if n == "bool":
            return self.truth(args[0]) if args else False
        if n == "next":
            if not isinstance(args[0], IterVal):
                raise PyRaise("TypeError", node)
            try:
                return args[0].pull()
            except StopIteration:
                if len(args) > 1:
                    return args[1]
                raise PyRaise("StopIteration", node)
        if n == "sum":
            items = self.iterate(args[0])
            start_ = args[1] if len(args) > 1 else kwargs.get("start")
            if isinstance(start_, (Lst, Tup)):
                tot = start_
                for x in items:
                    tot = self.binop(ast.Add(), tot, x, node)  # sum(lists, []) concatenates
                return tot
            tot = self.num(start_) if start_ is not None else Lin.num(0)
            for x in items:
                tot = tot + self.num(x)
            return tot
        if n == "print":
            self.prints += 1
            return None
        if n == "str" or n == "repr":
            v = args[0]
            if isinstance(v, Lin) and v.is_const():
                return str(int(v.const)) if v.const.denominator == 1 and not getattr(v, "is_float", False) else repr(float(v.const))
            if isinstance(v, str) and n == "repr":
                return repr(v)
            if isinstance(v, Lin):
                return Str("num", (v,))  # repr/str of a float is a numeral denoting exactly that float (CPython guarantee)
            if v is None or isinstance(v, bool):
                return str(v)
            if isinstance(v, ObjVal):
                m = (v.cls.lookup("__str__") if n == "str" else None) or v.cls.lookup("__repr__")
                if m is not None:
                    return self.call_function(m, [v], {})
            return v if isinstance(v, (str, Str)) else _StrOf(v)
        if n == "type":
            v = args[0]
            if isinstance(v, ObjVal):
                return ClassVal(v.cls)
            if isinstance(v, Tup) and v.cls and v.cls in self.idx.classes:
                return ClassVal(self.idx.classes[v.cls])
            for pyt, nm in ((bool, "bool"), (str, "str")):
                if isinstance(v, pyt):
                    return Builtin(nm)
            if isinstance(v, Str):
                return Builtin("str")
            if isinstance(v, Lst):
                return Builtin("list")
            if isinstance(v, Tup):
                return Builtin("tuple")
            if isinstance(v, DictVal):
                return Builtin("dict")
            if isinstance(v, Lin) and v.is_const():
                return Builtin("float" if getattr(v, "is_float", False) or v.const.denominator != 1 else "int")
            raise Undecided("type(%r)" % (v,))
        if n == "filter":
            fnv = args[0]
            return IterVal(x for x in self._lazy(args[1]) if self.truth(x if fnv is None else self.call_value(fnv, [x], {})))
        if n == "map":
            cols = [self._lazy(a) for a in args[1:]]
            return IterVal(self.call_value(args[0], list(row), {}) for row in zip(*cols))
        if n in ("math.floor", "math.ceil", "math.trunc") and isinstance(args[0], Lin) and args[0].is_const():
            import math as _m
            return Lin.num(getattr(_m, n.split(".")[1])(args[0].const))
        if n == "statistics.median":
            items = self._sort([self.num(x) for x in self.iterate(args[0])])
            if not items:
                raise PyRaise("StatisticsError", node)
            k = len(items)
            if k % 2 == 1:
                return items[k // 2]
            return (items[k // 2 - 1] + items[k // 2]).scale(Fraction(1, 2))
        if n in ("typing.cast", "cast"):
            return args[1]
        if n in ("io.open", "open"):
            # virtual file system (self.vfs: path -> text); nothing on disk is touched
            path = args[0]
            mode = args[1] if len(args) > 1 else kwargs.get("mode", "r")
            vfs = self.__dict__.setdefault("vfs", {})
            if not isinstance(path, str) or not isinstance(mode, str):
                raise Undecided("open() of a symbolic path")
            if "w" in mode:
                vfs[path] = ""

                def write(I_, text, path=path):
                    if not isinstance(text, str):
                        raise Undecided("write() of a non-concrete text: %r" % (text,))
                    vfs[path] += text
                    return None
                return MockObj({"write": PyFunc(write)}, "file:" + path)
            if path not in vfs:
                raise PyRaise("FileNotFoundError", node)
            return MockObj({"read": PyFunc(lambda I_, path=path: vfs[path]),
                            "readlines": PyFunc(lambda I_, path=path: Lst(vfs[path].splitlines(True)))}, "file:" + path)
        if n in ("math.isclose",):
            # tolerance-based closeness is abstracted to exact equality of reals; the use is counted, so that a rule
            # whose property compares exactly can tell (an explicit zero tolerance is exact and not counted)
            def _zero(k, dflt):
                v = kwargs.get(k, dflt)
                return isinstance(v, Lin) and v.is_const() and v.const == 0 if not isinstance(v, (int, float)) else v == 0
            if not (_zero("rel_tol", 1) and _zero("abs_tol", 0)):
                self.math_tolerance_calls = getattr(self, "math_tolerance_calls", 0) + 1  # kept apart from my_math.isclose (tables.default_overrides)
            return self.equal(args[0], args[1], node)
        if n == "copy.deepcopy":
            return self.deepcopy(args[0])
        if n == "copy.copy":
            v = args[0]  # shallow: a new container holding the same elements
            if isinstance(v, Lst):
                return Lst(list(v.items))
            if isinstance(v, Tup):
                return v
            if isinstance(v, SetVal):
                return SetVal(list(v.items))
            if isinstance(v, DictVal):
                d2 = DictVal()
                d2.d = dict(v.d)
                return d2
            if isinstance(v, ObjVal):
                o2 = ObjVal(v.cls)
                o2.attrs = dict(v.attrs)
                return o2
            if isinstance(v, (Lin, str, Str, bool)) or v is None:
                return v
            raise Undecided("copy.copy of %r" % (v,))
        if n in ("OrderedDict", "collections.OrderedDict", "dict"):
            d = DictVal()
            if args:
                src = args[0]
                if isinstance(src, DictVal):
                    for k, v in src.d.items():
                        d.d[k] = v
                else:
                    for pair in self.iterate(src):
                        kv = self.iterate(pair)
                        if len(kv) != 2:
                            raise PyRaise("ValueError", node)
                        d.d[self.dict_key(d, kv[0], create=True)] = kv[1]
            for k, v in kwargs.items():
                d.d[k] = v
            return d
        if n.startswith("list."):
            return self._list_method(n[5:], recv, args, kwargs, node)
        if n.startswith("dict.") and recv is not None:
            return self._dict_method(n[5:], recv, args, kwargs, node)
        if n.startswith("str."):
            return self._str_method(n[4:], recv, args, kwargs, node)
        if n.startswith("seq."):
            if n == "seq.index":
                for i, x in enumerate(recv.items):
                    if self.equal(x, args[0]):
                        return Lin.num(i)
                raise PyRaise("ValueError", node)
            if n == "seq.count":
                return Lin.num(sum(1 for x in recv.items if self.equal(x, args[0])))
        if n.startswith("set."):
            return self._set_method(n[4:], recv, args, kwargs, node)
        if n == "itertools.zip_longest":
            its = [self.iterate(a) for a in args]
            m = max(len(i) for i in its) if its else 0
            fill = kwargs.get("fillvalue")
            return Lst([Tup([i[k] if k < len(i) else fill for i in its]) for k in range(m)])
        if n in ("re.findall", "re.search", "re.match", "re.fullmatch", "re.sub", "re.split", "re.finditer") and all(isinstance(a, str) for a in args[:2]) and not any(isinstance(a, Builtin) for a in args[2:]):
            return self._regex(n[3:], args, kwargs, node)
        if n in ("re.findall", "re.search", "re.sub", "re.split"):
            if n == "re.findall" and all(isinstance(a, str) for a in args[:2]):
                import re as _re

                flags = 0
                for a in args[2:]:
                    if isinstance(a, Builtin) and a.name in ("re.I", "re.IGNORECASE"):
                        flags |= _re.I
                try:
                    return Lst(list(_re.findall(args[0], args[1], flags)))
                except _re.error:
                    raise PyRaise("error", node)
            raise Undecided("regular expression on symbolic text")
        lib = self._library(n, args, kwargs, node)
        if lib is not _NOLIB:
            return lib
        if n == "round":
            v = args[0]
            if isinstance(v, Lin) and v.is_const() and len(args) == 1:
                return Lin.num(round(v.const))  # exact banker's rounding on the rational value
            if isinstance(v, Lin) and v.is_const() and len(args) == 2 and isinstance(args[1], Lin) and args[1].is_const():
                x_ = float(v.const) if (v.is_float or v.const.denominator != 1) else int(v.const)
                r_ = round(x_, int(args[1].const))  # Python's own correctly rounded decimal rounding of that double
                return Lin.num(Fraction(r_)).as_float() if isinstance(r_, float) else Lin.num(r_)
            raise Undecided("round() of a symbolic number")
        raise Undecided("builtin %s" % n)

    def _library(self, n, args, kwargs, node):
        """Pure standard-library helpers that refactorings like to use."""
        it = self.iterate
        lz = self._lazy  # item by item: the input may be endless (itertools.repeat, count)
        if n == "itertools.chain":
            return IterVal(x for a in args for x in lz(a))
        if n == "itertools.chain.from_iterable":
            return IterVal(x for a in lz(args[0]) for x in lz(a))
        if n == "itertools.islice":
            vals = [None if a is None else self.index(a) for a in args[1:]]
            import itertools as _it

            src = args[0]
            if isinstance(src, IterVal):
                def pulls():
                    while True:
                        try:
                            yield src.pull()
                        except StopIteration:
                            return
                return IterVal(_it.islice(pulls(), *vals))
            return IterVal(_it.islice(it(src), *vals))
        if n == "itertools.pairwise":
            xs = it(args[0])
            return IterVal(Tup([a, b]) for a, b in zip(xs, xs[1:]))
        if n == "itertools.accumulate":
            xs = lz(args[0])
            f = args[1] if len(args) > 1 else kwargs.get("func")

            def running(acc=kwargs.get("initial")):
                first = acc is None
                if not first:
                    yield acc
                for x in xs:
                    if first:
                        acc, first = x, False
                    else:
                        acc = self.call_value(f, [acc, x], {}) if f is not None else self.binop(ast.Add(), acc, x, node)
                    yield acc
            return IterVal(running())  # lazy: the input may be endless
        if n == "itertools.repeat":
            if len(args) < 2:
                def forever(v=args[0]):
                    while True:
                        yield v
                return IterVal(forever())  # only meaningful under zip / islice, which stop at the shorter input
            return IterVal([args[0]] * self.index(args[1]))
        if n == "itertools.filterfalse":
            return IterVal(x for x in it(args[1]) if not self.truth(x if args[0] is None else self.call_value(args[0], [x], {})))
        if n == "itertools.compress":
            return IterVal(x for x, k in zip(it(args[0]), it(args[1])) if self.truth(k))
        if n == "itertools.tee":
            xs = it(args[0])
            return Tup([IterVal(list(xs)) for _ in range(self.index(args[1]) if len(args) > 1 else 2)])
        if n == "itertools.groupby":
            key = args[1] if len(args) > 1 else kwargs.get("key")
            groups = []
            for x in it(args[0]):
                k = self.call_value(key, [x], {}) if key is not None else x
                if groups and self.equal(groups[-1][0], k):
                    groups[-1][1].append(x)
                else:
                    groups.append((k, [x]))
            return IterVal(Tup([k, IterVal(g)]) for k, g in groups)
        if n == "itertools.starmap":
            return IterVal(self.call_value(args[0], it(row), {}) for row in lz(args[1]))
        if n in ("itertools.takewhile", "itertools.dropwhile"):
            src = lz(args[1])
            pred = args[0]

            def taking():
                for x in src:
                    if not self.truth(self.call_value(pred, [x], {})):
                        return
                    yield x

            def dropping():
                dropping_ = True
                for x in src:
                    if dropping_ and self.truth(self.call_value(pred, [x], {})):
                        continue
                    dropping_ = False
                    yield x
            return IterVal(taking() if n.endswith("takewhile") else dropping())
        if n == "itertools.product":
            import itertools as _it

            return IterVal(Tup(list(t)) for t in _it.product(*[it(a) for a in args]))
        if n == "operator.itemgetter":
            keys = list(args)

            def getter(I_, obj, keys=keys):
                def one(k):
                    if isinstance(obj, DictVal):
                        return obj.d[I_.dict_key(obj, k)]
                    if isinstance(obj, (Lst, Tup)):
                        try:
                            return obj.items[I_.index(k)]
                        except IndexError:
                            raise PyRaise("IndexError")
                    if isinstance(obj, str):
                        return obj[I_.index(k)]
                    raise Undecided("itemgetter on %r" % (obj,))
                return one(keys[0]) if len(keys) == 1 else Tup([one(k) for k in keys])
            return PyFunc(getter)
        if n == "operator.attrgetter":
            names = list(args)

            def agetter(I_, obj, names=names):
                def one(nm):
                    v = obj
                    for part in nm.split("."):
                        v = I_.getattr(v, part)
                    return v
                return one(names[0]) if len(names) == 1 else Tup([one(k) for k in names])
            return PyFunc(agetter)
        if n == "operator.pow":
            return self.binop(ast.Pow(), args[0], args[1], node)
        if n in ("operator.floordiv", "operator.mod"):
            return self.binop(ast.FloorDiv() if n.endswith("floordiv") else ast.Mod(), args[0], args[1], node)
        if n in ("operator.not_", "operator.truth"):
            return (not self.truth(args[0])) if n.endswith("not_") else self.truth(args[0])
        if n in ("operator.is_", "operator.is_not", "operator.contains"):
            if n.endswith("contains"):
                return self.compare(ast.In(), args[1], args[0], node)
            return self.compare(ast.Is() if n.endswith("is_") else ast.IsNot(), args[0], args[1], node)
        if n == "operator.abs":
            return self.call_builtin(Builtin("abs"), [args[0]], {}, node)
        if n in ("operator.add", "operator.sub", "operator.mul", "operator.truediv", "operator.neg", "operator.lt", "operator.le", "operator.gt", "operator.ge", "operator.eq", "operator.ne"):
            nm = n.split(".")[1]
            if nm == "neg":
                return self.num(args[0]).neg()
            ops = {"add": ast.Add, "sub": ast.Sub, "mul": ast.Mult, "truediv": ast.Div}
            if nm in ops:
                return self.binop(ops[nm](), args[0], args[1], node)
            cmps = {"lt": ast.Lt, "le": ast.LtE, "gt": ast.Gt, "ge": ast.GtE, "eq": ast.Eq, "ne": ast.NotEq}
            return self.compare(cmps[nm](), args[0], args[1], node)
        if n == "slice":
            a3 = list(args) + [None] * (3 - len(args))
            if len(args) == 1:
                return SliceVal(None, args[0], None)
            return SliceVal(a3[0], a3[1], a3[2])
        if n in ("operator.iadd", "operator.concat", "operator.iconcat"):
            if isinstance(args[0], Lst) and isinstance(args[1], (Lst, Tup)) and n != "operator.concat":
                args[0].items.extend(args[1].items)
                return args[0]
            return self.binop(ast.Add(), args[0], args[1], node)
        if n == "operator.methodcaller":
            nm, a0, k0 = args[0], list(args[1:]), dict(kwargs)
            return PyFunc(lambda I_, obj: I_.call_value(I_.getattr(obj, nm), a0, k0))
        if n in ("dict.__getitem__", "dict.get") and args and isinstance(args[0], DictVal):
            return self._dict_method("get" if n.endswith("get") else "__getitem__", args[0], args[1:], kwargs, node)
        if n == "dict.fromkeys":
            d = DictVal()
            for k in it(args[0]):
                d.d[self.dict_key(d, k, create=True)] = args[1] if len(args) > 1 else None
            return d
        if n == "getattr":
            try:
                return self.getattr(args[0], args[1], node)
            except PyRaise as e:
                if e.name == "AttributeError" and len(args) > 2:
                    return args[2]
                raise
        if n == "hasattr":
            try:
                self.getattr(args[0], args[1], node)
                return True
            except PyRaise as e:
                if e.name == "AttributeError":
                    return False
                raise
        if n == "setattr":
            if isinstance(args[0], ObjVal) and isinstance(args[1], str):
                args[0].attrs[args[1]] = args[2]
                return None
            raise Undecided("setattr on %r" % (args[0],))
        if n == "functools.partial":
            f0, a0, k0 = args[0], list(args[1:]), dict(kwargs)
            return PyFunc(lambda I_, *a, **k: I_.call_value(f0, a0 + list(a), dict(k0, **k)))
        if n == "functools.reduce":
            xs = it(args[1])
            if len(args) > 2:
                acc = args[2]
            elif xs:
                acc, xs = xs[0], xs[1:]
            else:
                raise PyRaise("TypeError", node)
            for x in xs:
                acc = self.call_value(args[0], [acc, x], {})
            return acc
        if n == "heapq.merge":
            # k-way merge of the heads: the smallest head goes next, ties to the earlier iterable (what CPython's
            # merge does; on inputs that are not sorted the result is not sorted either -- exactly as in CPython)
            key = kwargs.get("key")
            rev = kwargs.get("reverse")
            rev = bool(rev) and self.truth(rev)
            qs = [list(self.iterate(a)) for a in args]
            out = []
            while any(qs):
                best = None
                for qi, q in enumerate(qs):
                    if not q:
                        continue
                    if best is None:
                        best = qi
                        continue
                    kb = qs[best][0] if key is None else self.call_value(key, [qs[best][0]], {})
                    kq = q[0] if key is None else self.call_value(key, [q[0]], {})
                    if (self._lt(kb, kq) if rev else self._lt(kq, kb)):
                        best = qi
                out.append(qs[best].pop(0))
            return Lst(out)
        if n in ("bisect.bisect_left", "bisect.bisect_right", "bisect.bisect", "bisect.insort", "bisect.insort_left", "bisect.insort_right"):
            xs = args[0]
            if not isinstance(xs, Lst):
                raise Undecided("bisect on %r" % (xs,))
            key = kwargs.get("key")
            v = args[1]
            kv = v if (key is None or "insort" not in n) else self.call_value(key, [v], {})
            left = n.endswith("_left")
            pos = 0
            for x in xs.items:
                kx = x if key is None else self.call_value(key, [x], {})
                if self._lt(kx, kv) or (not left and not self._lt(kv, kx)):
                    pos += 1
                else:
                    break
            if "insort" in n:
                xs.items.insert(pos, v)
                return None
            return Lin.num(pos)
        if n in ("os.path.join", "os.path.split", "os.path.splitext", "os.path.basename", "os.path.dirname") and all(isinstance(a, str) for a in args):
            import os.path as _p

            r = getattr(_p, n.split(".")[-1])(*args)
            return Tup(list(r)) if isinstance(r, tuple) else r
        if n == "os.path.join":
            return mkjoin("/", [a for a in args])  # symbolic component: kept as a term
        if n == "math.fsum":
            tot = Lin.num(0).as_float()
            for x in self.iterate(args[0]):
                tot = tot + self.num(x)
            return tot.as_float()
        if n in ("statistics.mean", "statistics.fmean", "statistics.pvariance", "statistics.pstdev", "statistics.variance", "statistics.stdev"):
            xs_ = [self.num(x) for x in self.iterate(args[0])]
            fn_ = n.split(".")[1]
            need = 2 if fn_ in ("variance", "stdev") else 1
            if len(xs_) < need:
                raise PyRaise("StatisticsError", node)
            tot = Lin.num(0)
            for x in xs_:
                tot = tot + x
            mean_ = tot.scale(Fraction(1, len(xs_))).as_float()
            if fn_ in ("mean", "fmean"):
                return mean_
            mu = args[1] if len(args) > 1 else kwargs.get("mu", kwargs.get("xbar"))
            mu = mean_ if mu is None else self.num(mu)
            ss = Lin.num(0)
            for x in xs_:
                ss = ss + (x - mu).times(x - mu)
            var_ = ss.scale(Fraction(1, len(xs_) - (need - 1))).as_float()
            if fn_.endswith("variance"):
                return var_
            if var_.is_const():
                import math as _m
                return Lin.num(Fraction(_m.sqrt(float(var_.const)))).as_float()
            return Lin.apply("sqrt", var_)
        if n in ("math.sqrt", "math.log10", "math.log", "math.exp") and len(args) == 1 and isinstance(args[0], Lin) and not args[0].is_const():
            return Lin.apply(n.split(".")[1], args[0])  # uninterpreted
        if n in ("math.log10", "math.log", "math.log2", "math.sqrt", "math.sin", "math.cos", "math.exp") and all(isinstance(a, Lin) and a.is_const() for a in args):
            import math as _m

            try:
                return Lin.num(Fraction(getattr(_m, n.split(".")[1])(*[float(a.const) for a in args]))).as_float()
            except (ValueError, OverflowError):
                raise PyRaise("ValueError", node)
        if n == "io.StringIO":
            chunks = [args[0]] if args else []
            return MockObj({
                "write": PyFunc(lambda I_, t: chunks.append(t)),
                "writelines": PyFunc(lambda I_, ts: chunks.extend(I_.iterate(ts))),
                "getvalue": PyFunc(lambda I_: mkcat(list(chunks))),
                "close": PyFunc(lambda I_: None),
                "__enter__": PyFunc(lambda I_: None), "__exit__": PyFunc(lambda I_, *a: None),
            }, "StringIO")
        if n == "divmod":
            a, b = self.num(args[0], node), self.num(args[1], node)
            if a.is_const() and b.is_const() and a.const.denominator == 1 and b.const.denominator == 1:
                if b.const == 0:
                    raise PyRaise("ZeroDivisionError", node)
                q, r = divmod(int(a.const), int(b.const))
                return Tup([Lin.num(q), Lin.num(r)])
            raise Undecided("divmod of symbolic numbers")
        if n == "callable":
            return isinstance(args[0], (FuncVal, PyFunc, Builtin, ClassVal))
        if n == "pow":
            return self.binop(ast.Pow(), args[0], args[1], node)
        if n == "object" and not args:
            return MockObj({}, "object")  # a fresh sentinel: equal only to itself
        if n in ("operator.and_", "operator.or_", "operator.xor"):
            return self.binop({"and_": ast.BitAnd, "or_": ast.BitOr, "xor": ast.BitXor}[n.split(".")[1]](), args[0], args[1], node)
        return _NOLIB

    def _set_method(self, m, recv: SetVal, args, kwargs, node):
        def has(x):
            return any(self.equal(x, y) for y in recv.items)
        if m == "add":
            if not has(args[0]):
                recv.items.append(args[0])
            return None
        if m in ("discard", "remove"):
            for y in list(recv.items):
                if self.equal(args[0], y):
                    recv.items.remove(y)
                    return None
            if m == "remove":
                raise PyRaise("KeyError", node)
            return None
        if m == "update":
            for a in args:
                for x in self.iterate(a):
                    if not has(x):
                        recv.items.append(x)
            return None
        if m == "copy":
            return SetVal(list(recv.items))
        if m in ("union", "intersection", "difference", "symmetric_difference", "issubset", "issuperset", "isdisjoint"):
            other = self._mkset(self.iterate(args[0])) if args else SetVal([])
            return self._set_op(m, recv, other)
        raise Undecided("set.%s" % m)

    def _set_op(self, m, a: SetVal, b: SetVal):
        def inn(x, s_):
            return any(self.equal(x, y) for y in s_.items)
        if m in ("union", "|"):
            return self._mkset(a.items + b.items)
        if m in ("intersection", "&"):
            return SetVal([x for x in a.items if inn(x, b)])
        if m in ("difference", "-"):
            return SetVal([x for x in a.items if not inn(x, b)])
        if m in ("symmetric_difference", "^"):
            return SetVal([x for x in a.items if not inn(x, b)] + [y for y in b.items if not inn(y, a)])
        if m in ("issubset", "<="):
            return all(inn(x, b) for x in a.items)
        if m in ("issuperset", ">="):
            return all(inn(y, a) for y in b.items)
        if m == "isdisjoint":
            return not any(inn(x, b) for x in a.items)
        raise Undecided("set operation %s" % m)

    def _regex(self, func, args, kwargs, node):
        """re.<func> on concrete pattern and text: delegated to Python's own engine (an external library, not the
        code under analysis); every use is recorded for the text-format rules."""
        import re as _re

        def as_int(v, default=0):
            if v is None:
                return default
            if isinstance(v, Lin) and v.is_const() and v.const.denominator == 1:
                return int(v.const)
            if isinstance(v, int):
                return v
            raise Undecided("regular-expression argument %r" % (v,))
        names = {"search": ["pattern", "string", "flags"], "match": ["pattern", "string", "flags"], "fullmatch": ["pattern", "string", "flags"],
                 "findall": ["pattern", "string", "flags"], "finditer": ["pattern", "string", "flags"],
                 "split": ["pattern", "string", "maxsplit", "flags"], "sub": ["pattern", "repl", "string", "count", "flags"]}[func]
        a = dict(zip(names, args))
        a.update(kwargs)
        flags = as_int(a.get("flags"))
        pat, text = a["pattern"], a["string"]
        if not isinstance(text, str):
            raise Undecided("regular expression on symbolic text")
        log = self.__dict__.setdefault("regex_log", [])
        log.append((self.__dict__.get("frames", ["?"])[-1] if self.__dict__.get("frames") else "?", func, pat, flags, text, as_int(a.get("maxsplit")) if func == "split" else 0))
        try:
            rx = _re.compile(pat, flags)
        except _re.error:
            raise PyRaise("error", node)

        def match_obj(m):
            if m is None:
                return None
            return MockObj({
                "groups": PyFunc(lambda I_, *x: Tup(list(m.groups()))),
                "group": PyFunc(lambda I_, *idx: m.group(*[as_int(i) for i in idx]) if idx else m.group()),
                "start": PyFunc(lambda I_, *idx: Lin.num(m.start(*[as_int(i) for i in idx]))),
                "end": PyFunc(lambda I_, *idx: Lin.num(m.end(*[as_int(i) for i in idx]))),
                "span": PyFunc(lambda I_, *idx: Tup([Lin.num(x) for x in m.span(*[as_int(i) for i in idx])])),
            }, "match")
        if func in ("search", "match", "fullmatch"):
            return match_obj(getattr(rx, func)(text))
        if func == "findall":
            return Lst([Tup(list(x)) if isinstance(x, tuple) else x for x in rx.findall(text)])
        if func == "finditer":
            return IterVal(match_obj(m) for m in rx.finditer(text))
        if func == "split":
            return Lst(list(rx.split(text, as_int(a.get("maxsplit")))))
        if func == "sub":
            if not isinstance(a["repl"], str):
                raise Undecided("re.sub with a function replacement")
            return rx.sub(a["repl"], text, as_int(a.get("count")))
        raise Undecided("re.%s" % func)

    def _isinstance(self, v, c) -> bool:
        classes = c.items if isinstance(c, Tup) else [c]
        names = {k.name for k in classes if isinstance(k, Builtin)}
        unknown = None
        for k in classes:
            if isinstance(k, ClassVal):
                if isinstance(v, ObjVal) and k.cls in v.cls.mro():
                    return True
                if isinstance(v, Tup) and v.cls == k.cls.name:
                    return True
                if isinstance(v, Tup) and v.cls and v.cls in self.idx.classes and k.cls in self.idx.classes[v.cls].mro():
                    return True
            elif isinstance(k, Builtin):
                r = self._is_builtin_instance(v, k.name, names)
                if r is True:
                    return True
                if r is None:
                    unknown = k.name
            else:
                unknown = repr(k)
        if unknown is not None:
            raise Undecided("isinstance(%r, %s)" % (v, unknown))
        return False

    @staticmethod
    def _is_builtin_instance(v, name, names):
        """True / False / None (not known) for isinstance(v, <builtin type name>)"""
        if name in ("object",):
            return True
        if name == "bool":
            return isinstance(v, bool)
        if name in ("int", "float"):
            if isinstance(v, bool):
                return name == "int"
            if isinstance(v, Lin):
                if {"int", "float"} <= names:
                    return True
                if v.is_const():
                    is_int = v.const.denominator == 1 and not v.is_float
                    return is_int if name == "int" else not is_int
                return True if name == "float" and v.is_float else None  # a symbolic number: int or float is not known
            return False if isinstance(v, (str, Str, Lst, Tup, DictVal, SetVal, ObjVal)) or v is None else None
        kinds = {"tuple": Tup, "list": Lst, "str": (str, Str), "dict": DictVal, "OrderedDict": DictVal, "collections.OrderedDict": DictVal, "set": SetVal, "frozenset": SetVal}
        if name in kinds:
            if isinstance(v, kinds[name]):
                return True
            return False if isinstance(v, (bool, Lin, str, Str, Lst, Tup, DictVal, SetVal, ObjVal)) or v is None else None
        if name in ("bytes", "bytearray"):
            return False if isinstance(v, (bool, Lin, str, Str, Tup, DictVal, SetVal, ObjVal)) or v is None else None  # byte strings are modelled as lists / buffers
        return None

    def _minmax(self, n, args, kwargs, node):
        key = kwargs.get("key")
        if len(args) == 1:
            items = self.iterate(args[0])
        else:
            items = list(args)
        if not items:
            if "default" in kwargs:
                return kwargs["default"]
            raise PyRaise("ValueError", node)
        if key is not None:
            best = items[0]
            bk = self.call_value(key, [best], {})
            for x in items[1:]:
                xk = self.call_value(key, [x], {})
                better = self._lt(xk, bk) if n == "min" else self._lt(bk, xk)
                if better:
                    best, bk = x, xk
            return best
        if all(isinstance(x, str) for x in items):
            return min(items) if n == "min" else max(items)
        if all(isinstance(x, (Lin, int, float)) for x in items):
            lins = [self.num(x) for x in items]
            # drop dominated candidates; keep incomparable ones symbolically
            keep: List[Lin] = []
            for x in lins:
                dominated = False
                newkeep = []
                for y in keep:
                    ss = self.state.signs(x - y)
                    # x is no better than y (ties keep the earlier one, as python does)
                    x_not_better = ss <= (frozenset([0, 1]) if n == "min" else frozenset([0, -1]))
                    # x is at least as good as y in every case (on a tie the two values are equal anyway)
                    y_not_better = ss <= (frozenset([-1, 0]) if n == "min" else frozenset([1, 0]))
                    if x_not_better:
                        dominated = True
                        newkeep.append(y)
                    elif y_not_better:
                        pass  # y is dominated by x: drop y
                    else:
                        newkeep.append(y)
                if not dominated:
                    newkeep.append(x)
                keep = newkeep
            if len(keep) == 1:
                w = keep[0]
                if len(lins) > 1:
                    # exact winner, but the float value is the max/min of all rounded candidates
                    return Lin(w.coef, w.const, (n, tuple(x.tree for x in lins)))
                return w
            return MinMax(n, keep)
        if all(isinstance(x, Tup) for x in items):
            best = items[0]
            for x in items[1:]:
                c = self.tuple_cmp(x, best, node)
                if (n == "min" and c < 0) or (n == "max" and c > 0):
                    best = x
            return best
        raise Undecided("%s over %r" % (n, items))

    def _sort(self, items, key=None, reverse=None):
        out = []
        for x in items:  # stable insertion sort; with reverse, equal keys keep their original order too (as in Python)
            kx = self.call_value(key, [x], {}) if key is not None else x
            pos = len(out)
            for i, (ky, _) in enumerate(out):
                if (self._lt(ky, kx) if reverse is True else self._lt(kx, ky)):
                    pos = i
                    break
            out.insert(pos, (kx, x))
        return [x for _, x in out]

    def _lt(self, a, b) -> bool:
        if isinstance(a, Tup) and isinstance(b, Tup):
            return self.tuple_cmp(a, b) < 0
        if isinstance(a, (Lin, int, float)) and isinstance(b, (Lin, int, float)):
            return self.sign(self.num(a), self.num(b)) < 0
        if isinstance(a, str) and isinstance(b, str):
            return a < b
        raise Undecided("sort comparison of %r and %r" % (a, b))

    def _list_method(self, m, recv: Lst, args, kwargs, node):
        if m == "join" and not recv.items:
            # b"".join(chunks): byte strings are modelled as lists (or abstract buffers); joining concatenates them
            parts = self.iterate(args[0])
            if parts and all(isinstance(p_, BufVal) for p_ in parts):
                return BufVal([sg for p_ in parts for sg in p_.segs])
            if all(isinstance(p_, (Lst, Tup)) for p_ in parts):
                return Lst([x for p_ in parts for x in p_.items])
            raise Undecided("bytes.join over %r" % (parts,))
        if m == "append":
            recv.items.append(args[0])
            return None
        if m == "extend":
            recv.items.extend(self.iterate(args[0]))
            return None
        if m == "insert":
            recv.items.insert(self.index(args[0]), args[1])
            return None
        if m == "pop":
            try:
                return recv.items.pop(self.index(args[0]) if args else -1)
            except IndexError:
                raise PyRaise("IndexError", node)
        if m == "index":
            for i, x in enumerate(recv.items):
                if self.equal(x, args[0]):
                    return Lin.num(i)
            raise PyRaise("ValueError", node)
        if m == "remove":
            for i, x in enumerate(recv.items):
                if self.equal(x, args[0]):
                    del recv.items[i]
                    return None
            raise PyRaise("ValueError", node)
        if m == "sort":
            recv.items[:] = self._sort(recv.items, kwargs.get("key"), kwargs.get("reverse"))
            return None
        if m == "reverse":
            recv.items.reverse()
            return None
        if m == "count":
            return Lin.num(sum(1 for x in recv.items if self.equal(x, args[0])))
        if m == "copy":
            return Lst(recv.items)
        if m == "clear":
            recv.items[:] = []
            return None
        raise Undecided("list.%s" % m)

    def _dict_method(self, m, recv: DictVal, args, kwargs, node):
        if m in ("keys", "values", "items"):
            return DictView(recv, m)
        if m == "get":
            try:
                return recv.d[self.dict_key(recv, args[0])]
            except PyRaise:
                return args[1] if len(args) > 1 else None
        if m == "pop":
            try:
                k = self.dict_key(recv, args[0])
            except PyRaise:
                if len(args) > 1:
                    return args[1]
                raise PyRaise("KeyError", node)
            return recv.d.pop(k)
        if m == "__getitem__":
            return recv.d[self.dict_key(recv, args[0])]
        if m == "__contains__":
            return self._contains(recv, args[0], node)
        if m == "setdefault":
            try:
                return recv.d[self.dict_key(recv, args[0])]
            except PyRaise:
                v = args[1] if len(args) > 1 else None
                recv.d[self.dict_key(recv, args[0], create=True)] = v
                return v
        if m == "update":
            src = args[0] if args else DictVal()
            pairs = list(src.d.items()) if isinstance(src, DictVal) else [tuple(self.iterate(p_)) for p_ in self.iterate(src)]
            for k, v in pairs + list(kwargs.items()):
                recv.d[self.dict_key(recv, k, create=True)] = v
            return None
        if m == "copy":
            r = DictVal()
            r.d = dict(recv.d)
            return r
        if m == "clear":
            recv.d.clear()
            return None
        if m == "popitem":
            if not recv.d:
                raise PyRaise("KeyError", node)
            k = list(recv.d.keys())[-1]
            return Tup([k, recv.d.pop(k)])
        if m == "move_to_end":
            k = self.dict_key(recv, args[0])
            v = recv.d.pop(k)
            last = kwargs.get("last", args[1] if len(args) > 1 else True)
            if last:
                recv.d[k] = v
            else:
                recv.d = dict([(k, v)] + list(recv.d.items()))
            return None
        raise Undecided("dict.%s" % m)

    def _str_method(self, m, recv, args, kwargs, node):
        args = [int(a.const) if isinstance(a, Lin) and a.is_const() and a.const.denominator == 1 else a for a in args]
        if isinstance(recv, str):
            def conc(a):
                if isinstance(a, Tup) and all(isinstance(x, str) for x in a.items):
                    return tuple(a.items)
                return a
            cargs = [conc(a) for a in args]
            if m in ("index", "find", "rfind", "rindex", "count", "split", "rsplit", "partition", "rpartition") and cargs and isinstance(cargs[0], str) and _has_payload(recv):
                self.__dict__.setdefault("scan_log", []).append((m, cargs[0], (self.__dict__.get("frames") or ["?"])[-1]))
            if m == "encode" and all(isinstance(a, str) for a in cargs) and all(isinstance(v, str) for v in kwargs.values()):
                try:
                    return recv.encode(*cargs, **kwargs)
                except (UnicodeError, LookupError) as ex:
                    raise PyRaise(type(ex).__name__, node)
            if m in _PURE_STR_METHODS and all(isinstance(a, (str, int, tuple)) or a is None for a in cargs) and not kwargs:
                try:
                    r = getattr(recv, m)(*cargs)
                except ValueError:
                    raise PyRaise("ValueError", node)
                except (TypeError, IndexError) as ex:
                    raise PyRaise(type(ex).__name__, node)
                if isinstance(r, bool):
                    return r
                if isinstance(r, int):
                    return Lin.num(r)
                if isinstance(r, tuple):
                    return Tup(list(r))
                return Lst(r) if isinstance(r, list) else r
            if m == "format":
                f = self._str_format(recv, args, kwargs)
                if f is not None:
                    return f
            if all(isinstance(a, (str, int)) for a in args) and m in ("strip", "lower", "upper", "split", "replace", "startswith", "endswith", "rstrip", "lstrip", "rfind", "find", "index", "count", "isdigit", "splitlines"):
                try:
                    r = getattr(recv, m)(*args)
                except ValueError:
                    raise PyRaise("ValueError", node)
                if isinstance(r, bool):
                    return r
                if isinstance(r, int):
                    return Lin.num(r)
                return Lst(r) if isinstance(r, list) else r
            if m == "join":
                parts = self.iterate(args[0])
                if all(isinstance(p, str) for p in parts):
                    return recv.join(parts)
                return mkjoin(recv, parts)
            if m == "format":
                return Str("opaque", ("fmt",))
        if isinstance(recv, Str):
            if m == "strip" and not args:
                if recv.kind == "var":
                    return recv  # generic labels are already normalised (precondition of every property)
                if recv.kind == "raw":
                    return Str("var", ("strip(%s)" % recv.parts[0],))  # normalising a raw label yields a normalised one
                if recv.kind == "cat":
                    parts = list(recv.parts)
                    while parts and isinstance(parts[0], str):
                        parts[0] = parts[0].lstrip()
                        if parts[0]:
                            break
                        parts.pop(0)
                    while parts and isinstance(parts[-1], str):
                        parts[-1] = parts[-1].rstrip()
                        if parts[-1]:
                            break
                        parts.pop()
                    if all(isinstance(x, str) or (isinstance(x, Str) and x.kind == "var") for x in parts[:1] + parts[-1:]):
                        return mkcat(parts)
                return Str("strip", (recv,))
            if m == "join":
                return mkjoin(recv, self.iterate(args[0]))
            if m == "replace" and args == ['"', '""']:
                # quote doubling of a symbolic text: every quote of the argument becomes a pair
                if recv.kind in ("var", "raw"):
                    return Str("esc", (recv,))
                if recv.kind == "cat":
                    return mkcat([p.replace('"', '""') if isinstance(p, str) else self._str_method("replace", p, args, kwargs, node) for p in recv.parts])
        raise Undecided("str.%s on %r" % (m, recv))

    def _str_format(self, fmt: str, args, kwargs):
        """str.format with plain fields ({} {0} {name}, optional !s/!r, no format spec) over concrete or symbolic values."""
        import string as _string

        def conc(v):
            if isinstance(v, Lin) and v.is_const():
                return int(v.const) if v.const.denominator == 1 and not v.is_float else float(v.const)
            if isinstance(v, (str, int, float)) or v is None:
                return v
            raise KeyError
        try:
            # everything concrete: Python's own formatting (format specs, conversions, attribute-free fields)
            return fmt.format(*[conc(a) for a in args], **{k: conc(v) for k, v in kwargs.items()})
        except KeyError:
            pass
        except (ValueError, IndexError, TypeError) as ex:
            raise PyRaise(type(ex).__name__)
        out, auto = [], 0
        try:
            parsed = list(_string.Formatter().parse(fmt))
        except ValueError:
            raise PyRaise("ValueError")
        for lit, field, spec, conv in parsed:
            if lit:
                out.append(lit)
            if field is None:
                continue
            if spec or (conv not in (None, "s", "r")) or any(c in field for c in ".["):
                return None
            if field == "":
                if auto >= len(args):
                    raise PyRaise("IndexError")
                v = args[auto]
                auto += 1
            elif field.isdigit():
                if int(field) >= len(args):
                    raise PyRaise("IndexError")
                v = args[int(field)]
            else:
                if field not in kwargs:
                    raise PyRaise("KeyError")
                v = kwargs[field]
            if isinstance(v, str):
                out.append(repr(v) if conv == "r" else v)
            elif isinstance(v, Str):
                if conv == "r":
                    return None
                out.append(v)
            elif isinstance(v, Lin):
                out.append(str(int(v.const)) if v.is_const() and v.const.denominator == 1 and not getattr(v, "is_float", False) else Str("num", (v,)))
            elif isinstance(v, bool) or v is None:
                out.append(str(v))
            elif isinstance(v, (int, float)):
                out.append(str(v))
            else:
                out.append(_StrOf(v))
        return mkcat(out)

    def deepcopy(self, v):
        memo = {}

        def cp(x):
            if isinstance(x, Lst):
                if id(x) in memo:
                    return memo[id(x)]
                r = Lst([])
                memo[id(x)] = r
                r.items = [cp(i) for i in x.items]
                return r
            if isinstance(x, DictVal):
                r = DictVal()
                memo[id(x)] = r
                r.d = {k: cp(val) for k, val in x.d.items()}
                return r
            if isinstance(x, ObjVal):
                if id(x) in memo:
                    return memo[id(x)]
                r = ObjVal(x.cls)
                memo[id(x)] = r
                r.attrs = {k: cp(val) for k, val in x.attrs.items()}
                return r
            if isinstance(x, Tup):
                return Tup([cp(i) for i in x.items], x.cls)
            if isinstance(x, SetVal):
                return SetVal([cp(i) for i in x.items])
            return x

        return cp(v)


class _ModuleFn:
    """Minimal stand-in for FuncInfo when evaluating module/class level constants."""

    def __init__(self, mod):
        self.module = mod
        self.self_name = None
        self.cls = None


class _StrOf(Str):
    def __init__(self, v):
        Str.__init__(self, "of", (repr(v),))


def mkcat(parts):
    flat = []
    for p in parts:
        if isinstance(p, Str) and p.kind == "cat":
            flat.extend(p.parts)
        else:
            flat.append(p)
    # merge adjacent literals
    out = []
    for p in flat:
        if isinstance(p, str) and out and isinstance(out[-1], str):
            out[-1] += p
        elif p != "":
            out.append(p)
    if not out:
        return ""
    if len(out) == 1:
        return out[0]
    return Str("cat", out)


def mkjoin(sep, parts):
    parts = list(parts)
    if not parts:
        return ""
    if len(parts) == 1:
        return parts[0]
    seq = []
    for i, p in enumerate(parts):
        if i:
            seq.append(sep)
        seq.append(p)
    return mkcat(seq)


def _load(t):
    import copy as _c

    n = _c.copy(t)
    n.ctx = ast.Load()
    return n


EXT_CONSTS = {
    "sys.float_info.epsilon": Fraction(1, 2 ** 52),
    "sys.float_info.min": Fraction(1, 2 ** 1022),
    "math.pi": Fraction(884279719003555, 281474976710656),
    "re.MULTILINE": Fraction(8), "re.M": Fraction(8), "re.DOTALL": Fraction(16), "re.S": Fraction(16), "re.IGNORECASE": Fraction(2), "re.I": Fraction(2),
    "re.VERBOSE": Fraction(64), "re.X": Fraction(64), "re.ASCII": Fraction(256), "re.A": Fraction(256), "re.UNICODE": Fraction(32), "re.U": Fraction(32),
}

_BUILTIN_NAMES = {
    "len", "min", "max", "float", "int", "abs", "isinstance", "list", "tuple", "sorted", "reversed", "set", "enumerate",
    "zip", "range", "any", "all", "print", "str", "repr", "type", "filter", "map", "round", "dict", "frozenset", "iter", "bool",
    "next", "sum", "divmod", "callable", "pow", "getattr", "setattr", "hasattr", "slice", "bytes", "bytearray", "object",
}
_BUILTIN_EXC = {"ValueError", "IndexError", "KeyError", "TypeError", "Exception", "NotImplementedError", "AssertionError", "UnicodeError", "RuntimeError", "AttributeError"}
