"""R-D driver: enumerate abstract states, run code (abstract interpreter) and spec, compare."""

import time
from typing import Callable, Dict, List, Optional, Tuple

from .absint import (DontCare, NeedSplit, DictVal, ExcVal, Interp, Lin, Lst, MinMax, ObjVal, PyRaise, SetVal, State, Str, Tup, feasible,
                     label_var, weak_orders)
from .index import Index, Undecided


class Atoms:
    """Declared atoms and order constraints of one abstract domain."""

    def __init__(self):
        self.names: List[str] = []
        self.lins: List[Lin] = []
        self.cons: List[Tuple[int, str, int]] = []
        self.side: List[Tuple[Lin, bool]] = []
        self.derived = False

    def var(self, name) -> Lin:
        if name not in self.names:
            self.names.append(name)
            self.lins.append(Lin.var(name))
        return self.lins[self.names.index(name)]

    def const(self, c, name=None) -> Lin:
        name = name or str(c)
        if name not in self.names:
            self.names.append(name)
            self.lins.append(Lin.num(c))
            self.derived = True
        return self.lins[self.names.index(name)]

    def derived_atom(self, name, lin: Lin) -> Lin:
        if name not in self.names:
            self.names.append(name)
            self.lins.append(Lin(lin.coef, lin.const, lin.tree))
            self.derived = True
        return self.lins[self.names.index(name)]

    def rel(self, a: str, op: str, b: str):
        self.cons.append((self.names.index(a), op, self.names.index(b)))

    def chain(self, names: List[str], ops: List[str]):
        for (x, y), op in zip(zip(names, names[1:]), ops):
            self.rel(x, op, y)

    def fact_le(self, a: Lin, b: Lin):
        """side fact a <= b between linear forms that need not be atoms."""
        self.side.append((a - b, False))

    def fact_lt(self, a: Lin, b: Lin):
        self.side.append((a - b, True))

    def raw(self):
        """rank vectors satisfying the declared order constraints (feasibility not yet checked)."""
        return list(weak_orders(len(self.names), self.cons))

    def make_state(self, ranks):
        atoms = list(zip(self.names, self.lins))
        if (self.derived or self.side) and not feasible(atoms, ranks, self.side):
            return None
        return State(atoms, list(ranks), self.side)

    def states(self):
        for ranks in self.raw():
            st = self.make_state(ranks)
            if st is not None:
                yield st


class Outcome:
    def __init__(self, kind, value=None, prints=0):
        self.kind = kind  # 'ok' | 'raise' | 'undecided'
        self.value = value
        self.prints = prints

    def __repr__(self):
        return "%s:%r" % (self.kind, self.value)


def run_code(idx: Index, state: State, thunk: Callable[[Interp], object], overrides=None) -> Tuple[Outcome, Interp]:
    I = Interp(idx, state, overrides=overrides or default_overrides())
    try:
        v = thunk(I)
        return Outcome("ok", v, I.prints), I
    except PyRaise as e:
        return Outcome("raise", e.name, I.prints), I
    except DontCare as e:
        return Outcome("dontcare", str(e)), I
    except NeedSplit as e:
        return Outcome("split", e), I
    except Undecided as e:
        return Outcome("undecided", str(e)), I
    except RecursionError:
        return Outcome("undecided", "recursion limit"), I


def run_spec(idx: Index, state: State, thunk: Callable[["Oracle"], object]) -> Outcome:
    O = Oracle(idx, state)
    try:
        return Outcome("ok", thunk(O))
    except SpecRaise as e:
        return Outcome("raise", e.name)
    except DontCare as e:
        return Outcome("dontcare", str(e))
    except NeedSplit as e:
        return Outcome("split", e)
    except Undecided as e:
        return Outcome("undecided", "spec: " + str(e))


class SpecRaise(Exception):
    def __init__(self, name):
        Exception.__init__(self, name)
        self.name = name


class Oracle:
    """Comparison oracle handed to the hand-written spec functions."""

    def __init__(self, idx, state):
        self.I = Interp(idx, state)
        self.state = state

    def sgn(self, a, b=None):
        a = self.I.num(a)
        return self.I.sign(a, self.I.num(b) if b is not None else None)

    def lt(self, a, b):
        return self.sgn(a, b) < 0

    def le(self, a, b):
        return self.sgn(a, b) <= 0

    def eq(self, a, b):
        return self.sgn(a, b) == 0

    def gt(self, a, b):
        return self.sgn(a, b) > 0

    def ge(self, a, b):
        return self.sgn(a, b) >= 0

    def mx(self, *xs):
        return self.I._minmax("max", [Lst([self.I.num(x) for x in xs])], {}, None)

    def mn(self, *xs):
        return self.I._minmax("min", [Lst([self.I.num(x) for x in xs])], {}, None)

    def raise_(self, name):
        raise SpecRaise(name)


def default_overrides():
    """Idealised models of repository helpers (stated assumptions, exact real arithmetic)."""

    def isclose(I, args, kwargs):
        # tolerance-based closeness is abstracted to exact equality of reals
        I.tolerance_calls = getattr(I, "tolerance_calls", 0) + 1
        return I.equal(args[0], args[1])

    return {"my_math.isclose": isclose}


# ------------------------------------------------------------------ canonical comparison


def num_equal(I: Interp, a, b) -> bool:
    if isinstance(a, MinMax) or isinstance(b, MinMax):
        if isinstance(a, MinMax) and isinstance(b, MinMax):
            if a.op != b.op or len(a.args) != len(b.args):
                return False
            rest = list(b.args)
            for x in a.args:
                hit = None
                for y in rest:
                    if num_equal(I, x, y):
                        hit = y
                        break
                if hit is None:
                    return False
                rest.remove(hit)
            return True
        return False
    a, b = I.num(a), I.num(b)
    if a.same(b):
        return True
    return I.state.signs(a - b) == frozenset([0])


def label_equal(a, b) -> bool:
    ka = a.key() if isinstance(a, Str) else a
    kb = b.key() if isinstance(b, Str) else b
    return ka == kb


def entry_equal(I, x, y) -> bool:
    xi = x.items if isinstance(x, Tup) else list(x)
    yi = y.items if isinstance(y, Tup) else list(y)
    if len(xi) != len(yi):
        return False
    for p, q in zip(xi[:-1], yi[:-1]):
        if not num_equal(I, p, q):
            return False
    return label_equal(xi[-1], yi[-1])


def show(v) -> str:
    if isinstance(v, Tup):
        return "(" + ", ".join(show(i) for i in v.items) + ")"
    if isinstance(v, (list, tuple)):
        return "[" + ", ".join(show(i) for i in v) + "]" if isinstance(v, list) else "(" + ", ".join(show(i) for i in v) + ")"
    if isinstance(v, Lst):
        return "[" + ", ".join(show(i) for i in v.items) + "]"
    if isinstance(v, dict):
        return "{" + ", ".join("%s: %s" % (k, show(x)) for k, x in v.items()) + "}"
    return repr(v)


# ------------------------------------------------------------------ tier helpers


def mk_entries(k: int, kind: str, prefix="") -> Tuple[List[Tuple], List[str]]:
    """k generic entries; returns (entries as python tuples of Lin/label, atom names in time order)."""
    ents, names = [], []
    for i in range(1, k + 1):
        if kind == "interval":
            s, e = "%ss%d" % (prefix, i), "%se%d" % (prefix, i)
            ents.append((Lin.var(s), Lin.var(e), label_var("%sl%d" % (prefix, i))))
            names += [s, e]
        else:
            t = "%st%d" % (prefix, i)
            ents.append((Lin.var(t), label_var("%sl%d" % (prefix, i))))
            names.append(t)
    return ents, names


def declare_tier(at: Atoms, k: int, kind: str, prefix="", span=True, as_atoms=True, span_atoms=True):
    """A well-formed tier: m <= s1 < e1 <= s2 < ... <= M (points: t1 < t2 < ...).
    as_atoms=False: the entry boundaries are free symbols constrained by side facts only (use when the
    operation never compares them with anything but each other)."""
    ents, names = mk_entries(k, kind, prefix)
    lin = {n: Lin.var(n) for n in names}
    if as_atoms:
        for n in names:
            at.var(n)

    def lt(x, y):
        if as_atoms:
            at.rel(x, "<", y)
        else:
            at.fact_lt(lin[x], lin[y])

    def le(x, y):
        if as_atoms:
            at.rel(x, "<=", y)
        else:
            at.fact_le(lin[x], lin[y])

    if kind == "interval":
        for i in range(1, k + 1):
            lt("%ss%d" % (prefix, i), "%se%d" % (prefix, i))
        for i in range(1, k):
            le("%se%d" % (prefix, i), "%ss%d" % (prefix, i + 1))
    else:
        for i in range(1, k):
            lt("%st%d" % (prefix, i), "%st%d" % (prefix, i + 1))
    m = M = None
    if span:
        if span_atoms:
            m, M = at.var(prefix + "m"), at.var(prefix + "M")
            at.rel(prefix + "m", "<=", prefix + "M")
        else:
            m, M = Lin.var(prefix + "m"), Lin.var(prefix + "M")
            at.fact_le(m, M)
        if names:
            if as_atoms and span_atoms:
                at.rel(prefix + "m", "<=", names[0])
                at.rel(names[-1], "<=", prefix + "M")
            else:
                at.fact_le(m, lin[names[0]])
                at.fact_le(lin[names[-1]], M)
    return ents, m, M


def build_tier(I: Interp, kind: str, name, ents, m, M):
    cls = I.idx.cls("IntervalTier" if kind == "interval" else "PointTier")
    entries = Lst([Tup(list(e)) for e in ents])
    return I.instantiate(cls, [name, entries, m, M], {})


def read_tier(I: Interp, obj) -> Dict:
    if not isinstance(obj, ObjVal):
        raise Undecided("result is not a tier object: %r" % (obj,))
    ents = I.getattr(obj, "entries")
    return {
        "class": obj.cls.name,
        "name": I.getattr(obj, "name"),
        "entries": [Tup(list(e.items), e.cls) for e in I.iterate(ents)],
        "min": I.getattr(obj, "minTimestamp"),
        "max": I.getattr(obj, "maxTimestamp"),
    }


def tier_equal(I: Interp, got: Dict, want: Dict, check_span=True) -> Optional[str]:
    """None if equal, else a description of the first difference."""
    if "class" in want and got["class"] != want["class"]:
        return "class %s != %s" % (got["class"], want["class"])
    if "name" in want and not label_equal(got["name"], want["name"]):
        return "name %r != %r" % (got["name"], want["name"])
    if len(got["entries"]) != len(want["entries"]):
        return "entry count %d != %d (code %s, spec %s)" % (len(got["entries"]), len(want["entries"]), show(got["entries"]), show(want["entries"]))
    for i, (x, y) in enumerate(zip(got["entries"], want["entries"])):
        if not entry_equal(I, x, y):
            return "entry %d: code %s, spec %s" % (i, show(x), show(y))
    if check_span:
        for k in ("min", "max"):
            if k in want and want[k] is not None and not num_equal(I, got[k], want[k]):
                return "span %s: code %r, spec %r" % (k, got[k], want[k])
    return None


_ROW_FN = None
_ATOMS = None


def refine(st, lin, sign):
    """The sub-state of st in which lin has the given sign (lazy refinement of the abstract domain)."""
    side = list(st.side)
    if sign < 0:
        side.append((lin, True))
    elif sign > 0:
        side.append((lin.neg(), True))
    else:
        side.append((lin, False))
        side.append((lin.neg(), False))
    st2 = State(st.atoms, st.ranks, side)
    st2.refined = getattr(st, "refined", ()) + ("%r %s 0" % (lin, "<=>"[sign + 1]),)
    return st2


MAX_REFINE_DEPTH = 10


def expand(st, row_fn, only=None, depth=0):
    """Rows of one abstract state; comparisons the state leaves open split it into sub-states."""
    rows = row_fn(st)
    case = st.describe() + ("".join("; " + r for r in getattr(st, "refined", ())))
    out, pending = [], {}
    for row in rows:
        mode, ok, detail, und = row
        if only is not None and mode not in only:
            continue
        if isinstance(und, NeedSplit):
            if depth >= MAX_REFINE_DEPTH:
                out.append((case, (mode, False, "", "refinement depth exceeded: " + str(und))))
                continue
            k = und.lin.key()
            pending.setdefault(k, (und.lin, []))[1].append(mode)
        else:
            out.append((case, row))
    for lin, modes in pending.values():
        for sg in sorted(st.signs(lin)):
            out.extend(expand(refine(st, lin, sg), row_fn, set(modes), depth + 1))
    return out


def _worker(chunk):
    out = []
    for ranks in chunk:
        st = _ATOMS.make_state(ranks)
        if st is None:
            continue
        out.append((st.describe(), expand(st, _ROW_FN)))
    return out


def run_states(at, row_fn, tr, parallel_threshold=6):
    """row_fn(state) -> list of (mode, ok, detail, undecided).  Uses all cores for large tables.
    `at` is an Atoms object (feasibility of each weak order is checked inside the workers)."""
    import multiprocessing as mp
    import os

    global _ROW_FN, _ATOMS
    if not isinstance(at, Atoms):
        states = list(at)
        tr.states += len(states)
        for st in states:
            for case, (mode, ok, detail, undecided) in expand(st, row_fn):
                tr.row(case, mode, ok, detail, undecided)
        return
    raw = at.raw()
    results = []
    ncpu = min(16, os.cpu_count() or 1)
    _ROW_FN, _ATOMS = row_fn, at
    if len(raw) >= parallel_threshold and ncpu > 1 and not os.environ.get("VP_SERIAL"):
        nchunks = ncpu * 4
        chunks = [raw[i::nchunks] for i in range(nchunks)]
        chunks = [c for c in chunks if c]
        ctx = mp.get_context("fork")
        with ctx.Pool(ncpu) as pool:
            for part in pool.map(_worker, chunks):
                results.extend(part)
        results.sort(key=lambda r: r[0])
    else:
        results = _worker(raw)
    tr.states += len(results)
    for _, rows in results:
        for case, (mode, ok, detail, undecided) in rows:
            tr.row(case, mode, ok, detail, undecided)


def compare_outcomes(I, mode, got, want, check_span=True, eq=None, strict_ties=False):
    """-> (mode, ok, detail, undecided) row."""
    if want.kind == "dontcare":
        return (mode, True, "dontcare", None)
    if got.kind == "dontcare" and strict_ties:
        # the code had to order two entries with identical times by their labels although the spec has a definite
        # result for this case: the code produced (or sorted) duplicate times where none should exist
        if want.kind in ("ok", "raise"):
            return (mode, False, "code compares the labels of two entries with identical times (%s); spec %s" % (got.value, fmt_outcome(want)), None)
        return (mode, True, "dontcare", None)
    if got.kind == "dontcare":
        return (mode, True, "dontcare", None)
    if got.kind == "split" or want.kind == "split":
        return (mode, False, "", got.value if got.kind == "split" else want.value)
    if got.kind == "undecided" or want.kind == "undecided":
        return (mode, False, "", got.value if got.kind == "undecided" else want.value)
    if got.kind != want.kind:
        return (mode, False, "code %s, spec %s" % (fmt_outcome(got), fmt_outcome(want)), None)
    if got.kind == "raise":
        if want.value == "ANY-EXC":
            return (mode, True, "", None)
        if want.value == "ANY":  # the property says 'rejected' / 'raises' without naming the error: any praatio error
            ok = got.value in praatio_error_names(I.idx)
            return (mode, ok, "code raises %s, which is not a praatio error" % got.value, None)
        return (mode, got.value == want.value, "code raises %s, spec raises %s" % (got.value, want.value), None)
    diff = (eq or (lambda I, g, w: tier_equal(I, g, w, check_span)))(I, got.value, want.value)
    return (mode, diff is None, diff or "", None)


_PE = {}


def praatio_error_names(idx):
    if id(idx) not in _PE:
        try:
            _PE[id(idx)] = set(idx.module("utilities.errors").classes)
        except Exception:
            _PE[id(idx)] = set()
    return _PE[id(idx)]


def fmt_outcome(o):
    if o.kind == "raise":
        return "raises " + str(o.value)
    if o.kind == "ok" and isinstance(o.value, dict) and "entries" in o.value:
        return "returns entries %s span (%r, %r)" % (show(o.value.get("entries")), o.value.get("min"), o.value.get("max"))
    if o.kind == "ok":
        return "returns " + show(o.value)
    return repr(o)


class TableRun:
    """Accumulates the per-state verdicts of one table for the reporter."""

    def __init__(self, rep, rule: str, where: str, loc: str = ""):
        self.rep = rep
        self.rule = rule
        self.where = where
        self.loc = loc
        self.states = 0
        self.rows = 0
        self.bad = 0
        self.undecided = 0
        self.t0 = time.time()
        self.first_undecided = None

    def row(self, case: str, mode, ok: bool, detail: str = "", undecided: Optional[str] = None):
        self.rows += 1
        if ok and not undecided and detail != "dontcare" and len(getattr(self, "sample_rows", [])) < 3 and self.rows % 7 == 1:
            self.__dict__.setdefault("sample_rows", []).append({"abstract_case": case, "mode": repr(mode), "verdict": "agrees with spec"})
        if ok and detail == "dontcare":
            self.skipped = getattr(self, "skipped", 0) + 1
            return
        if undecided and getattr(self, "bounded_depth", False) and str(undecided).startswith("refinement depth exceeded"):
            # a table that deliberately follows only the first rounds of an unbounded loop: deeper cases are not followed
            self.skipped = getattr(self, "skipped", 0) + 1
            return
        if undecided:
            self.undecided += 1
            if self.first_undecided is None:
                self.first_undecided = (case, mode, undecided)
            return
        if not ok:
            self.bad += 1
            if self.bad <= 6:
                self.rep.refuted(self.rule, self.where, "mode=%s" % (mode,), detail, case=case, loc=self.loc)

    def done(self, what: str):
        if self.undecided:
            c, m, u = self.first_undecided
            self.rep.undecided(self.rule, self.where, what, "%d of %d abstract cases not decided; first: mode=%s case %s: %s" % (self.undecided, self.rows, m, c, u), loc=self.loc)
        if self.bad > 6:
            self.rep.refuted(self.rule, self.where, what, "%d further abstract cases disagree with the spec table" % (self.bad - 6), loc=self.loc)
        if not self.bad and not self.undecided:
            self.rep.proved(self.rule, self.where, what, "%d abstract cases (weak orders x modes) agree with the spec table%s" % (self.rows, (" (%d unconstrained tie cases skipped)" % self.skipped) if getattr(self, "skipped", 0) else ""), loc=self.loc)
        t = self.rep.extra.setdefault("tables", {})
        t["%s %s %s #%d" % (self.rule, self.where, what, len(t))] = {"cases": self.rows, "abstract_states": self.states, "disagree": self.bad, "undecided": self.undecided,
                                                                      "skipped_unconstrained_ties": getattr(self, "skipped", 0), "wall_s": round(time.time() - self.t0, 2),
                                                                      "samples": getattr(self, "sample_rows", [])}
