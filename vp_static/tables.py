"""R-D driver: enumerate abstract states, run code (abstract interpreter) and spec, compare."""

import time
from typing import Callable, Dict, List, Optional, Tuple

from .absint import (DictVal, ExcVal, Interp, Lin, Lst, MinMax, ObjVal, PyRaise, SetVal, State, Str, Tup, feasible,
                     label_var, weak_orders)
from .index import Index, Undecided


class Atoms:
    """Declared atoms and order constraints of one abstract domain."""

    def __init__(self):
        self.names: List[str] = []
        self.lins: List[Lin] = []
        self.cons: List[Tuple[int, str, int]] = []
        self.derived = False

    def var(self, name) -> Lin:
        if name not in self.names:
            self.names.append(name)
            self.lins.append(Lin.var(name))
        return self.lins[self.names.index(name)]

    def const(self, c, name=None) -> Lin:
        name = name or str(c)
        if name not in self.names:
            self.names.append(name)
            self.lins.append(Lin.num(c))
            self.derived = True
        return self.lins[self.names.index(name)]

    def derived_atom(self, name, lin: Lin) -> Lin:
        if name not in self.names:
            self.names.append(name)
            self.lins.append(Lin(lin.coef, lin.const, lin.tree))
            self.derived = True
        return self.lins[self.names.index(name)]

    def rel(self, a: str, op: str, b: str):
        self.cons.append((self.names.index(a), op, self.names.index(b)))

    def chain(self, names: List[str], ops: List[str]):
        for (x, y), op in zip(zip(names, names[1:]), ops):
            self.rel(x, op, y)

    def states(self):
        atoms = list(zip(self.names, self.lins))
        for ranks in weak_orders(len(atoms), self.cons):
            if self.derived and not feasible(atoms, ranks):
                continue
            yield State(atoms, list(ranks))


class Outcome:
    def __init__(self, kind, value=None, prints=0):
        self.kind = kind  # 'ok' | 'raise' | 'undecided'
        self.value = value
        self.prints = prints

    def __repr__(self):
        return "%s:%r" % (self.kind, self.value)


def run_code(idx: Index, state: State, thunk: Callable[[Interp], object], overrides=None) -> Tuple[Outcome, Interp]:
    I = Interp(idx, state, overrides=overrides or default_overrides())
    try:
        v = thunk(I)
        return Outcome("ok", v, I.prints), I
    except PyRaise as e:
        return Outcome("raise", e.name, I.prints), I
    except Undecided as e:
        return Outcome("undecided", str(e)), I
    except RecursionError:
        return Outcome("undecided", "recursion limit"), I


def run_spec(idx: Index, state: State, thunk: Callable[["Oracle"], object]) -> Outcome:
    O = Oracle(idx, state)
    try:
        return Outcome("ok", thunk(O))
    except SpecRaise as e:
        return Outcome("raise", e.name)
    except Undecided as e:
        return Outcome("undecided", "spec: " + str(e))


class SpecRaise(Exception):
    def __init__(self, name):
        Exception.__init__(self, name)
        self.name = name


class Oracle:
    """Comparison oracle handed to the hand-written spec functions."""

    def __init__(self, idx, state):
        self.I = Interp(idx, state)
        self.state = state

    def sgn(self, a, b=None):
        a = self.I.num(a)
        return self.I.sign(a, self.I.num(b) if b is not None else None)

    def lt(self, a, b):
        return self.sgn(a, b) < 0

    def le(self, a, b):
        return self.sgn(a, b) <= 0

    def eq(self, a, b):
        return self.sgn(a, b) == 0

    def gt(self, a, b):
        return self.sgn(a, b) > 0

    def ge(self, a, b):
        return self.sgn(a, b) >= 0

    def mx(self, *xs):
        return self.I._minmax("max", [Lst([self.I.num(x) for x in xs])], {}, None)

    def mn(self, *xs):
        return self.I._minmax("min", [Lst([self.I.num(x) for x in xs])], {}, None)

    def raise_(self, name):
        raise SpecRaise(name)


def default_overrides():
    """Idealised models of repository helpers (stated assumptions, exact real arithmetic)."""

    def isclose(I, args, kwargs):
        # tolerance-based closeness is abstracted to exact equality of reals
        return I.equal(args[0], args[1])

    return {"my_math.isclose": isclose}


# ------------------------------------------------------------------ canonical comparison


def num_equal(I: Interp, a, b) -> bool:
    if isinstance(a, MinMax) or isinstance(b, MinMax):
        if isinstance(a, MinMax) and isinstance(b, MinMax):
            if a.op != b.op or len(a.args) != len(b.args):
                return False
            rest = list(b.args)
            for x in a.args:
                hit = None
                for y in rest:
                    if num_equal(I, x, y):
                        hit = y
                        break
                if hit is None:
                    return False
                rest.remove(hit)
            return True
        return False
    a, b = I.num(a), I.num(b)
    if a.same(b):
        return True
    s = I.state.sign(a - b)
    return s == 0


def label_equal(a, b) -> bool:
    ka = a.key() if isinstance(a, Str) else a
    kb = b.key() if isinstance(b, Str) else b
    return ka == kb


def entry_equal(I, x, y) -> bool:
    xi = x.items if isinstance(x, Tup) else list(x)
    yi = y.items if isinstance(y, Tup) else list(y)
    if len(xi) != len(yi):
        return False
    for p, q in zip(xi[:-1], yi[:-1]):
        if not num_equal(I, p, q):
            return False
    return label_equal(xi[-1], yi[-1])


def show(v) -> str:
    if isinstance(v, Tup):
        return "(" + ", ".join(show(i) for i in v.items) + ")"
    if isinstance(v, (list, tuple)):
        return "[" + ", ".join(show(i) for i in v) + "]" if isinstance(v, list) else "(" + ", ".join(show(i) for i in v) + ")"
    if isinstance(v, Lst):
        return "[" + ", ".join(show(i) for i in v.items) + "]"
    if isinstance(v, dict):
        return "{" + ", ".join("%s: %s" % (k, show(x)) for k, x in v.items()) + "}"
    return repr(v)


# ------------------------------------------------------------------ tier helpers


def mk_entries(k: int, kind: str, prefix="") -> Tuple[List[Tuple], List[str]]:
    """k generic entries; returns (entries as python tuples of Lin/label, atom names in time order)."""
    ents, names = [], []
    for i in range(1, k + 1):
        if kind == "interval":
            s, e = "%ss%d" % (prefix, i), "%se%d" % (prefix, i)
            ents.append((Lin.var(s), Lin.var(e), label_var("%sl%d" % (prefix, i))))
            names += [s, e]
        else:
            t = "%st%d" % (prefix, i)
            ents.append((Lin.var(t), label_var("%sl%d" % (prefix, i))))
            names.append(t)
    return ents, names


def declare_tier(at: Atoms, k: int, kind: str, prefix="", span=True):
    """Declare atoms for a well-formed tier: m <= s1 < e1 <= s2 < ... <= M (points: t1 < t2 < ...)."""
    ents, names = mk_entries(k, kind, prefix)
    for n in names:
        at.var(n)
    if kind == "interval":
        for i in range(1, k + 1):
            at.rel("%ss%d" % (prefix, i), "<", "%se%d" % (prefix, i))
        for i in range(1, k):
            at.rel("%se%d" % (prefix, i), "<=", "%ss%d" % (prefix, i + 1))
    else:
        for i in range(1, k):
            at.rel("%st%d" % (prefix, i), "<", "%st%d" % (prefix, i + 1))
    m = M = None
    if span:
        m, M = at.var(prefix + "m"), at.var(prefix + "M")
        at.rel(prefix + "m", "<=", prefix + "M")
        if names:
            at.rel(prefix + "m", "<=", names[0])
            at.rel(names[-1], "<=", prefix + "M")
    return ents, m, M


def build_tier(I: Interp, kind: str, name, ents, m, M):
    cls = I.idx.cls("IntervalTier" if kind == "interval" else "PointTier")
    entries = Lst([Tup(list(e)) for e in ents])
    return I.instantiate(cls, [name, entries, m, M], {})


def read_tier(I: Interp, obj) -> Dict:
    if not isinstance(obj, ObjVal):
        raise Undecided("result is not a tier object: %r" % (obj,))
    ents = I.getattr(obj, "entries")
    return {
        "class": obj.cls.name,
        "name": I.getattr(obj, "name"),
        "entries": [Tup(list(e.items), e.cls) for e in I.iterate(ents)],
        "min": I.getattr(obj, "minTimestamp"),
        "max": I.getattr(obj, "maxTimestamp"),
    }


def tier_equal(I: Interp, got: Dict, want: Dict, check_span=True) -> Optional[str]:
    """None if equal, else a description of the first difference."""
    if "class" in want and got["class"] != want["class"]:
        return "class %s != %s" % (got["class"], want["class"])
    if "name" in want and not label_equal(got["name"], want["name"]):
        return "name %r != %r" % (got["name"], want["name"])
    if len(got["entries"]) != len(want["entries"]):
        return "entry count %d != %d (code %s, spec %s)" % (len(got["entries"]), len(want["entries"]), show(got["entries"]), show(want["entries"]))
    for i, (x, y) in enumerate(zip(got["entries"], want["entries"])):
        if not entry_equal(I, x, y):
            return "entry %d: code %s, spec %s" % (i, show(x), show(y))
    if check_span:
        for k in ("min", "max"):
            if k in want and want[k] is not None and not num_equal(I, got[k], want[k]):
                return "span %s: code %r, spec %r" % (k, got[k], want[k])
    return None


class TableRun:
    """Accumulates the per-state verdicts of one table for the reporter."""

    def __init__(self, rep, rule: str, where: str, loc: str = ""):
        self.rep = rep
        self.rule = rule
        self.where = where
        self.loc = loc
        self.states = 0
        self.rows = 0
        self.bad = 0
        self.undecided = 0
        self.t0 = time.time()
        self.first_undecided = None

    def row(self, case: str, mode, ok: bool, detail: str = "", undecided: Optional[str] = None):
        self.rows += 1
        if undecided:
            self.undecided += 1
            if self.first_undecided is None:
                self.first_undecided = (case, mode, undecided)
            return
        if not ok:
            self.bad += 1
            if self.bad <= 6:
                self.rep.refuted(self.rule, self.where, "mode=%s" % (mode,), detail, case=case, loc=self.loc)

    def done(self, what: str):
        if self.undecided:
            c, m, u = self.first_undecided
            self.rep.undecided(self.rule, self.where, what, "%d of %d abstract cases not decided; first: mode=%s case %s: %s" % (self.undecided, self.rows, m, c, u), loc=self.loc)
        if self.bad > 6:
            self.rep.refuted(self.rule, self.where, what, "%d further abstract cases disagree with the spec table" % (self.bad - 6), loc=self.loc)
        if not self.bad and not self.undecided:
            self.rep.proved(self.rule, self.where, what, "%d abstract cases (weak orders x modes) agree with the spec table" % self.rows, loc=self.loc)
        t = self.rep.extra.setdefault("tables", {})
        t[self.rule + " " + self.where + " " + what] = {"cases": self.rows, "disagree": self.bad, "undecided": self.undecided, "wall_s": round(time.time() - self.t0, 2)}
