"""E7 / R-G -- float-order prover.

Goal: for two output boundaries u, v that the tier invariant orders u <= v, prove
fl(u) <= fl(v) from their evaluation trees using only facts that hold in IEEE-754
round-to-nearest arithmetic (monotonicity of each rounded operation), given the
exact order of the *input* floats recorded in the abstract state.

Trees: ('v', name) | ('c', Fraction) | ('+', x, y) | ('-', x, y) | ('neg', x)
       | ('max', [..]) | ('min', [..]) | ('*', x, y) | ('/', x, y) | ('?',)
"""

from fractions import Fraction
from typing import Optional

from .absint import Lin, State


def lin_of(t) -> Optional[Lin]:
    k = t[0]
    if k == "v":
        return Lin.var(t[1])
    if k == "c":
        return Lin.num(t[1])
    if k in ("+", "-"):
        a, b = lin_of(t[1]), lin_of(t[2])
        if a is None or b is None:
            return None
        return a + b if k == "+" else a - b
    if k == "neg":
        a = lin_of(t[1])
        return a.neg() if a is not None else None
    if k in ("*", "/"):
        a, b = lin_of(t[1]), lin_of(t[2])
        if a is None or b is None:
            return None
        if b.is_const() and b.const != 0:
            return a.scale(b.const if k == "*" else 1 / b.const)
        if a.is_const() and k == "*":
            return b.scale(a.const)
        return None
    return None  # max/min handled by the caller through the winner's linear form


def show(t) -> str:
    k = t[0]
    if k == "v":
        return t[1]
    if k == "c":
        return "%g" % float(t[1])
    if k in ("+", "-", "*", "/"):
        return "(%s %s %s)" % (show(t[1]), k, show(t[2]))
    if k == "neg":
        return "-" + show(t[1])
    if k in ("max", "min"):
        return "%s(%s)" % (k, ", ".join(show(x) for x in t[1]))
    return "?"


class FloatOrder:
    def __init__(self, state: State, facts=()):
        self.state = state
        self.facts = list(facts)  # (p, q): the program compared fl(p) with fl(q) on this path and found fl(p) <= fl(q)
        self.vars = sorted({v for _, a in state.atoms for v in a.coef if len(a.coef) == 1 and a.const == 0 and list(a.coef.values())[0] == 1})
        self.memo = {}

    # exact knowledge about input floats / constants ---------------------------------
    def leaf(self, t) -> bool:
        return t[0] in ("v", "c")

    def exact_le(self, a: Lin, b: Lin) -> bool:
        return self.state.signs(a - b) <= frozenset([-1, 0])

    def same(self, u, v) -> bool:
        if u == v:
            return True
        if self.leaf(u) and self.leaf(v):
            return self.state.signs(lin_of(u) - lin_of(v)) == frozenset([0])
        if u[0] == v[0] and u[0] in ("+", "-", "*", "/"):
            if self.same(u[1], v[1]) and self.same(u[2], v[2]):
                return True
            if u[0] in ("+", "*") and self.same(u[1], v[2]) and self.same(u[2], v[1]):
                return True  # G6: a single rounded + or * is commutative
        if u[0] == v[0] and u[0] in ("max", "min") and len(u[1]) == len(v[1]):
            return all(any(self.same(x, y) for y in v[1]) for x in u[1]) and all(any(self.same(x, y) for x in u[1]) for y in v[1])
        return False

    def nonneg(self, t, depth=0) -> bool:
        if depth > 12:
            return False
        k = t[0]
        if self.leaf(t):
            return self.state.signs(lin_of(t)) <= frozenset([0, 1])
        if k == "-":
            return self.le(t[2], t[1], depth + 1)  # fl(x - y) >= 0 iff x >= y
        if k == "+":
            return self.nonneg(t[1], depth + 1) and self.nonneg(t[2], depth + 1)
        if k == "max":
            return any(self.nonneg(x, depth + 1) for x in t[1])
        if k == "min":
            return all(self.nonneg(x, depth + 1) for x in t[1])
        return False

    def nonpos(self, t, depth=0) -> bool:
        if depth > 12:
            return False
        if self.leaf(t):
            return self.state.signs(lin_of(t)) <= frozenset([0, -1])
        if t[0] == "-":
            return self.le(t[1], t[2], depth + 1)
        if t[0] == "+":
            return self.nonpos(t[1], depth + 1) and self.nonpos(t[2], depth + 1)
        return False

    # the prover ------------------------------------------------------------------------
    def le(self, u, v, depth=0) -> bool:
        """True only if fl(u) <= fl(v) is derivable."""
        if depth > 14:
            return False
        key = (u if isinstance(u, tuple) else None, v if isinstance(v, tuple) else None)
        try:
            hk = hash(key)
        except TypeError:
            hk = None
        if hk is not None and key in self.memo:
            return self.memo[key]
        r = self._le(u, v, depth)
        if hk is not None:
            self.memo[key] = r
        return r

    def _le(self, u, v, depth) -> bool:
        if u[0] == "?" or v[0] == "?":
            return False
        if self.same(u, v):
            return True  # G1
        if self.leaf(u) and self.leaf(v):
            return self.exact_le(lin_of(u), lin_of(v))
        # comparison with the constant zero: sign of the rounded expression
        if u[0] == "c" and u[1] == 0 and not self.leaf(v) and v[0] not in ("max", "min") and self.nonneg(v, depth + 1):
            return True
        if v[0] == "c" and v[1] == 0 and not self.leaf(u) and u[0] not in ("max", "min") and self.nonpos(u, depth + 1):
            return True
        # max / min (G4)
        if v[0] == "max" and any(self.le(u, q, depth + 1) for q in v[1]):
            return True
        if u[0] == "min" and any(self.le(p, v, depth + 1) for p in u[1]):
            return True
        if u[0] == "max":
            return all(self.le(p, v, depth + 1) for p in u[1])
        if v[0] == "min":
            return all(self.le(u, q, depth + 1) for q in v[1])
        # G2: same rounded operation, one operand shared, the other ordered
        if u[0] == v[0] and u[0] == "+":
            for (a1, a2), (b1, b2) in (((u[1], u[2]), (v[1], v[2])), ((u[1], u[2]), (v[2], v[1]))):
                if self.same(a1, b1) and self.le(a2, b2, depth + 1):
                    return True
                if self.same(a2, b2) and self.le(a1, b1, depth + 1):
                    return True
            # both operands ordered
            if self.le(u[1], v[1], depth + 1) and self.le(u[2], v[2], depth + 1):
                return True
        if u[0] == v[0] and u[0] == "-":
            if self.same(u[2], v[2]) and self.le(u[1], v[1], depth + 1):
                return True
            if self.same(u[1], v[1]) and self.le(v[2], u[2], depth + 1):
                return True
            if self.le(u[1], v[1], depth + 1) and self.le(v[2], u[2], depth + 1):
                return True
        # G3: adding a non-negative / subtracting a non-negative
        if v[0] == "+":
            if self.nonneg(v[2], depth + 1) and self.le(u, v[1], depth + 1):
                return True
            if self.nonneg(v[1], depth + 1) and self.le(u, v[2], depth + 1):
                return True
        if v[0] == "-" and self.nonpos(v[2], depth + 1) and self.le(u, v[1], depth + 1):
            return True
        if u[0] == "-" and self.nonneg(u[2], depth + 1) and self.le(u[1], v, depth + 1):
            return True
        if u[0] == "+":
            if self.nonpos(u[2], depth + 1) and self.le(u[1], v, depth + 1):
                return True
            if self.nonpos(u[1], depth + 1) and self.le(u[2], v, depth + 1):
                return True
        # G7: a comparison the program itself made on this path
        for p, q in self.facts:
            if self.same(u, p) and self.same(q, v):
                return True
        if depth <= 2:
            for p, q in self.facts:
                if (self.same(u, p) or self.le(u, p, depth + 4)) and (self.same(q, v) or self.le(q, v, depth + 4)):
                    return True
        # G5: transitivity through an input float
        if depth <= 3:
            for name in self.vars:
                t = ("v", name)
                if t == u or t == v:
                    continue
                if self.le(u, t, depth + 3) and self.le(t, v, depth + 3):
                    return True
        return False


def positive_length_obligations(state: State, entries, facts=(), strict_facts=(), input_pairs=()):
    """For every output interval whose ends are not both input floats: is fl(start) < fl(end) derivable?
    -> list of (i, ok, text).  Rules: P1 both ends input floats / constants, ordered by the case; P2 a strict comparison the
    program made on this path between exactly these two expressions; P3 the two ends are the two ends of ONE input
    interval moved by the same rounded offset (x + d, y + d) or (x - d, y - d) -- the modelling assumption that an input
    interval is long enough to survive the translation the operation is asked for; P4 0 against a single rounded sum or
    difference of input floats (never rounds to 0 unless it is 0); P5 through max / min; P6 start is an input float
    that is exactly <= some input float t with fl(t) <= ... <= end strict somewhere (transitivity through leaves with
    one strict step)."""
    fo = FloatOrder(state, facts)
    pairs = {(repr(a), repr(b)) for a, b in input_pairs}
    starts, ends = {a for a, _ in pairs}, {b for _, b in pairs}

    def leaves(t):
        if t[0] == "v":
            return {t[1]}
        out_ = set()
        for x in t[1:]:
            if isinstance(x, tuple) and x and isinstance(x[0], str):
                out_ |= leaves(x)
            elif isinstance(x, (list, tuple)):
                for y in x:
                    if isinstance(y, tuple):
                        out_ |= leaves(y)
        return out_

    def leaf_lt(u, v):
        return state.signs(lin_of(u) - lin_of(v)) == frozenset([-1])

    def lt(u, v, depth=0):
        if depth > 6 or u[0] == "?" or v[0] == "?":
            return False
        if fo.leaf(u) and fo.leaf(v):
            return leaf_lt(u, v)
        for p_, q_ in strict_facts:
            if fo.same(u, p_) and fo.same(q_, v):
                return True
        if u[0] == v[0] and u[0] in ("+", "-") and fo.leaf(u[1]) and fo.leaf(v[1]) and fo.same(u[2], v[2]):
            if (repr(lin_of(u[1])), repr(lin_of(v[1]))) in pairs:
                return True  # P3
        if u[0] == v[0] == "+" and fo.leaf(u[2]) and fo.leaf(v[2]) and fo.same(u[1], v[1]) and (repr(lin_of(u[2])), repr(lin_of(v[2]))) in pairs:
            return True  # P3, offset written first
        if u[0] == "c" and u[1] == 0 and v[0] in ("+", "-") and fo.leaf(v[1]) and fo.leaf(v[2]):
            d = lin_of(v[1]) + lin_of(v[2]) if v[0] == "+" else lin_of(v[1]) - lin_of(v[2])
            return state.signs(d) == frozenset([1])  # P4
        if v[0] == "max":
            return any(lt(u, q_, depth + 1) for q_ in v[1])
        if u[0] == "min":
            return any(lt(p_, v, depth + 1) for p_ in u[1])
        if u[0] == "max":
            return all(lt(p_, v, depth + 1) for p_ in u[1])
        if v[0] == "min":
            return all(lt(u, q_, depth + 1) for q_ in v[1])
        # P6: one strict step between input floats, the rest by the <= prover
        for name in fo.vars:
            t = ("v", name)
            if fo.leaf(u) and t != u and leaf_lt(u, t) and fo.le(t, v):
                return True
            if fo.leaf(v) and t != v and leaf_lt(t, v) and fo.le(u, t):
                return True
        return False
    out = []
    for i, e in enumerate(entries):
        u, v = e[0], e[1]
        tu, tv = getattr(u, "tree", ("?",)), getattr(v, "tree", ("?",))
        if fo.leaf(tu) or fo.leaf(tv):
            # one end is an input float, the other one rounded expression: they can only coincide on an exact rounding tie;
            # no generic failing input is known for that shape, so nothing is demanded (listed under not_decided)
            continue
        # the image of ONE whole input interval (its start computed from that interval's start, its end from that
        # interval's end, whatever offsets and clamps are applied): covered by the stated assumption that input
        # intervals are long enough to survive the translation asked for -- no obligation.  A *piece* (an end that
        # is the caller's cut time, or ends taken from two different intervals) gets the obligation.
        su = {n for n in leaves(tu) if n in starts or n in ends}
        sv = {n for n in leaves(tv) if n in starts or n in ends}
        if len(su) == 1 and len(sv) == 1 and (next(iter(su)), next(iter(sv))) in pairs:
            continue
        out.append((i, lt(tu, tv), "fl(%s) < fl(%s)" % (show(tu), show(tv)), "fl(%s) < fl(%s)" % (canon_text(tu), canon_text(tv))))
    return out


def canon_text(t) -> str:
    """rendering in which the operands of a (commutative, once-rounded) sum are ordered: the name of a kind of piece"""
    if t[0] == "+":
        a, b = sorted([canon_text(t[1]), canon_text(t[2])])
        return "(%s + %s)" % (a, b)
    if t[0] in ("-", "*", "/"):
        return "(%s %s %s)" % (canon_text(t[1]), t[0], canon_text(t[2]))
    return show(t)


def seam_obligations(state: State, entries, facts=()):
    """For consecutive interval entries (tuples whose first two items are Lin with trees) yield
    (i, ok, can_touch, text) for the obligation fl(end_i) <= fl(start_{i+1})."""
    fo = FloatOrder(state, facts)
    out = []
    for i in range(len(entries) - 1):
        u = entries[i][1]
        v = entries[i + 1][0]
        tu, tv = getattr(u, "tree", ("?",)), getattr(v, "tree", ("?",))
        ok = fo.le(tu, tv)
        touch = 0 in state.signs(u - v)
        out.append((i, ok, touch, "fl(%s) <= fl(%s)" % (show(tu), show(tv))))
    return out
