"""C10 -- tier set operations obey the algebra of labelled time."""

from .. import specs
from ..absint import Lin
from ..tables import Atoms, TableRun, build_tier, compare_outcomes, declare_tier, read_tier, run_code, run_spec, run_states
from . import common

OPS = ["difference", "intersection", "mergeLabels", "union"]


def pair_table(rep, kind, ka, kb, ops):
    idx = common.ctx()
    at = Atoms()
    # union compares the inserted entries with the receiver's span, the other operations never look at it
    A, mA, MA = declare_tier(at, ka, kind, prefix="a", span=True, as_atoms=True, span_atoms=("union" in ops))
    B, mB, MB = declare_tier(at, kb, kind, prefix="b", span=True, as_atoms=True, span_atoms=False)
    cls = "IntervalTier" if kind == "interval" else "PointTier"
    fn = idx.get("TextgridTier.union") if ops == ["union"] and kind == "point" else idx.get(cls + "." + (ops[0] if ops[0] != "union" else "insertEntry"))
    tr = TableRun(rep, "T-setops-" + kind, cls, fn.loc)
    for op in ops:
        f = idx.try_get(cls + "." + op) or idx.get("TextgridTier." + op)
        rep.functions.add(f.qual)

    def rows(st):
        out = []
        for op in ops:
            def code(I):
                ta = build_tier(I, kind, "A", A, mA, MA)
                tb = build_tier(I, kind, "B", B, mB, MB)
                before = [list(e.items) for e in I.iterate(I.getattr(ta, "entries"))]
                res = I.call_value(I.getattr(ta, op), [tb], {})
                d = read_tier(I, res)
                d["receiver_unchanged"] = len(before) == len(I.iterate(I.getattr(ta, "entries"))) and res is not ta
                return d
            got, I = run_code(idx, st, code)

            def spec(O):
                if kind == "point":
                    return specs.union_point(O, A, mA, MA, B)
                if op == "difference":
                    return specs.difference(O, A, mA, MA, B)
                if op == "intersection":
                    return specs.intersection(O, A, mA, MA, B, "A", "B")
                if op == "mergeLabels":
                    return specs.merge_labels(O, A, mA, MA, B, "A", "B")
                return specs.union_interval(O, A, mA, MA, B)
            want = run_spec(idx, st, spec)
            row = compare_outcomes(I, op, got, want, strict_ties=True)
            if row[1] and got.kind == "ok" and not got.value.get("receiver_unchanged", True):
                row = (op, False, "operation returned or modified its receiver", None)
            out.append(row)
        return out

    run_states(at, rows, tr)
    tr.done("%s: A with %d x B with %d generic entries" % ("/".join(ops), ka, kb))


def run(rep, tier):
    rep.rule("T-setops", "abstract interpretation of difference / intersection / mergeLabels / union on every weak order of the boundaries of two generic tiers A (<=2 entries) and B (<=2 entries; thorough: up to 3x2), compared with specs written from the algebra: difference = A minus B's labelled time with A's labels; intersection = one entry per overlapping pair labelled 'a-b'; union = overlap-connected components fused, labels joined in time order; mergeLabels = A's intervals overlapping B with B's labels in parentheses; point union = union of time points, coinciding labels joined old-new")
    rep.not_decided.append("tiers with more generic entries than enumerated (the algebra for larger tiers follows from the per-entry structure of the loops, derived on paper)")
    sizes = [(0, 0), (0, 1), (1, 0), (1, 1), (1, 2), (2, 1), (2, 2)]
    if tier == "thorough":
        sizes += [(3, 1), (1, 3), (3, 2), (2, 3)]
    for ka, kb in sizes:
        pair_table(rep, "interval", ka, kb, ["difference", "intersection", "mergeLabels"])
        if tier == "thorough" or (ka, kb) != (2, 2):
            pair_table(rep, "interval", ka, kb, ["union"])
    for ka, kb in sizes:
        pair_table(rep, "point", ka, kb, ["union"])
