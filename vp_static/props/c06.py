"""C06 -- crop keeps exactly the annotation inside the window, per mode."""

from ..absint import Lin, Lst, Tup, label_var
from ..tables import (Atoms, TableRun, build_tier, compare_outcomes, declare_tier, read_tier, run_code, run_spec, run_states, show, tier_equal)
from . import common

MODES = ["strict", "lax", "truncated"]


def spec_crop_interval(O, ents, a, b, mode, rebase):
    """C06: 'strict' keeps intervals wholly inside, 'lax' intervals overlapping it (unchanged), 'truncated' the
    parts inside; without rebasing timestamps untouched and span [a,b]; with rebasing shifted so the window (or an
    earlier-starting lax interval) begins at 0, span [0,b-a]; lax widens the span just enough; a>=b -> ArgumentError."""
    if O.ge(a, b):
        O.raise_("ArgumentError")
    out = []
    for s, e, l in ents:
        if mode == "strict":
            if O.le(a, s) and O.le(e, b):
                out.append((s, e, l))
        else:
            if O.lt(s, b) and O.lt(a, e):  # positive-length overlap
                if mode == "lax":
                    out.append((s, e, l))
                else:
                    out.append((O.mx(s, a), O.mn(e, b), l))
    if rebase:
        delta = a
        if out and O.lt(out[0][0], a):
            delta = out[0][0]
        out = [(s - delta, e - delta, l) for s, e, l in out]
        lo, hi = Lin.num(0), b - a
    else:
        lo, hi = a, b
    if out:
        lo, hi = O.mn(lo, out[0][0]), O.mx(hi, out[-1][1])
    return {"class": "IntervalTier", "entries": out, "min": lo, "max": hi}


def spec_crop_point(O, ents, a, b, rebase):
    if O.ge(a, b):
        O.raise_("ArgumentError")
    out = [(t, l) for t, l in ents if O.le(a, t) and O.le(t, b)]
    if rebase:
        out = [(t - a, l) for t, l in out]
        lo, hi = Lin.num(0), b - a
    else:
        lo, hi = a, b
    return {"class": "PointTier", "entries": out, "min": lo, "max": hi}


def table_crop(rep, kind, k, rule):
    idx = common.ctx()
    cls = "IntervalTier" if kind == "interval" else "PointTier"
    fn = idx.get(cls + ".crop")
    rep.functions.add(fn.qual)
    at = Atoms()
    ents, _, _ = declare_tier(at, k, kind, span=False)
    a, b = at.var("a"), at.var("b")
    m, M = Lin.var("m"), Lin.var("M")  # the input tier's own span: never compared by crop
    tr = TableRun(rep, rule, fn.short, fn.loc)

    def rows(st):
        out = []
        for mode in (MODES if kind == "interval" else ["lax"]):
            for rebase in (True, False):
                def code(I):
                    tier = build_tier(I, kind, "T", ents, m, M)
                    res = I.call_value(I.getattr(tier, "crop"), [a, b, mode, rebase], {})
                    return read_tier(I, res)
                got, I = run_code(idx, st, code)
                if kind == "interval":
                    want = run_spec(idx, st, lambda O: spec_crop_interval(O, ents, a, b, mode, rebase))
                else:
                    want = run_spec(idx, st, lambda O: spec_crop_point(O, ents, a, b, rebase))
                out.append(compare_outcomes(I, (mode, "rebase" if rebase else "norebase"), got, want))
        return out

    run_states(at, rows, tr)
    tr.done("%d generic entr%s x window (a,b)" % (k, "y" if k == 1 else "ies"))


def run(rep, tier):
    rep.rule("T1-T3 crop table", "abstract interpretation of IntervalTier.crop / PointTier.crop (with utils.getIntervalsInInterval and the constructors inlined) over every weak order of k generic entries and the window edges, compared with the spec table written from the property")
    ks = [0, 1, 2] if tier == "quick" else [0, 1, 2, 3]
    for k in ks:
        table_crop(rep, "interval", k, "T1-T3-crop-interval")
    for k in ks:
        table_crop(rep, "point", k, "T2-T3-crop-point")

    # the textgrid-level operation (shared with C12): same names, same order, each tier equal to the tier operation
    from .c12 import lifting
    rep.rule("L-lifting-crop", "Textgrid.crop on a generic textgrid (interval tier / point tier plus an empty tier): per-tier result equals the tier-level crop, shared span and validate() True for strict/truncated")
    for shape in ([("interval", "I", 1), ("point", "E", 0)], [("interval", "E", 0), ("point", "P", 1)]):
        lifting(rep, shape, only="crop")
    rep.rule("L-lifting-crop-ownspans", "same, on a textgrid whose tiers span only their own entries: the resulting textgrid has the span the operation defines")
    lifting(rep, [("interval", "I", 1), ("point", "P", 1)], only="crop", own=True)
