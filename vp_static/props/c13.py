"""C13 -- copy-returning operations never mutate; failed mutations change nothing."""

from . import common
from .common import PURE_SET, MUTATORS


def run(rep, tier):
    idx, eff = common.ctx(), common.effects()
    rep.rule("A1-purity", "no function of the pure set (copy-returning operations, save, validate, queries) reaches a write to its receiver or an argument (effect/alias analysis to a fixpoint over the resolved call graph)")
    rep.rule("A2-ctor-capture", "public tier constructors neither keep nor mutate the caller's entry list")
    rep.rule("A3-detached-dict", "the dictionary handed to the serializer contains no object owned by the textgrid")
    rep.rule("B1-atomic", "in the 8 mutators no may-raise site follows a write to receiver state, except under the rollback idiom or with proven key/entry provenance")
    rep.rule("B2-save-order", "in save() every failing step precedes the open-for-write; the with-body only writes a ready string")
    rep.not_decided.append("results may share tier objects with the receiver (appendTextgrid, mergeTiers, Textgrid.editTimestamps): not a violation of C13 as stated")

    common.rule_purity(rep, PURE_SET)
    rep.floor("A1-purity", 46, "46 functions in the pure set")

    from .c05 import detached_copy_table
    detached_copy_table(rep, "A1-new-detached")

    # A2: concrete tier constructors
    tt = idx.cls("TextgridTier")
    n = 0
    for c in tt.all_subclasses():
        init = c.methods.get("__init__")
        if init is None:
            continue
        n += 1
        s = eff.summary(init)
        bad_m = sorted(t for t in s.mutates if t.startswith("p:"))
        bad_c = sorted(s.captures | {t for t in s.stores if t.startswith("p:entries")})
        rep.check(not bad_m and not bad_c, "A2-ctor-capture", c.name + ".__init__", "entries parameter",
                  ok="constructor passes a fresh list to TextgridTier.__init__ (which sorts and stores it)",
                  bad="constructor %s the caller's list: %s" % ("mutates" if bad_m else "keeps", bad_m or bad_c))
    rep.floor("A2-ctor-capture", 3, "IntervalTier, PointTier, KlattPointTier")

    # A3
    fn = idx.get("data_classes.textgrid:_tgToDictionary")
    s = eff.summary(fn)
    roots = (s.returns.obj | s.returns.elem) - {"fresh", "imm"}
    rep.check(not roots, "A3-detached-dict", fn.short, "return value",
              ok="built only from fresh/immutable values (tier.entries is a tuple copy)",
              bad="returned dictionary reaches objects owned by the textgrid (%s); _prepTgForSaving/_fillInBlanks write into it" % sorted(roots))

    # failure injection by interpretation: the tables of C11 / C12 record a row as refuted when a raising call
    # (collision under the raising reporter, duplicate or absent name, widening under 'error', invalid option,
    # absent entry) leaves the receiver changed
    from . import c11, c12
    from .. import specs
    from ..absint import Tup
    from .tierops import tier_table

    rep.rule("B1-tables", "failure injection by abstract interpretation: in every abstract state and mode in which insertEntry / deleteEntry / addTier / renameTier / replaceTier raise (collision under the raising reporter, duplicate or absent name, widening under 'error', invalid option, absent entry) the receiver is exactly as before")
    for k in ([0, 1] if tier == "quick" else [0, 1, 2]):
        tier_table(rep, "B1-tables", "insertEntry", "interval", k, c11.new_interval, c11.MODES,
                   lambda I, t, sy, mode: I.call_value(I.getattr(t, "insertEntry"), [Tup(list(sy["new"]), "Interval"), mode[0], mode[1]], {}),
                   lambda O, ents, m, M, sy, mode: specs.insert_entry_interval(O, ents, m, M, sy["new"], mode[0], mode[1]),
                   "%d generic entries x new interval" % k, span_atoms=True)
        tier_table(rep, "B1-tables", "insertEntry", "point", k, c11.new_point, c11.MODES,
                   lambda I, t, sy, mode: I.call_value(I.getattr(t, "insertEntry"), [Tup(list(sy["new"]), "Point"), mode[0], mode[1]], {}),
                   lambda O, ents, m, M, sy, mode: specs.insert_entry_point(O, ents, m, M, sy["new"], mode[0], mode[1]),
                   "%d generic points x new point" % k, strict_ties=True)
    for kind in ("interval", "point"):
        def call(I, t, sy, mode, kind=kind):
            if mode == "absent":
                x = Tup(list(sy["new"]), "Interval" if kind == "interval" else "Point")
            else:
                x = I.iterate(I.getattr(t, "entries"))[mode]
            return I.call_value(I.getattr(t, "deleteEntry"), [x], {})

        def spec(O, ents, m, M, sy, mode, kind=kind):
            if mode == "absent":
                O.raise_("ANY-EXC")
            return {"class": "IntervalTier" if kind == "interval" else "PointTier", "entries": [e for i, e in enumerate(ents) if i != mode], "min": m, "max": M}
        tier_table(rep, "B1-tables", "deleteEntry", kind, 1, c11.new_interval if kind == "interval" else c11.new_point, [0, "absent"], call, spec, "1 generic entry", as_atoms=True)
    c12.add_tier_table(rep, tier)
    c12.rename_replace_table(rep)
    common.rule_atomic(rep, MUTATORS, semantic=True)
    rep.floor("B1-atomic", 8, "8 mutators")
    common.rule_save_order(rep, ["Textgrid.save"])
    rep.floor("B2-save-order", 2)
