"""C13 -- copy-returning operations never mutate; failed mutations change nothing."""

from . import common
from .common import PURE_SET, MUTATORS


def run(rep, tier):
    idx, eff = common.ctx(), common.effects()
    rep.rule("A1-purity", "no function of the pure set (copy-returning operations, save, validate, queries) reaches a write to its receiver or an argument (effect/alias analysis to a fixpoint over the resolved call graph)")
    rep.rule("A2-ctor-capture", "public tier constructors neither keep nor mutate the caller's entry list")
    rep.rule("A3-detached-dict", "the dictionary handed to the serializer contains no object owned by the textgrid")
    rep.rule("B1-atomic", "in the 8 mutators no may-raise site follows a write to receiver state, except under the rollback idiom or with proven key/entry provenance")
    rep.rule("B2-save-order", "in save() every failing step precedes the open-for-write; the with-body only writes a ready string")
    rep.not_decided.append("results may share tier objects with the receiver (appendTextgrid, mergeTiers, Textgrid.editTimestamps): not a violation of C13 as stated")

    common.rule_purity(rep, PURE_SET)
    rep.floor("A1-purity", 46, "46 functions in the pure set")

    # A2: concrete tier constructors
    tt = idx.cls("TextgridTier")
    n = 0
    for c in tt.all_subclasses():
        init = c.methods.get("__init__")
        if init is None:
            continue
        n += 1
        s = eff.summary(init)
        bad_m = sorted(t for t in s.mutates if t.startswith("p:"))
        bad_c = sorted(s.captures | {t for t in s.stores if t.startswith("p:entries")})
        rep.check(not bad_m and not bad_c, "A2-ctor-capture", c.name + ".__init__", "entries parameter",
                  ok="constructor passes a fresh list to TextgridTier.__init__ (which sorts and stores it)",
                  bad="constructor %s the caller's list: %s" % ("mutates" if bad_m else "keeps", bad_m or bad_c))
    rep.floor("A2-ctor-capture", 3, "IntervalTier, PointTier, KlattPointTier")

    # A3
    fn = idx.get("data_classes.textgrid:_tgToDictionary")
    s = eff.summary(fn)
    roots = (s.returns.obj | s.returns.elem) - {"fresh", "imm"}
    rep.check(not roots, "A3-detached-dict", fn.short, "return value",
              ok="built only from fresh/immutable values (tier.entries is a tuple copy)",
              bad="returned dictionary reaches objects owned by the textgrid (%s); _prepTgForSaving/_fillInBlanks write into it" % sorted(roots))

    common.rule_atomic(rep, MUTATORS)
    rep.floor("B1-atomic", 8, "8 mutators")
    common.rule_save_order(rep, ["Textgrid.save"])
    rep.floor("B2-save-order", 2)
