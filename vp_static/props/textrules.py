"""Rule family R-C: writer / reader / documentation agreement (used by C01, C02, C03)."""

import ast
import re
from fractions import Fraction

from .. import textfmt as tf
from ..absint import DictVal, Interp, Lin, Lst, PyRaise, State, Tup
from ..index import FuncInfo, Undecided, Vanished, norm
from ..tables import default_overrides
from . import common

LONG_W = "utilities.textgrid_io:_tgToLongTextForm"
SHORT_W = "utilities.textgrid_io:_tgToShortTextForm"
LONG_R = "utilities.textgrid_io:_parseNormalTextgrid"
SHORT_R = "utilities.textgrid_io:_parseShortTextgrid"

# exemplars of the writer's numeric language W = { '%d' % int , repr(float) }  (finite, non-negative)
EXEMPLARS_QUICK = ["0", "12", "0.5", "1234.5678", "5e-05", "1.5e-07", "1e-17", "1e+16", "123456789012345.6", "1e+15" if False else "1000000000000000"]


def exemplars(tier):
    ex = list(EXEMPLARS_QUICK)
    if tier == "thorough":
        # every (integer digits, fraction?, exponent sign, exponent digits) shape up to 17 significant digits
        for ip in ("0", "7", "42", "123456789"):
            for fp in ("", ".5", ".25", ".0078125", ".12345678901234567"[:18 - len(ip)]):
                ex.append(ip + fp)
        for mant in ("1", "5", "1.5", "2.2250738585072014", "9.999999999999999"):
            for es in ("e-", "e+"):
                for ed in ("05", "07", "16", "17", "100", "308"):
                    if es == "e+" and ed in ("05", "07"):
                        continue
                    if float(mant + es + ed) in (float("inf"), 0.0):
                        continue  # beyond the range of doubles: repr of a finite float never writes it (timestamps are finite)
                    ex.append(mant + es + ed)
    seen, out = set(), []
    for x in ex:
        if x not in seen:
            seen.add(x)
            out.append(x)
    return out


def _fn(spec):
    return common.ctx().get(spec)


# ------------------------------------------------------------------------------------ C-esc


def reader_regexes():
    """{(pattern, flags)} of every regular expression the reader evaluated while reading the long form back."""
    out = {}
    for shape in DOC_SHAPES[:2]:
        I, enc, d, back, err = round_trip(LONG_W, shape)
        if I is None:
            continue
        for frame, func, pat, flags, text, _ms in I.__dict__.get("regex_log", []):
            out.setdefault((pat, flags), (frame, func))
    return out


def rule_numeric_regex(rep, tier, rule="C-num-regex"):
    """Every numeric regex the long reader evaluates captures whole every exemplar of the writer's numeric language,
    placed in the writer's own line (both taken from the interpretation: the regexes from the reader's run on the
    written document, the line templates from the symbolic document)."""
    idx = common.ctx()
    rd, wr = idx.get(LONG_R), idx.get(LONG_W)
    try:
        templates = writer_line_templates()
        regs = reader_regexes()
    except (Undecided, PyRaise) as e:
        rep.undecided(rule, wr.short, "line templates", "the long emitter could not be interpreted: %s" % e)
        return
    seen_keys = set()
    for (pat, flags), (frame, func) in sorted(regs.items()):
        m = re.match(r"(xmin|xmax|number)", pat)
        if not m or func not in ("search", "match", "findall"):
            continue
        key = m.group(1)
        seen_keys.add(key)
        tpls = sorted(templates.get(key, ()))
        if not tpls:
            rep.undecided(rule, rd.short, pat, "the long emitter writes no numeral on a line starting with '%s'" % key)
            continue
        bad = []
        try:
            rx = re.compile(pat, flags)
        except re.error as e:
            rep.refuted(rule, rd.short, pat, "regex does not compile: %s" % e)
            continue
        for ex in exemplars(tier):
            for tpl in tpls:
                line = tpl % ex
                mm = rx.search(line)
                if (not mm or mm.groups()[0] != ex) and ex not in bad:
                    bad.append(ex)
        rep.check(not bad, rule, "textgrid_io.%s" % frame, pat, ok="matches the whole number for %d exemplar strings of the writer's numeric language (integers, decimals, exponent notation)" % len(exemplars(tier)),
                  bad="the writer emits %s (repr of a float) but this regex does not capture it whole: a written file cannot be read back" % ", ".join(bad[:4]))
    missing = {"xmin", "xmax", "number"} - seen_keys
    if missing and regs:
        rep.undecided(rule, rd.short, "numeric fields", "no regular expression for %s was evaluated while reading the long form back" % sorted(missing))
    rep.floor(rule, 3, "xmin, xmax, number")


def rule_numeric_conversion(rep, tier, rule="C-num-conv"):
    """utils.strToIntOrFloat (abstractly interpreted on the exemplar strings) returns the number the string denotes."""
    idx = common.ctx()
    fn = idx.get("utilities.utils:strToIntOrFloat")
    rep.functions.add(fn.qual)
    st = State([("0", Lin.num(0))], [0])
    bad = []
    for ex in exemplars(tier):
        I = Interp(idx, st, overrides=default_overrides())
        try:
            v = I.call_function(fn, [ex], {})
            if not (isinstance(v, Lin) and v.is_const() and v.const == Fraction(ex)):
                bad.append("%s -> %r" % (ex, v))
        except PyRaise as e:
            bad.append("%s -> raises %s" % (ex, e.name))
        except Undecided as e:
            rep.undecided(rule, fn.short, ex, str(e))
            return
    rep.check(not bad, rule, fn.short, norm(fn.node.body[-1])[:100], ok="every exemplar of the writer's numeric language converts to its value",
              bad="tier spans written in exponent notation cannot be read back: " + "; ".join(bad[:4]), loc=fn.loc)
    rep.floor(rule, 1)


# ------------------------------------------------------------------------------------ C-exact


def rule_exact_formatter(rep, rule="C-exact"):
    """numToStr, interpreted with its closeness test forced each way: when the value is *not* near an integer the
    text is repr/str of the value (an exact numeral); when it is, the integer written is the integer the value was
    compared with; and the comparison's tolerance is at most 1e-14 relative, 0 absolute."""
    from ..absint import Str

    idx = common.ctx()
    fn = idx.get("utilities.my_math:numToStr")
    rep.functions.add(fn.qual)
    x = Lin.var("x")
    st = State([("0", Lin.num(0))], [0])
    results = {}
    for near in (True, False):
        seen = []

        def isclose(I, args, kwargs, near=near, seen=seen):
            seen.append((args, kwargs))
            return near
        I = Interp(idx, st, overrides={"my_math.isclose": isclose})
        # int(), round(), math.floor ... of the symbolic value are atoms named after the operation
        I.builtin_overrides = {
            "int": lambda I_, a, k: Lin.var("int(%r)" % (a[0],)) if isinstance(a[0], Lin) and not a[0].is_const() else I_.call_builtin(_plain("int"), a, k),
            "round": lambda I_, a, k: Lin.var("round(%r)" % (a[0],)),
            "math.floor": lambda I_, a, k: Lin.var("floor(%r)" % (a[0],)),
            "math.isclose": isclose,
        }
        try:
            results[near] = (I.call_function(fn, [x], {}), seen)
        except PyRaise as e:
            rep.refuted(rule, fn.short, "value %s an integer" % ("near" if near else "not near"), "numToStr raises %s" % e.name, loc=fn.loc)
            return
        except Undecided as e:
            rep.undecided(rule, fn.short, "value %s an integer" % ("near" if near else "not near"), str(e))
            return
    far, seen_far = results[False]
    ok = isinstance(far, Str) and far.kind == "num" and far.parts[0].same(x)
    rep.check(ok, rule, fn.short, "value not near an integer -> %r" % (far,), ok="written with repr/str of the value itself (shortest round-tripping numeral)",
              bad="a value that is not near an integer is written as %r, not as the exact numeral of the value: timestamps cannot come back bit-identical" % (far,), loc=fn.loc)
    near_v, seen_near = results[True]
    if not seen_near:
        rep.undecided(rule, fn.short, "integer test", "numToStr no longer calls a closeness test (isclose)")
        return
    args, kwargs = seen_near[0]
    cmp_with = [a for a in args[:2] if not (isinstance(a, Lin) and a.same(x))]
    comparand = cmp_with[0] if cmp_with else x

    def denotes(v):
        """the integer a written text denotes, as a name"""
        if isinstance(v, Str) and v.kind == "trunc":
            inner = v.parts[0]
            return "int(x)" if inner.same(x) else repr(inner)
        if isinstance(v, Str) and v.kind == "num":
            return repr(v.parts[0])
        return None
    printed = denotes(near_v)
    rep.check(printed is not None and printed == repr(comparand), rule, fn.short, "value near an integer: compared with %r, writes %s" % (comparand, printed or near_v),
              ok="the integer written is the integer the value was compared with",
              bad="the value is compared with %r but the text written denotes %s: a value just below an integer is written as the integer below it (0.9999999999999999 -> 0)" % (comparand, printed or near_v), loc=fn.loc)
    # tolerance: defaults of the callee, overridden by literal arguments at the call
    calls = [n for n in ast.walk(fn.node) if isinstance(n, ast.Call) and (tf.is_call_to(idx, fn, n, "isclose") or norm(n.func) == "math.isclose")]
    if len(calls) != 1:
        rep.undecided(rule, fn.short, "tolerance", "expected exactly one closeness call in numToStr, found %d" % len(calls))
        return
    test = calls[0]
    std_isclose = norm(test.func) == "math.isclose" and idx.resolve_symbol(fn.module, test.func) is None
    ic = idx.get("utilities.my_math:isclose")
    if std_isclose:
        tol = {"rel_tol": 1e-09, "abs_tol": 0.0}  # documented defaults of math.isclose
        where = "math.isclose"
    else:
        tol = {}
        for k in ("rel_tol", "abs_tol"):
            d = ic.defaults.get(k)
            tol[k] = ast.literal_eval(d) if d is not None else None
        where = ic.short
    undecidable = list(test.args[2:])
    for k in test.keywords:
        try:
            tol[k.arg] = ast.literal_eval(k.value)
        except Exception:
            undecidable.append(k)
    relv, abv = tol.get("rel_tol"), tol.get("abs_tol")
    rep.check(relv is not None and relv <= 1e-14 and abv == 0 and not undecidable, rule, where, "rel_tol=%s abs_tol=%s" % (relv, abv),
              ok="near-integer tolerance is at most 1e-14 relative and 0 absolute", bad="numToStr rounds to an integer values further than 1e-14 (relative) from it: a timestamp like 2.000000001 (or 5e-15 with an absolute tolerance) is written as an integer")
    rep.floor(rule, 3)


def _plain(name):
    from ..absint import Builtin

    return Builtin(name)


def generic_dict(shape):
    """The prepared dictionary of a generic textgrid.  shape: list of (kind, k)."""
    from ..absint import label_var

    tiers = []
    for n, (kind, k) in enumerate(shape, 1):
        ents = []
        for i in range(1, k + 1):
            if kind == "interval":
                ents.append(Tup([Lin.var("T%ds%d" % (n, i)), Lin.var("T%de%d" % (n, i)), label_var("T%dl%d" % (n, i))], "Interval"))
            else:
                ents.append(Tup([Lin.var("T%dt%d" % (n, i)), label_var("T%dl%d" % (n, i))], "Point"))
        t = DictVal()
        t.d = {"class": "IntervalTier" if kind == "interval" else "TextTier", "name": label_var("name%d" % n),
               "xmin": Lin.var("T%dm" % n), "xmax": Lin.var("T%dM" % n), "entries": Lst(ents)}
        tiers.append(t)
    d = DictVal()
    d.d = {"xmin": Lin.var("m"), "xmax": Lin.var("M"), "tiers": Lst(tiers)}
    return d


def _doc_overrides():
    from ..absint import Str

    ov = dict(default_overrides())
    # numToStr is decided separately (C-exact); here the numeral it writes is an atom that denotes its argument
    ov["my_math.numToStr"] = lambda I, args, kwargs: Str("num", (I.num(args[0]),))

    # escapeQuotes is decided separately (C-esc, on exemplar texts); here it is the quote-doubling of its argument
    def esc(I, args, kwargs):
        v = args[0]
        if isinstance(v, str):
            return v.replace('"', '""')
        if isinstance(v, Str) and v.kind in ("var", "raw"):
            return Str("esc", (v,))
        raise Undecided("escapeQuotes(%r)" % (v,))
    ov["utils.escapeQuotes"] = esc
    return ov


_DOC_CACHE = {}


def symbolic_document(spec, shape):
    """(Interp, dict, pieces) of the text `spec` emits for the generic textgrid of `shape` (cached per run)."""
    from . import docmodel as dm

    key = (spec, tuple(shape))
    if key not in _DOC_CACHE:
        idx = common.ctx()
        st = State([("0", Lin.num(0))], [0])
        I = Interp(idx, st, overrides=_doc_overrides())
        d = generic_dict(shape)
        doc = I.call_function(idx.get(spec), [d], {})
        _DOC_CACHE[key] = (I, d, dm.flatten(doc))
    return _DOC_CACHE[key]


DOC_SHAPES = [[("interval", 2), ("point", 3)], [("point", 1), ("interval", 1), ("interval", 0)], []]


def rule_written_document(rep, tier, rule="W-doc"):
    """Both text emitters, interpreted on generic textgrids, produce a document from which an independent reader
    written from Praat's file specification recovers exactly the dictionary they were given."""
    from . import docmodel as dm

    idx = common.ctx()
    shapes = list(DOC_SHAPES)
    if tier == "thorough":
        shapes += [[("interval", 3), ("interval", 0), ("point", 0), ("point", 4)], [("point", 0)], [("interval", 1)] * 4]
    for spec in (LONG_W, SHORT_W):
        fn = idx.get(spec)
        rep.functions.add(fn.qual)
        for shape in shapes:
            what = "generic textgrid [%s]" % ", ".join("%s x%d" % sk for sk in shape)
            try:
                I, d, pieces = symbolic_document(spec, shape)
                toks = dm.tokenize(pieces)
                back = dm.read_textgrid(toks)
                diff = dm.compare(I, back, d)
            except dm.DocError as e:
                rep.refuted(rule, fn.short, what, "the written text is not a well-formed TextGrid file for every label/time: %s" % e, loc=fn.loc)
                continue
            except PyRaise as e:
                rep.refuted(rule, fn.short, what, "the emitter raises %s on a generic textgrid" % e.name, loc=fn.loc)
                continue
            except Undecided as e:
                rep.undecided(rule, fn.short, what, str(e))
                continue
            rep.check(diff is None, rule, fn.short, what, ok="an independent reader of Praat's text format recovers every name, class, span, size, time and label, in order",
                      bad="an independent reader of Praat's text format recovers something else: %s" % diff, loc=fn.loc)
    rep.floor(rule, 6)


def rule_escape_function(rep, rule="C-esc"):
    """utils.escapeQuotes, interpreted on exemplar texts, doubles every double quote and changes nothing else."""
    idx = common.ctx()
    fn = idx.get("utilities.utils:escapeQuotes")
    rep.functions.add(fn.qual)
    st = State([("0", Lin.num(0))], [0])
    bad = []
    exs = ["", "plain", '"', '""', 'say "hi"', '"a""b"', "it's", 'x"', '\"', 'a\nb"c']
    for ex in exs:
        I = Interp(idx, st, overrides=default_overrides())
        try:
            got = I.call_function(fn, [ex], {})
        except PyRaise as e:
            bad.append("%r -> raises %s" % (ex, e.name))
            continue
        except Undecided as e:
            rep.undecided(rule, fn.short, "escapeQuotes(%r)" % ex, str(e))
            return
        if got != ex.replace('"', '""'):
            bad.append("%r -> %r" % (ex, got))
    rep.check(not bad, rule, fn.short, "escapeQuotes on %d exemplar texts" % len(exs), ok="every double quote is doubled, nothing else changes",
              bad="escapeQuotes does not double quotes: %s" % "; ".join(bad[:3]), loc=fn.loc)
    rep.floor(rule, 1)


def writer_line_templates():
    """{keyword: set of line templates with one %s} for the numerals of the long form, read off the symbolic document."""
    from ..absint import Str

    _, _, pieces = symbolic_document(LONG_W, DOC_SHAPES[0])
    out = {}
    for i, p in enumerate(pieces):
        if isinstance(p, Str) and p.kind == "num":
            before = pieces[i - 1] if i and isinstance(pieces[i - 1], str) else ""
            after = pieces[i + 1] if i + 1 < len(pieces) and isinstance(pieces[i + 1], str) else ""
            pre = before.rsplit("\n", 1)[-1]
            post = after.split("\n", 1)[0]
            m = re.match(r"\s*(\w+)", pre)
            if m:
                out.setdefault(m.group(1), set()).add(pre.replace("%", "%%") + "%s" + post.replace("%", "%%"))
    return out


# ------------------------------------------------------------------------------------ RT-doc (reader on the writer's document)


class DocEncoding:
    """Concrete stand-ins for the atoms of a symbolic document.

    A numeral atom becomes a unique numeral (plain, decimal, negative and positive exponent shapes in turn); a label
    atom becomes an *adversarial skeleton* built from private-use characters (opaque, inert content) around the
    shapes that are hard for a reader: a doubled quote followed by a line break, a label that is nothing but a
    quote, a quote before blanks and a line break, a label ending in a quote.  Tier names get the same without line
    breaks.  The reader under analysis is interpreted on the resulting text; what it returns is mapped back."""

    def __init__(self, spec_style=False):
        self.spec_style = spec_style  # labels as a foreign, specification-conformant writer may produce them
        self.tokens = {}      # numeral text -> Lin
        self.by_lin = {}
        self.raw = {}         # label variable name -> raw text
        self.n_lab = 0

    def numeral(self, lin):
        k = lin.key()
        if k not in self.by_lin:
            i = len(self.by_lin) + 1
            shape = ("9%05d", "9%05d.5", "9.%05de-05", "9.%05de+20")[i % 4]
            t = shape % i
            self.by_lin[k] = t
            self.tokens[t] = lin
        return self.by_lin[k]

    def label(self, var):
        name = var.parts[0]
        if name not in self.raw:
            i = self.n_lab
            self.n_lab += 1
            x, y = chr(0xE000 + 2 * i), chr(0xE001 + 2 * i)
            if name.startswith("name"):
                self.raw[name] = (x + '""' + y, x + '"', x)[i % 3]
            elif self.spec_style:
                # surrounding blanks, blank-only and empty labels: legal in a file, never produced by praatio's own writer
                self.raw[name] = (" " + x + " ", " ", x, "", "\n", x + '""\n ' + y + " ")[i % 6]
            else:
                self.raw[name] = (x + '""\n' + y, '"', x, x + '" \n' + y + '"', '""')[i % 5]
        return self.raw[name]

    def encode(self, pieces):
        from ..absint import Str

        out = []
        for p in pieces:
            if isinstance(p, str):
                out.append(p)
            elif isinstance(p, Str) and p.kind == "num":
                out.append(self.numeral(p.parts[0]))
            elif isinstance(p, Str) and p.kind == "esc":
                out.append(self.label(p.parts[0]).replace('"', '""'))
            else:
                raise Undecided("the written document contains %r (W-doc reports it)" % (p,))
        return "".join(out)


def _reader_overrides(enc, log):
    def tofloat(I, a, k):
        v = a[0]
        if isinstance(v, Lin):
            return v
        if isinstance(v, str):
            t = v.strip()
            if t in enc.tokens:
                return enc.tokens[t]
            try:
                return Lin.num(Fraction(float(t)))
            except Exception:
                raise PyRaise("ValueError")
        raise Undecided("float(%r)" % (v,))

    def toint(I, a, k):
        v = a[0]
        if isinstance(v, Lin):
            if v.is_const():
                return Lin.num(int(v.const))
            raise Undecided("int() of a symbolic number")
        if isinstance(v, str):
            t = v.strip()
            try:
                int(t)  # raises for '9.5', '9e-05' exactly as the real int() does
            except ValueError:
                raise PyRaise("ValueError")
            if t in enc.tokens:
                return enc.tokens[t]
            return Lin.num(int(t))
        raise Undecided("int(%r)" % (v,))

    def loads(I, a, k):
        log.append("json.loads")
        raise PyRaise("JSONDecodeError")
    return {"float": tofloat, "int": toint, "json.loads": loads}


def read_back(idx, text, enc):
    """Interpret parseTextgridStr on `text`; -> (Interp, result)"""
    st = State([("0", Lin.num(0))], [0])
    I = Interp(idx, st, overrides=default_overrides())
    log = []
    I.builtin_overrides = _reader_overrides(enc, log)
    I.MAX_STEPS = 4000000
    fn = idx.get("utilities.textgrid_io:parseTextgridStr")
    return I, I.call_function(fn, [text, True], {})


def compare_read(I, enc, back, d):
    """None if the dictionary the reader returned equals the generic dictionary d (numbers by atom, texts by skeleton)."""
    from ..absint import Str

    def num(v):
        if isinstance(v, str):
            return enc.tokens.get(v.strip())
        return v if isinstance(v, Lin) else None

    def same_num(g, w):
        g = num(g)
        return g is not None and g.same(w)

    def text_of(w):
        if isinstance(w, Str):
            return enc.raw.get(w.parts[0])
        return w
    if not isinstance(back, DictVal):
        return "the reader returned %r" % (back,)
    for k in ("xmin", "xmax"):
        if not same_num(back.d.get(k), d.d[k]):
            return "textgrid %s comes back as %r, written %r" % (k, back.d.get(k), d.d[k])
    bt, dt = I.iterate(back.d["tiers"]), I.iterate(d.d["tiers"])
    if len(bt) != len(dt):
        return "%d tiers come back, %d written" % (len(bt), len(dt))
    for n, (b, t) in enumerate(zip(bt, dt), 1):
        b, t = b.d, t.d
        if b["class"] != t["class"]:
            return "tier %d comes back as %s, written %s" % (n, b["class"], t["class"])
        if b["name"] != text_of(t["name"]):
            return "tier %d name comes back as %r, written %r" % (n, b["name"], text_of(t["name"]))
        for k in ("xmin", "xmax"):
            if not same_num(b[k], t[k]):
                return "tier %d %s comes back as %r, written %r" % (n, k, b[k], t[k])
        be, te = I.iterate(b["entries"]), I.iterate(t["entries"])
        if len(be) != len(te):
            return "tier %d: %d entries come back, %d written" % (n, len(be), len(te))
        for m, (x, y) in enumerate(zip(be, te), 1):
            xs, ys = I.iterate(x), I.iterate(y)
            if len(xs) != len(ys):
                return "tier %d entry %d has %d fields, written %d" % (n, m, len(xs), len(ys))
            for g, w in zip(xs[:-1], ys[:-1]):
                if not same_num(g, w):
                    return "tier %d entry %d: time comes back as %r, written %r" % (n, m, g, w)
            if xs[-1] != text_of(ys[-1]):
                return "tier %d entry %d: label comes back as %r, written %r (the label is written with every quote doubled)" % (n, m, xs[-1], text_of(ys[-1]))
    return None


_RT_CACHE = {}


def round_trip(spec, shape, crlf=False):
    """(Interp, enc, dict, result | exception) of reading back what `spec` writes for the generic textgrid of `shape`."""
    key = (spec, tuple(shape), crlf)
    if key not in _RT_CACHE:
        idx = common.ctx()
        I0, d, pieces = symbolic_document(spec, shape)
        enc = DocEncoding()
        text = enc.encode(pieces)
        if crlf:
            text = text.replace("\n", "\r\n")
            for k in list(enc.raw):
                enc.raw[k] = enc.raw[k]  # labels keep their own line breaks as written
        try:
            I, back = read_back(idx, text, enc)
            _RT_CACHE[key] = (I, enc, d, back, None)
        except (PyRaise, Undecided) as e:
            _RT_CACHE[key] = (None, enc, d, None, e)
    return _RT_CACHE[key]


def rule_round_trip(rep, tier, rule="RT-doc"):
    """parseTextgridStr, interpreted on the text the two emitters write for generic textgrids (numerals and labels as
    opaque atoms with adversarial skeletons), returns the dictionary that was written."""
    idx = common.ctx()
    rd = idx.get("utilities.textgrid_io:parseTextgridStr")
    for q in (LONG_R, SHORT_R, "utilities.textgrid_io:_fetchRow", "utilities.textgrid_io:_fetchTextRow", "utilities.utils:strToIntOrFloat"):
        if idx.try_get(q):
            rep.functions.add(idx.get(q).qual)
    shapes = [s_ for s_ in DOC_SHAPES if s_]  # a textgrid without tiers is outside the quantifier (1..n tiers)
    shapes += [[("interval", 5)], [("point", 5)]]
    if tier == "thorough":
        shapes += [[("interval", 3), ("interval", 0), ("point", 0), ("point", 4)], [("point", 0)], [("interval", 1)] * 4]
    cases = [(spec, fmt, shape, False) for spec, fmt in ((LONG_W, "long"), (SHORT_W, "short")) for shape in shapes]
    cases += [(spec, fmt, DOC_SHAPES[0], True) for spec, fmt in ((LONG_W, "long"), (SHORT_W, "short"))]
    for spec, fmt, shape, crlf in cases:
        if True:
            what = "%s form%s of a generic textgrid [%s]" % (fmt, " with CRLF line ends" if crlf else "", ", ".join("%s x%d" % sk for sk in shape))
            try:
                I, enc, d, back, err = round_trip(spec, shape, crlf)
            except (PyRaise, Undecided) as e:
                rep.undecided(rule, rd.short, what, "the emitter could not be interpreted: %s" % e)
                continue
            if isinstance(err, Undecided):
                rep.undecided(rule, rd.short, what, str(err))
                continue
            if isinstance(err, PyRaise):
                rep.refuted(rule, rd.short, what, "reading back what was written raises %s" % err.name, loc=rd.loc)
                continue
            diff = compare_read(I, enc, back, d)
            rep.check(diff is None, rule, rd.short, what, ok="every name, class, span, time and label comes back (labels with doubled quotes, line breaks, quote-only labels)",
                      bad=diff or "", loc=rd.loc)
    rep.floor(rule, 10)


def rule_sibling_readers(rep, rule="H-siblings"):
    """The long and the short encoding of the same data -- written with labels as a foreign writer may produce them
    (surrounding blanks, blank-only, empty, a lone line break) -- open to equal dictionaries, with and without
    blank removal."""
    idx = common.ctx()
    rd = idx.get("utilities.textgrid_io:parseTextgridStr")
    st = State([("0", Lin.num(0))], [0])
    for shape in ([("interval", 6), ("point", 6)], [("point", 2), ("interval", 3)]):
        for include in (True, False):
            what = "generic textgrid [%s], includeEmptyIntervals=%s" % (", ".join("%s x%d" % sk for sk in shape), include)
            enc = DocEncoding(spec_style=True)
            outs = {}
            try:
                for spec, fmt in ((LONG_W, "long"), (SHORT_W, "short")):
                    _, d, pieces = symbolic_document(spec, shape)
                    text = enc.encode(pieces)
                    I = Interp(idx, st, overrides=default_overrides())
                    I.builtin_overrides = _reader_overrides(enc, [])
                    I.MAX_STEPS = 4000000
                    outs[fmt] = (I, I.call_function(rd, [text, include], {}))
            except PyRaise as e:
                rep.refuted(rule, rd.short, what, "the %s form of a specification-conformant file cannot be read: %s" % (fmt, e.name), loc=rd.loc)
                continue
            except Undecided as e:
                rep.undecided(rule, rd.short, what, str(e))
                continue

            def flat(I, v):
                if isinstance(v, DictVal):
                    return {str(k): flat(I, x) for k, x in v.d.items()}
                if isinstance(v, (Lst, Tup)):
                    return [flat(I, x) for x in v.items]
                if isinstance(v, str):
                    t = v.strip()
                    return ("num", enc.tokens[t].key()) if t in enc.tokens else ("str", v)
                if isinstance(v, Lin):
                    return ("num", v.key())
                return repr(v)
            a, b = flat(*outs["long"]), flat(*outs["short"])
            diff = None
            if a != b:
                ta, tb = a.get("tiers", []), b.get("tiers", [])
                diff = "textgrid spans differ" if (a.get("xmin"), a.get("xmax")) != (b.get("xmin"), b.get("xmax")) else None
                for n, (x, y) in enumerate(zip(ta, tb), 1):
                    if x != y and diff is None:
                        ex, ey = x.get("entries", []), y.get("entries", [])
                        diff = "tier %d: long form gives %d entries %r, short form %d entries %r" % (n, len(ex), [e[-1] for e in ex], len(ey), [e[-1] for e in ey])
                diff = diff or "the dictionaries differ"
            rep.check(diff is None, rule, rd.short, what, ok="long and short encodings of the same data open to equal dictionaries", bad=diff or "", loc=rd.loc)
    rep.floor(rule, 4)


# ------------------------------------------------------------------------------------ C-blocks


def _escape(s):
    return s.replace('"', '""')


def reader_closure():
    """Functions of textgrid_io reachable from parseTextgridStr through direct calls and function-valued names."""
    idx = common.ctx()
    root = idx.get("utilities.textgrid_io:parseTextgridStr")
    mod = root.module
    seen, todo = {}, [root]
    while todo:
        f = todo.pop()
        if f.qual in seen:
            continue
        seen[f.qual] = f
        for n in ast.walk(f.node):
            if isinstance(n, ast.Name) and n.id in mod.functions and n.id != f.name:
                todo.append(mod.functions[n.id])
    return [seen[k] for k in sorted(seen)]


def _const_strs(idx, fn, expr, depth=0):
    """Constant-fold a string expression: literals, +, module-level and local single-assignment names."""
    if depth > 6:
        return []
    if isinstance(expr, ast.Constant) and isinstance(expr.value, str):
        return [expr.value]
    if isinstance(expr, ast.BinOp) and isinstance(expr.op, ast.Add):
        return [a + b for a in _const_strs(idx, fn, expr.left, depth + 1) for b in _const_strs(idx, fn, expr.right, depth + 1)]
    if isinstance(expr, ast.Name):
        vals = [a.value for a in ast.walk(fn.node) if isinstance(a, ast.Assign) and len(a.targets) == 1 and norm(a.targets[0]) == expr.id]
        if not vals:
            node = fn.module.const_nodes.get(expr.id) if hasattr(fn.module, "const_nodes") else None
            vals = [node] if node is not None else []
        out = []
        for v in vals:
            out += _const_strs(idx, fn, v, depth + 1)
        return out
    return []


def rule_scans(rep, rule="C-scan"):
    """Delimiter scans over raw text must not be able to match inside an escaped payload (constructive test).
    Findings are keyed by the scanned pattern, wherever in the reader's call closure the scan sits."""
    idx = common.ctx()
    seen = set()

    def verdict(fn, node, pat, is_regex, kind):
        if (pat, is_regex, kind) in seen:
            return
        seen.add((pat, is_regex, kind))
        _scan_verdict(rep, rule, fn, node, pat, is_regex, kind)
    for fn in reader_closure():
        rep.functions.add(fn.qual)
        for node in ast.walk(fn.node):
            if isinstance(node, ast.Call):
                f = norm(node.func)
                if f == "re.split" and node.args:
                    kind = "first" if any(k.arg == "maxsplit" for k in node.keywords) or len(node.args) > 2 else "global"
                    for p2 in _const_strs(idx, fn, node.args[0]):
                        verdict(fn, node, p2, True, kind)
                elif f.endswith("findAll") and len(node.args) == 2:
                    for p2 in _const_strs(idx, fn, node.args[1]):
                        verdict(fn, node, p2, False, "global")
                elif f in ("re.finditer", "re.findall") and node.args:
                    for p2 in _const_strs(idx, fn, node.args[0]):
                        verdict(fn, node, p2, True, "global")
            elif isinstance(node, ast.Compare) and len(node.ops) == 1 and isinstance(node.ops[0], (ast.In, ast.NotIn)) and isinstance(node.comparators[0], ast.Name) \
                    and not (isinstance(node.left, ast.Constant) and len(str(node.left.value)) == 1):
                for p2 in _const_strs(idx, fn, node.left):
                    verdict(fn, node, p2, False, "global")
    # scans the reader actually performed over payload-bearing text while reading the written documents back
    from ..absint import _has_payload

    class _At:  # location stand-in for scans seen only in the interpretation
        def __init__(self, frame):
            self.short = "textgrid_io." + frame

        def where(self, node):
            return "praatio/utilities/textgrid_io.py"
    for spec in (LONG_W, SHORT_W):
        for shape in DOC_SHAPES[:2]:
            I, enc, d, back, err = round_trip(spec, shape)
            if I is None:
                continue
            for frame, func, pat, flags, text, maxsplit in I.__dict__.get("regex_log", []):
                if func in ("split", "findall", "finditer") and _has_payload(text):
                    verdict(_At(frame), None, pat, True, "first" if (func == "split" and maxsplit) else "global")
            for m, needle, frame in I.__dict__.get("scan_log", []):
                if len(needle) >= 3 and any(ch.isalnum() for ch in needle):
                    verdict(_At(frame), None, needle, False, "global")
    rep.floor(rule, 7, "delimiter scan patterns found in the reader's call closure or performed during the interpretation")


def _scan_verdict(rep, rule, fn, node, pat, is_regex, kind):
    rx = re.compile(pat, re.MULTILINE) if is_regex else re.compile(re.escape(pat))
    sample = _sample(pat) if is_regex else pat
    hits = [p for p in (sample, '"' + sample, sample + '"', '"' + sample + '"', "x " + sample + " y") if rx.search(_escape(p))]
    where = "%s: %s" % ("re.split" if is_regex else "scan", pat)
    if kind == "first":
        rep.proved(rule, "text readers", where, "first-match scan: the header line precedes every payload", loc=fn.where(node))
    elif not hits:
        rep.proved(rule, "text readers", where, "the pattern cannot occur inside an escaped payload (every '\"' of a payload is doubled)", loc=fn.where(node))
    else:
        rep.refuted(rule, "text readers", where, "global scan over text that includes payloads (in %s); a label such as %r contains the delimiter and derails the parser" % (fn.short, hits[0]), loc=fn.where(node))


def _sample(pat):
    s = pat.replace(" ?", "").replace("\\[", "[").replace("\\]", "]")
    return s


# ------------------------------------------------------------------------------------ JSON / dictionary protocol


def rule_json_protocol(rep, rule="C-keys"):
    """Interpret the dictionary pipeline on a generic textgrid: key sets, README schemas, json down/up conversion."""
    from ..absint import label_var
    from ..tables import Atoms, declare_tier, run_code
    from .tgops import build_tg

    idx = common.ctx()
    todict = idx.get("data_classes.textgrid:_tgToDictionary")
    down = idx.get("utilities.textgrid_io:_downconvertDictionaryForJson")
    up = idx.get("utilities.textgrid_io:_upconvertDictionaryFromJson")
    at = Atoms()
    ents, m, M = declare_tier(at, 1, "interval", prefix="i", span=False, as_atoms=False)
    pts, _, _ = declare_tier(at, 1, "point", prefix="p", span=False, as_atoms=False)
    m, M = at.var("m"), at.var("M")
    at.rel("m", "<", "M")
    at.fact_le(m, ents[0][0]); at.fact_le(ents[0][1], M); at.fact_le(m, pts[0][0]); at.fact_le(pts[0][0], M)
    st = next(iter(at.states()))

    def code(I):
        tg, objs = build_tg(I, [("interval", "phone", ents), ("point", "pitch", pts)], m, M)
        d = I.call_function(todict, [tg], {})
        dn = I.call_function(down, [d], {})
        back = I.call_function(up, [dn], {})
        return d, dn, back
    got, I = run_code(idx, st, code)
    if got.kind != "ok":
        rep.undecided(rule, todict.short, "dictionary pipeline", "%s: %s" % (got.kind, got.value))
        return
    d, dn, back = got.value

    def shape(v):
        if isinstance(v, DictVal):
            return {str(k): shape(x) for k, x in v.d.items()}
        if isinstance(v, Lst) or (isinstance(v, Tup) and v.cls is None and v.items and isinstance(v.items[0], (DictVal, Tup, Lst))):
            items = v.items
            return [shape(items[0])] if items else []
        return "v"

    def jshape(v):
        if isinstance(v, dict):
            return {k: jshape(x) for k, x in v.items()}
        if isinstance(v, list):
            return [jshape(v[0])] if v and isinstance(v[0], (dict, list)) else ("v" if not v or not isinstance(v[0], (dict, list)) else [])
        return "v"
    blocks = tf.readme_json_blocks(idx.repo)
    rj = [b for b in blocks if "start" in b]
    rt = [b for b in blocks if "xmin" in b]
    if len(rj) != 1 or len(rt) != 1:
        rep.vanished(rule, "README.md", "JSON schemas under 'Output types'", "expected one 'start/end' and one 'xmin/xmax' JSON block, found %d/%d" % (len(rj), len(rt)))
        return

    def keyset(sh):
        out = set()

        def w(x, p):
            if isinstance(x, dict):
                for k, v in x.items():
                    out.add(p + "/" + k if p else k)
                    w(v, (p + "/" + k) if p else k)
            elif isinstance(x, list) and x:
                w(x[0], p + "[]")
        w(sh, "")
        return out
    tj_code = keyset(shape(d))
    tj_doc = keyset(jshape(rt[0]))
    rep.check(tj_code == tj_doc, rule, todict.short, "textgrid_json keys", ok="emitted keys equal the README schema: %s" % sorted(tj_code),
              bad="textgrid_json keys differ from the README schema: code-only %s, doc-only %s" % (sorted(tj_code - tj_doc), sorted(tj_doc - tj_code)))
    # plain json: tiers keyed by name -> generalise tier names
    def norm_names(ks, names):
        out = set()
        for k in ks:
            for nme in names:
                k = k.replace("tiers/" + nme, "tiers/<name>")
            out.add(k)
        return out
    j_code = norm_names(keyset(shape(dn)), ["phone", "pitch"])
    j_doc = norm_names(keyset(jshape(rj[0])), list(rj[0]["tiers"].keys()))
    rep.check(j_code == j_doc, rule, down.short, "json keys", ok="emitted keys equal the README schema: %s" % sorted(j_code),
              bad="json keys differ from the README schema: code-only %s, doc-only %s" % (sorted(j_code - j_doc), sorted(j_doc - j_code)))
    # class strings
    classes = [str(t.d["class"]) for t in I.iterate(d.d["tiers"])]
    doc_classes = [t["class"] for t in rt[0]["tiers"]]
    rep.check(classes == doc_classes, rule, todict.short, "class strings", ok="IntervalTier / TextTier as documented", bad="tier class strings %s differ from the README's %s" % (classes, doc_classes))
    # up(down(d)) == d with every tier carrying the textgrid's span (the documented exemption of plain json)
    problems = []
    from ..tables import num_equal, entry_equal
    for k in ("xmin", "xmax"):
        if not num_equal(I, back.d[k], d.d[k]):
            problems.append("textgrid %s" % k)
    bt, dt = I.iterate(back.d["tiers"]), I.iterate(d.d["tiers"])
    if len(bt) != len(dt):
        problems.append("tier count")
    for x, y in zip(bt, dt):
        for k in ("class", "name"):
            if str(x.d[k]) != str(y.d[k]):
                problems.append("tier %s" % k)
        if not (num_equal(I, x.d["xmin"], d.d["xmin"]) and num_equal(I, x.d["xmax"], d.d["xmax"])):
            problems.append("tier span is not the textgrid's span")
        ex, ey = I.iterate(x.d["entries"]), I.iterate(y.d["entries"])
        if len(ex) != len(ey) or any(not entry_equal(I, I.iterate(a), I.iterate(b)) for a, b in zip(ex, ey)):
            problems.append("entries of %s" % x.d["name"])
    rep.check(not problems, rule, up.short, "up(down(dict))", ok="the plain-json conversion is a key bijection that drops only the per-tier spans; tier order preserved",
              bad="json down/up conversion loses or changes: %s" % ", ".join(problems))
    # a span override narrower than the tiers' own spans (C04: "an override becomes the file's span"): the plain-json
    # document carries the override, not a span recomputed from the tiers
    prep = idx.get("utilities.textgrid_io:_prepTgForSaving")
    at2 = Atoms()
    ents2, _, _ = declare_tier(at2, 1, "interval", prefix="i", span=False, as_atoms=False)
    m2, M2, lo, hi = at2.var("m"), at2.var("M"), at2.var("lo"), at2.var("hi")
    for a_, b_ in (("m", "lo"), ("hi", "M")):
        at2.rel(a_, "<", b_)
    at2.fact_le(lo, ents2[0][0]); at2.fact_le(ents2[0][1], hi)
    st2 = next(iter(at2.states()))

    def code2(I):
        tg, objs = build_tg(I, [("interval", "phone", ents2)], m2, M2)
        d_ = I.call_function(todict, [tg], {})
        d_ = I.call_function(prep, [d_, False, lo, hi, None], {})
        return I.call_function(down, [d_], {})
    got2, I2 = run_code(idx, st2, code2)
    if got2.kind != "ok":
        rep.undecided(rule, down.short, "override in plain json", "%s: %s" % (got2.kind, got2.value))
    else:
        dn2 = got2.value
        ok2 = num_equal(I2, dn2.d["start"], lo) and num_equal(I2, dn2.d["end"], hi)
        rep.check(ok2, rule, down.short, "span override narrower than the tiers' spans", ok="start/end are the requested span",
                  bad="plain json is written with span (%r, %r), the requested span is (lo, hi): the override is undone" % (dn2.d["start"], dn2.d["end"]))
    rep.floor(rule, 5)


# ------------------------------------------------------------------------------------ reader control flow


def _flow_dispatch(rep, rule):
    """parseTextgridStr interpreted on one exemplar header per layout with json.loads and the two text parsers
    abstracted to recorders: JSON first; the long parser for the long layout, the short parser for both short
    headers; the plain-json dictionary is up-converted; entries with an empty label are dropped from every tier iff
    includeEmptyIntervals is False, and nothing else is dropped or reordered."""
    from ..absint import label_var

    idx = common.ctx()
    fn = idx.get("utilities.textgrid_io:parseTextgridStr")
    rep.functions.add(fn.qual)
    rep.functions.add(idx.get("utilities.textgrid_io:_removeBlanks").qual)
    st = State([("0", Lin.num(0))], [0])
    docs = {
        "long text": ('File type = "ooTextFile"\nObject class = "TextGrid"\n\nxmin = 0 \nxmax = 1 \ntiers? <exists> \nsize = 1 \nitem []: \n    item [1]:\n', "normal"),
        "short text": ('File type = "ooTextFile"\nObject class = "TextGrid"\n\n0\n1\n<exists>\n1\n"IntervalTier"\n"a"\n0\n1\n0\n', "short"),
        "short text (explicit header)": ('File type = "ooTextFile short"\n"TextGrid"\n\n0\n1\n<exists>\n1\n"IntervalTier"\n"item [1]"\n0\n1\n0\n', "short"),
        "textgrid_json": ("{...}", "tgjson"),
        "json": ("{...}", "json"),
    }

    def generic():
        lv = label_var("L")
        iv = [Tup([Lin.var("s1"), Lin.var("e1"), "a"], "Interval"), Tup([Lin.var("s2"), Lin.var("e2"), ""], "Interval"), Tup([Lin.var("s3"), Lin.var("e3"), lv], "Interval")]
        pv = [Tup([Lin.var("t1"), ""], "Point"), Tup([Lin.var("t2"), "b"], "Point"), Tup([Lin.var("t3"), ""], "Point")]
        t1, t2, d = DictVal(), DictVal(), DictVal()
        t1.d = {"class": "IntervalTier", "name": "A", "xmin": Lin.var("m"), "xmax": Lin.var("M"), "entries": Lst(iv)}
        t2.d = {"class": "TextTier", "name": "B", "xmin": Lin.var("m"), "xmax": Lin.var("M"), "entries": Lst(pv)}
        d.d = {"xmin": Lin.var("m"), "xmax": Lin.var("M"), "tiers": Lst([t1, t2])}
        return d, iv, pv

    for what, (text, kind) in docs.items():
        for include in (False, True):
            log = []
            G, iv, pv = generic()
            raw = DictVal()
            raw.d = ({"start": Lin.var("m"), "end": Lin.var("M"), "tiers": DictVal()} if kind == "json" else dict(G.d))

            def loads(I, args, kwargs):
                log.append("json.loads")
                if kind in ("json", "tgjson"):
                    return raw if kind == "json" else G
                raise PyRaise("JSONDecodeError")

            def parser(name):
                def f(I, args, kwargs):
                    log.append(name)
                    return G
                return f
            ov = dict(default_overrides())
            ov.update({"textgrid_io._parseShortTextgrid": parser("short"), "textgrid_io._parseNormalTextgrid": parser("normal"), "textgrid_io._upconvertDictionaryFromJson": parser("up")})
            I = Interp(idx, st, overrides=ov)
            I.builtin_overrides = {"json.loads": loads}
            case = "%s, includeEmptyIntervals=%s" % (what, include)
            try:
                out = I.call_function(fn, [text, include], {})
            except PyRaise as e:
                rep.refuted(rule, fn.short, case, "raises %s" % e.name, loc=fn.loc)
                continue
            except Undecided as e:
                rep.undecided(rule, fn.short, case, str(e))
                continue
            problems = []
            want_log = {"normal": ["json.loads", "normal"], "short": ["json.loads", "short"], "tgjson": ["json.loads"], "json": ["json.loads", "up"]}[kind]
            if log != want_log:
                problems.append("decoding steps %s, expected %s" % (log, want_log))
            if out is not G:
                problems.append("the parser's dictionary is not what is returned")
            else:
                for tname, t, orig in (("interval", I.iterate(G.d["tiers"])[0], iv), ("point", I.iterate(G.d["tiers"])[1], pv)):
                    got = I.iterate(t.d["entries"])
                    exp = orig if include else [e for e in orig if not (isinstance(e.items[-1], str) and e.items[-1] == "")]
                    if len(got) != len(exp) or any(a is not b for a, b in zip(got, exp)):
                        problems.append("%s tier keeps %d of %d entries, expected %d (%s)" % (tname, len(got), len(orig), len(exp), "all" if include else "exactly those with a non-empty label, in order"))
            rep.check(not problems, rule, fn.short, case, ok="decoded by %s; %s" % (" > ".join(want_log), "every entry kept" if include else "exactly the empty-labelled entries of every tier dropped"),
                      bad="; ".join(problems), loc=fn.loc)


def _flow_encodings(rep, rule):
    """openTextgrid interpreted with io.open as a recorder and parseTextgridStr abstracted: the file is read as
    UTF-16 first; only when that fails with a UnicodeError is it read again as UTF-8; the text that was read is what
    gets parsed; the caller's includeEmptyIntervals reaches the parser."""
    from ..absint import MockObj, PyFunc

    idx = common.ctx()
    fn = idx.get("textgrid:openTextgrid")
    rep.functions.add(fn.qual)
    st = State([("0", Lin.num(0))], [0])
    for what, utf16_ok in (("a BOM-marked UTF-16 file", True), ("a UTF-8 file", False)):
        opened, parsed = [], []

        def fopen(I, a, k):
            enc = k.get("encoding", a[3] if len(a) > 3 else None)
            mode = a[1] if len(a) > 1 else k.get("mode", "r")
            opened.append((mode, enc))

            def read(I_, *x, enc=enc):
                if enc == "utf-16" and not utf16_ok:
                    raise PyRaise("UnicodeError")
                return "<text decoded as %s>" % enc
            f = MockObj({"read": PyFunc(read), "close": PyFunc(lambda I_: None)}, "file")
            f.attrs["__enter__"] = PyFunc(lambda I_: f)
            f.attrs["__exit__"] = PyFunc(lambda I_, *x: None)
            return f

        def parse(I, a, k):
            parsed.append((a[0], a[1] if len(a) > 1 else k.get("includeEmptyIntervals")))
            d = DictVal()
            d.d = {"xmin": Lin.num(0), "xmax": Lin.num(1), "tiers": Lst([])}
            return d
        ov = dict(default_overrides())
        ov["textgrid_io.parseTextgridStr"] = parse
        I = Interp(idx, st, overrides=ov)
        I.builtin_overrides = {"io.open": fopen, "open": fopen}
        try:
            I.call_function(fn, ["some.TextGrid", True], {})
        except PyRaise as e:
            rep.refuted(rule, fn.short, what, "opening raises %s" % e.name, loc=fn.loc)
            continue
        except Undecided as e:
            rep.undecided(rule, fn.short, what, str(e))
            continue
        want = [("r", "utf-16")] if utf16_ok else [("r", "utf-16"), ("r", "utf-8")]
        problems = []
        if opened != want:
            problems.append("the file is opened as %s, expected %s" % (opened, want))
        if len(parsed) != 1 or parsed[0][0] != "<text decoded as %s>" % want[-1][1]:
            problems.append("the parser receives %r" % (parsed,))
        elif parsed[0][1] is not True:
            problems.append("includeEmptyIntervals does not reach the parser (%r)" % (parsed[0][1],))
        rep.check(not problems, rule, fn.short, what, ok="read as %s; that text is parsed" % " then ".join(e for _, e in want), bad="; ".join(problems), loc=fn.loc)


def rule_reader_flow(rep, rule="C-flow"):
    """CRLF normalisation dominates scanning; format sniffing order; blank removal; encoding fallback."""
    idx = common.ctx()
    # parseTextgridStr interpreted with the parsers abstracted to recorders
    _flow_dispatch(rep, rule)
    # openTextgrid interpreted with the file system and the parser abstracted
    _flow_encodings(rep, rule)
    rep.floor(rule, 11)


def rule_duplicate_names(rep, rule="C-dupnames"):
    """Interpret the duplicate-name loop of openTextgrid on name lists: error raises, rename yields unique names in file order."""
    idx = common.ctx()
    fn = idx.get("textgrid:openTextgrid")
    rep.functions.add(fn.qual)
    body = fn.node.body
    parse_pos = [i for i, st_ in enumerate(body) if any(isinstance(n, ast.Call) and norm(n.func).endswith("parseTextgridStr") for n in ast.walk(st_))]
    ret_pos = [i for i, st_ in enumerate(body) if isinstance(st_, ast.Return)]
    if len(parse_pos) != 1 or len(ret_pos) != 1 or not isinstance(body[parse_pos[0]], ast.Assign):
        rep.vanished(rule, fn.short, "tgAsDict = parseTextgridStr(...) ... return", "cannot locate the statements between parsing and building the Textgrid")
        return
    dict_name = norm(body[parse_pos[0]].targets[0])
    middle = body[parse_pos[0] + 1:ret_pos[0]]
    loop = middle[0] if middle else body[parse_pos[0]]
    cases = [["a", "b"], ["w", "w"], ["Mary", "Mary", "Mary"], ["A", "B", "A", "B"], ["w", "w_2", "p", "w"], ["A", "A_2", "A", "B", "A"], ["x", "x_2", "x_3", "x", "x"]]
    st = State([("0", Lin.num(0))], [0])
    for mode in ("error", "rename"):
        bad = []
        for names in cases:
            I = Interp(idx, st, overrides=default_overrides())
            tiers = Lst([DictVal({"name": n, "class": "IntervalTier"}) for n in names])
            env = {"__fn__": fn, dict_name: DictVal({"tiers": tiers}), "duplicateNamesMode": mode}
            try:
                for s_ in middle:
                    I.exec_stmt(s_, env)
                out = [t.d["name"] for t in tiers.items]
                raised = None
            except PyRaise as e:
                out, raised = None, e.name
            except Undecided as e:
                rep.undecided(rule, fn.short, "names %s" % names, str(e))
                return
            dup = len(set(names)) != len(names)
            if mode == "error":
                if dup != (raised == "DuplicateTierName"):
                    bad.append("%s -> %s" % (names, raised or out))
            else:
                okk = raised is None and len(set(out)) == len(out) and all(o == n or o.startswith(n + "_") for o, n in zip(out, names)) and all(o == n for o, n, i in zip(out, names, range(len(names))) if n not in names[:i])
                if not okk:
                    bad.append("%s -> %s" % (names, raised or out))
        rep.check(not bad, rule, fn.short, "duplicateNamesMode=%s" % mode,
                  ok=("duplicates raise DuplicateTierName before any Textgrid is built" if mode == "error" else "renamed to unique names in file order (first occurrence keeps its name), also when a literal name looks like a generated one"),
                  bad="duplicate handling fails for: " + "; ".join(bad[:3]), loc=fn.where(loop))
    rep.floor(rule, 2)
