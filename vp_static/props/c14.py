"""C14 -- boundary adjusters move times only as far as allowed and keep labels."""

from .. import specs
from ..absint import Lin, Lst, PyFunc, PyRaise, Str, Tup, label_var
from ..tables import (Atoms, Outcome, TableRun, build_tier, compare_outcomes, declare_tier, read_tier, run_code,
                      run_spec, run_states, tier_equal)
from . import common
from .tgops import build_tg, read_tg


def dejitter_table(rep, kind, k, refkind, r, history=False):
    """history=True: the reference tier has already served as a reference (its .timestamps were read) and then lost
    its first entry through deleteEntry; dejitter must snap onto the timestamps it has now."""
    idx = common.ctx()
    cls = "IntervalTier" if kind == "interval" else "PointTier"
    fn = idx.get(cls + ".dejitter")
    rep.functions.add(fn.qual)
    at = Atoms()
    ents, m, M = declare_tier(at, k, kind, span=True, span_atoms=False)
    R, rm, rM = declare_tier(at, r, refkind, prefix="r", span=True, span_atoms=False)
    D = Lin.var("D")
    at.fact_lt(Lin.num(0), D)  # maxDifference > 0
    if refkind == "interval":
        refs = [x for e in R for x in (e[0], e[1])]
    else:
        refs = [e[0] for e in R]
    tr = TableRun(rep, "T13-dejitter-history" if history else "T13-dejitter", fn.short, fn.loc)
    if history:
        refs = refs[2:] if refkind == "interval" else refs[1:]

    def rows(st):
        def code(I):
            t = build_tier(I, kind, "T", ents, m, M)
            ref = build_tier(I, refkind, "R", R, rm, rM)
            if history:
                I.iterate(I.getattr(ref, "timestamps"))
                try:
                    I.call_value(I.getattr(t, "dejitter"), [ref, D], {})
                except PyRaise:
                    pass
                I.call_value(I.getattr(ref, "deleteEntry"), [I.iterate(I.getattr(ref, "entries"))[0]], {})
            res = I.call_value(I.getattr(t, "dejitter"), [ref, D], {})
            return read_tier(I, res)
        got, I = run_code(idx, st, code)

        def spec(O):
            # reference timestamps are the sorted set of the reference tier's boundary times
            uniq = []
            for x in refs:
                if not any(O.eq(x, y) for y in uniq):
                    uniq.append(x)
            return specs.dejitter(O, kind, ents, m, M, uniq, D)
        want = run_spec(idx, st, spec)
        return [compare_outcomes(I, "dejitter", got, want)]

    run_states(at, rows, tr)
    tr.done("%d %s entries against a %s reference with %d entries%s, maxDifference D>0" % (k, kind, refkind, r, " that was used once and then lost its first entry" if history else ""))


def morph_table(rep, k):
    idx = common.ctx()
    fn = idx.get("IntervalTier.morph")
    rep.functions.add(fn.qual)
    at = Atoms()
    A, m, M = declare_tier(at, k, "interval", span=True, as_atoms=False, span_atoms=False)
    at.var("M")
    tr = TableRun(rep, "T14-morph", fn.short, fn.loc)
    filters = [("all", None, lambda l: True), ("first only", PyFunc(lambda I, l: isinstance(l, Str) and l.parts == ("l1",)), lambda l: l.parts == ("l1",)),
               ("none", PyFunc(lambda I, l: False), lambda l: False)]

    def rows(st):
        out = []
        for kt in ((k - 1, k, k + 1) if k >= 1 else (k, k + 1)):
            T, tm, tM = specs_target(kt)
            for fname, fcode, fspec in filters:
                def code(I):
                    ta = build_tier(I, "interval", "A", A, m, M)
                    tt = build_tier(I, "interval", "T", T, tm, tM)
                    res = I.call_value(I.getattr(ta, "morph"), [tt, fcode], {})
                    return read_tier(I, res)
                got, I = run_code(idx, st, code)
                want = run_spec(idx, st, lambda O: specs.morph(O, A, m, M, T, fspec))
                out.append(compare_outcomes(I, (fname, "target with %d entries" % kt), got, want))
        return out

    def specs_target(kt):
        T, tm, tM = declare_tier(at_t, kt, "interval", prefix="t", span=True, as_atoms=False, span_atoms=False)
        return T, tm, tM

    at_t = at  # the target's facts live in the same domain
    # pre-declare the targets' facts once (k and k+1 entries share variable names)
    declare_tier(at, k + 1, "interval", prefix="t", span=True, as_atoms=False, span_atoms=False)

    def specs_target(kt):  # noqa: F811
        from ..tables import mk_entries
        ents, _ = mk_entries(kt, "interval", "t")
        return ents, Lin.var("tm"), Lin.var("tM")

    run_states(at, rows, tr)
    tr.done("%d generic source intervals x target with equal / different count x 3 label filters" % k)


def align_table(rep):
    """alignBoundariesAcrossTiers applies dejitter to every non-reference tier and leaves the reference tier alone."""
    idx = common.ctx()
    fn = idx.get("praatio_scripts:alignBoundariesAcrossTiers")
    rep.functions.add(fn.qual)
    at = Atoms()
    m, M = Lin.var("m"), Lin.var("M")
    at.fact_le(m, M)
    D = Lin.var("D")
    at.fact_lt(Lin.num(0), D)
    tiers = []
    for kind, name, k in (("interval", "A", 1), ("point", "R", 1), ("point", "B", 1)):
        ents, _, _ = declare_tier(at, k, kind, prefix=name, span=False)
        first = name + ("s1" if kind == "interval" else "t1")
        last = name + ("e1" if kind == "interval" else "t1")
        at.fact_le(m, Lin.var(first))
        at.fact_le(Lin.var(last), M)
        tiers.append((kind, name, ents))
    tr = TableRun(rep, "T13-align", fn.short, fn.loc)

    def rows(st):
        def code(I):
            tg, objs = build_tg(I, tiers, m, M)
            ref = objs[1]
            expected = []
            exp_raise = None
            for t in objs:
                if t is ref:
                    expected.append(read_tier(I, t))
                    continue
                try:
                    expected.append(read_tier(I, I.call_value(I.getattr(t, "dejitter"), [ref, D], {})))
                except PyRaise as e:
                    exp_raise = e.name
                    break
            try:
                res = I.call_function(fn, [tg, "R", D], {})
            except PyRaise as e:
                return {"raise": e.name, "exp_raise": exp_raise}
            got = read_tg(I, res)
            got["expected"] = expected
            got["exp_raise"] = exp_raise
            got["ref_same"] = I.call_value(I.getattr(res, "getTier"), ["R"], {}) is ref
            return got
        got, I = run_code(idx, st, code)
        if got.kind != "ok":
            return [compare_outcomes(I, "align", got, Outcome("ok", None))]
        v = got.value
        if "raise" in v:
            ok = v["raise"] == v["exp_raise"] or v["raise"] == "ArgumentError"
            return [("align", ok, "raises %s but dejitter on the tiers %s" % (v["raise"], v["exp_raise"] or "does not raise"), None)]
        if v["exp_raise"]:
            return [("align", False, "dejitter raises %s but alignBoundariesAcrossTiers returns" % v["exp_raise"], None)]
        diff = None
        if [str(n) for n in v["names"]] != ["A", "R", "B"]:
            diff = "tier names %s" % v["names"]
        elif not v["ref_same"]:
            diff = "the reference tier was replaced"
        else:
            for gt, et in zip(v["tiers"], v["expected"]):
                d = tier_equal(I, gt, et)
                if d:
                    diff = "tier %s differs from dejitter(reference, maxDifference): %s" % (gt["name"], d)
                    break
        return [("align", diff is None, diff or "", None)]

    run_states(at, rows, tr)
    tr.done("textgrid {A interval, R point reference, B point}")


def run(rep, tier):
    rep.rule("T13-dejitter", "abstract interpretation of IntervalTier/PointTier.dejitter against the spec: each timestamp moves to the nearest reference timestamp iff it lies within maxDifference (inclusive), else stays; count, order and labels unchanged; collapsing or crossing intervals raise TextgridStateError.  The abstract state is refined on every distance comparison the code or the spec makes")
    rep.rule("T13-align", "alignBoundariesAcrossTiers replaces every non-reference tier by its dejitter result under the same name and keeps the reference tier object")
    rep.rule("T14-morph", "abstract interpretation of IntervalTier.morph (linear arithmetic over symbolic boundaries): selected intervals take the target's duration, labels, gaps, first start and trailing gap preserved; unequal counts raise SafeZipException")
    rep.not_decided.append("which candidate wins an exact equidistant tie (the spec follows min(): the earlier reference timestamp)")
    combos = [("interval", 1, "point", 1), ("interval", 1, "point", 2), ("point", 1, "point", 2), ("point", 2, "point", 1), ("interval", 1, "interval", 1), ("interval", 1, "point", 0)]
    if tier == "thorough":
        combos += [("interval", 2, "point", 1), ("interval", 2, "point", 2), ("point", 2, "interval", 1)]
    for kind, k, refkind, r in combos:
        dejitter_table(rep, kind, k, refkind, r)
    align_table(rep)
    for k in ([1, 2] if tier == "quick" else [1, 2, 3]):
        morph_table(rep, k)

    rep.rule("T13-dejitter-history", "dejitter against a reference tier that has served as a reference before and was then edited in place (deleteEntry): the result is the one for the reference's current timestamps (a derived view kept from the first use would be stale)")
    dejitter_table(rep, "point", 1, "point", 2, history=True)
    dejitter_table(rep, "interval", 1, "point", 2, history=True)
    rep.rule("V-fresh", "no method or property of a tier / textgrid class is memoised (cached_property, lru_cache): derived views such as .timestamps are recomputed from the current entries at every access")
    common.rule_no_memo(rep)
