"""Textgrid-level tables: the textgrid operation equals the tier operation applied to every tier."""

from ..absint import Lin, Lst, ObjVal, PyRaise, Tup, label_var
from ..tables import (Atoms, Outcome, TableRun, build_tier, compare_outcomes, declare_tier, entry_equal, num_equal,
                      label_equal, read_tier, run_code, run_spec, run_states, tier_equal)
from . import common


def build_tg(I, tiers, m, M):
    """tiers: list of (kind, name, ents) all sharing the span [m, M]."""
    tgcls = I.idx.cls("Textgrid")
    tg = I.instantiate(tgcls, [m, M], {})
    objs = []
    for kind, name, ents, *own in tiers:
        t = build_tier(I, kind, name, ents, *(own if own else (m, M)))
        I.call_value(I.getattr(tg, "addTier"), [t], {})
        objs.append(t)
    return tg, objs


def read_tg(I, tg):
    names = [n for n in I.iterate(I.getattr(tg, "tierNames"))]
    tiers = [read_tier(I, I.call_value(I.getattr(tg, "getTier"), [n], {})) for n in names]
    return {"names": names, "tiers": tiers, "min": I.getattr(tg, "minTimestamp"), "max": I.getattr(tg, "maxTimestamp")}


def _extreme(I, vals, want_max):
    """min / max of symbolic numbers, decided in the abstract state (refined on demand through NeedSplit)."""
    best = I.num(vals[0])
    for v in vals[1:]:
        v = I.num(v)
        s = I.sign(v, best)
        if (s > 0) if want_max else (s < 0):
            best = v
    return best


def lifted_table(rep, rule, method, shape, extra, modes, tg_call, tier_call, what, shared_span=None, check_valid=None, own_spans=False, tg_span=None, hull_span=None, check_prints=False):
    """shape: list of (kind, name, k).  tg_call(I, tg, sy, mode) ; tier_call(I, tier, sy, mode).
    own_spans: the tiers are built without explicit bounds, so each spans only its own entries, strictly inside
    the textgrid's [m, M] in general; tg_span(I, sy, mode, m, M) -> the span the resulting textgrid must have;
    hull_span(I, sy, mode) -> (lo, hi) or None: the resulting textgrid's span must be the smallest one containing
    [lo, hi] and the span of every tier-level result ("widened just enough");
    check_prints: the textgrid operation reports (prints) something iff one of the tier-level operations does --
    the reporting mode reaches the tiers and the textgrid's own span bookkeeping alike."""
    idx = common.ctx()
    fn = idx.get("Textgrid." + method)
    rep.functions.add(fn.qual)
    at = Atoms()
    m, M = at.var("m"), at.var("M")
    at.rel("m", "<=", "M")
    tiers = []
    for kind, name, k in shape:
        ents, _, _ = declare_tier(at, k, kind, prefix=name, span=False)
        names = [n for n in at.names if n.startswith(name) and n not in ("m", "M")]
        if ents:
            first = (name + "s1") if kind == "interval" else (name + "t1")
            last = (name + "e%d" % k) if kind == "interval" else (name + "t%d" % k)
            at.rel("m", "<=", first)
            at.rel(last, "<=", "M")
        tiers.append((kind, name, ents, None, None) if own_spans else (kind, name, ents))
    sy = extra(at) or {}
    tr = TableRun(rep, rule, fn.short, fn.loc)

    def rows(st):
        out = []
        for mode in modes:
            def code(I):
                tg, objs = build_tg(I, tiers, m, M)
                # expected: the tier-level operation on each tier (interpreted separately)
                expected = []
                exp_raise = None
                tier_prints = 0
                for t in objs:
                    try:
                        I.prints = 0
                        expected.append(read_tier(I, tier_call(I, t, sy, mode)))
                        tier_prints += I.prints
                    except PyRaise as e:
                        exp_raise = e.name
                        break
                I.prints = 0
                try:
                    res = tg_call(I, tg, sy, mode)
                except PyRaise as e:
                    return {"raise": e.name, "exp_raise": exp_raise}
                printed = I.prints > 0
                got = read_tg(I, res)
                got["printed"] = (printed, tier_prints > 0)
                got["exp_raise"] = exp_raise
                got["expected"] = expected
                got["same_object"] = res is tg
                base = hull_span(I, sy, mode) if hull_span else None
                if base is not None:
                    got["hull"] = (_extreme(I, [base[0]] + [t["min"] for t in expected], False),
                                   _extreme(I, [base[1]] + [t["max"] for t in expected], True))
                if check_valid and check_valid(mode):
                    I.prints = 0
                    got["valid"] = I.truth(I.call_value(I.getattr(res, "validate"), ["silence"], {}))
                return got
            got, I = run_code(idx, st, code)
            if got.kind != "ok":
                out.append(compare_outcomes(I, mode, got, Outcome("ok", None)))
                continue
            v = got.value
            if "raise" in v:
                ok = v["raise"] == v["exp_raise"]
                if ok and v["raise"] not in set(common.ctx().module("utilities.errors").classes):
                    out.append((mode, False, "textgrid operation raises %s, which is not a praatio error (an empty tier or empty window must not fail)" % v["raise"], None))
                    continue
                out.append((mode, ok, "textgrid operation raises %s, the tier operation %s" % (v["raise"], ("raises " + v["exp_raise"]) if v["exp_raise"] else "does not raise"), None))
                continue
            if v["exp_raise"]:
                out.append((mode, False, "tier operation raises %s but the textgrid operation returns normally" % v["exp_raise"], None))
                continue
            diff = None
            if v["same_object"]:
                diff = "operation returned its receiver"
            elif [str(n) for n in v["names"]] != [name for _, name, _ in shape]:
                diff = "tier names/order %s != %s" % (v["names"], [name for _, name, _ in shape])
            else:
                for (kind, name, _), gt, et in zip(shape, v["tiers"], v["expected"]):
                    d = tier_equal(I, gt, et, check_span=True)
                    if d:
                        diff = "tier %s differs from the tier-level operation: %s" % (name, d)
                        break
                    if shared_span and shared_span(mode):
                        if not (num_equal(I, gt["min"], v["min"]) and num_equal(I, gt["max"], v["max"])):
                            diff = "tier %s span (%r, %r) differs from the textgrid's span (%r, %r)" % (name, gt["min"], gt["max"], v["min"], v["max"])
                            break
                        # validate() compares the spans exactly, as floats: equal real numbers must also be computed the same way
                        from ..floatorder import FloatOrder, show as show_tree

                        fo = FloatOrder(st, getattr(I, "path_facts", ()))
                        for which in ("max",):  # the start of the span is an input float in every operation that shares spans; only the end is computed
                            ta, tb = getattr(gt[which], "tree", None), getattr(v[which], "tree", None)
                            if ta is not None and tb is not None and ta[0] != "?" and tb[0] != "?" and not (fo.same(ta, tb) or (fo.le(ta, tb) and fo.le(tb, ta))):
                                diff = "rounding-exposed span: tier %s %s is computed as %s, the textgrid's as %s -- equal in exact arithmetic, not in floating point, so validate() of the result can be False" % (name, which, show_tree(ta), show_tree(tb))
                                break
                        if diff:
                            break
            if diff is None and tg_span is not None:
                want_span = tg_span(I, sy, mode, m, M)
                lo, hi = want_span if want_span else (v["min"], v["max"])
                if not (num_equal(I, v["min"], lo) and num_equal(I, v["max"], hi)):
                    diff = "textgrid span is (%r, %r), expected (%r, %r)" % (v["min"], v["max"], lo, hi)
            if diff is None and check_prints and v["printed"][0] != v["printed"][1]:
                diff = "textgrid operation %s, the tier-level operations %s" % ("reports (prints) something" if v["printed"][0] else "reports nothing", "report nothing" if v["printed"][0] else "report a change")
            if diff is None and "hull" in v:
                lo, hi = v["hull"]
                if not (num_equal(I, v["min"], lo) and num_equal(I, v["max"], hi)):
                    diff = "textgrid span is (%r, %r), expected the hull of the window and the tiers' spans (%r, %r)" % (v["min"], v["max"], lo, hi)
            if diff is None and "valid" in v and not v["valid"]:
                diff = "validate() of the result is False"
            out.append((mode, diff is None, diff or "", None))
        return out

    run_states(at, rows, tr)
    tr.done(what)
