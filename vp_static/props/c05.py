"""C05 -- every reachable tier is well-formed (sorted, disjoint, inside its span)."""

import ast

from ..absint import Lin, Lst, MinMax, NeedSplit, PyRaise, Str, Tup, has_raw, label_var, raw_label
from ..index import norm
from ..effects import FuncAnalysis
from ..tables import (Atoms, Outcome, TableRun, build_tier, compare_outcomes, declare_tier, read_tier, run_code,
                      run_states, show)
from . import common

PRAATIO_ERRORS = None


def praatio_errors():
    global PRAATIO_ERRORS
    if PRAATIO_ERRORS is None:
        PRAATIO_ERRORS = set(common.ctx().module("utilities.errors").classes)
    return PRAATIO_ERRORS


def le_def(I, a, b):
    """a <= b in every instance of the abstract state (refines the state when open)."""
    if isinstance(a, MinMax):
        if a.op == "min":
            if any(I.state.signs(x - I.num(b)) <= frozenset([-1, 0]) for x in a.args):
                return True
        I.num(a)
    if isinstance(b, MinMax):
        if b.op == "max":
            if any(I.state.signs(I.num(a) - x) <= frozenset([-1, 0]) for x in b.args):
                return True
        I.num(b)
    ss = I.state.signs(I.num(a) - I.num(b))
    if ss <= frozenset([-1, 0]):
        return True
    if ss <= frozenset([1]):
        return False
    raise NeedSplit(I.num(a) - I.num(b), "well-formedness of the result depends on the order of %r and %r" % (a, b))


def lt_def(I, a, b):
    ss = I.state.signs(I.num(a) - I.num(b))
    if ss <= frozenset([-1]):
        return True
    if ss <= frozenset([0, 1]):
        return False
    raise NeedSplit(I.num(a) - I.num(b), "well-formedness of the result depends on the order of %r and %r" % (a, b))


def inv_violation(I, d):
    """C05: entries in time order, every interval start < end, no overlap, every timestamp inside
    [minTimestamp, maxTimestamp], labels without surrounding whitespace."""
    ents = [e.items for e in d["entries"]]
    interval = d["class"] == "IntervalTier"
    for i, e in enumerate(ents):
        if has_raw(e[-1]):
            return "entry %d keeps a label with surrounding whitespace: %s" % (i, show(e[-1]))
        if interval and not lt_def(I, e[0], e[1]):
            return "entry %d does not have start < end: %s" % (i, show(Tup(e)))
    for i in range(len(ents) - 1):
        x, y = ents[i], ents[i + 1]
        if interval:
            if not le_def(I, x[1], y[0]):
                return "entries %d and %d overlap or are out of order: %s, %s" % (i, i + 1, show(Tup(x)), show(Tup(y)))
        elif not le_def(I, x[0], y[0]):
            return "points %d and %d are out of order" % (i, i + 1)
    if ents:
        first = ents[0][0]
        last = ents[-1][1] if interval else ents[-1][0]
        if not le_def(I, d["min"], first):
            return "first timestamp %r lies before minTimestamp %r" % (first, d["min"])
        if not le_def(I, last, d["max"]):
            return "last timestamp %r lies after maxTimestamp %r" % (last, d["max"])
    return None


def wellformed_or_praatio_error(I, mode, got):
    if got.kind in ("undecided", "dontcare", "split"):
        return compare_outcomes(I, mode, got, Outcome("ok", None))
    if got.kind == "raise":
        ok = got.value in praatio_errors()
        return (mode, ok, "raises %s, which is not a praatio error (an operation that cannot produce a well-formed tier must raise a praatio error)" % got.value, None)
    v = got.value
    if v.get("inv"):
        return (mode, False, "returns an ill-formed tier: %s" % v["inv"], None)
    if v.get("valid") is False:
        return (mode, False, "validate() is False on the returned tier %s" % show(v["entries"]), None)
    return (mode, True, "", None)


def ctor_table(rep, kind, k, with_span):
    idx = common.ctx()
    cls = "IntervalTier" if kind == "interval" else "PointTier"
    fn = idx.get(cls + ".__init__")
    rep.functions.add(fn.qual)
    at = Atoms()
    ents = []
    for i in range(1, k + 1):
        if kind == "interval":
            ents.append((at.var("s%d" % i), at.var("e%d" % i), raw_label("l%d" % i)))
        else:
            ents.append((at.var("t%d" % i), raw_label("l%d" % i)))
    if with_span:
        m, M = at.var("m"), at.var("M")
    else:
        m = M = None
        if not at.names:
            at.const(0, "0")
    tr = TableRun(rep, "I-constructor", fn.short, fn.loc)

    def rows(st):
        def code(I):
            t = build_tier(I, kind, "T", ents, m, M)
            d = read_tier(I, t)
            d["inv"] = inv_violation(I, d)
            I.prints = 0
            d["valid"] = I.truth(I.call_value(I.getattr(t, "validate"), ["silence"], {})) if d["inv"] is None else None
            if getattr(I, "tolerance_calls", 0) and d["inv"] is None:
                d["inv"] = "well-formedness was decided with a tolerance (my_math.isclose): intervals overlapping by rounding noise would be accepted although validate() compares exactly"
            return d
        got, I = run_code(idx, st, code)
        return [wellformed_or_praatio_error(I, "span" if with_span else "nospan", got)]

    run_states(at, rows, tr)
    tr.done("%d arbitrary (unsorted, possibly overlapping or reversed) entries, %s" % (k, "requested span (m,M) in any relation" if with_span else "no requested span"))


def mutator_table(rep, kind, k):
    """insertEntry with an arbitrary (possibly reversed/degenerate, raw-labelled) new entry, then deleteEntry."""
    idx = common.ctx()
    cls = "IntervalTier" if kind == "interval" else "PointTier"
    fn = idx.get(cls + ".insertEntry")
    rep.functions.add(fn.qual)
    at = Atoms()
    ents, m, M = declare_tier(at, k, kind, span=True)
    if kind == "interval":
        new = (at.var("ns"), at.var("ne"), raw_label("new"))
    else:
        new = (at.var("nt"), raw_label("new"))
    tr = TableRun(rep, "I-mutators", fn.short, fn.loc)
    modes = [(c, r) for c in ("error", "replace", "merge") for r in ("silence", "error")]

    def rows(st):
        out = []
        for mode in modes:
            for astuple in (True, False):
                def code(I):
                    t = build_tier(I, kind, "T", ents, m, M)
                    x = Tup(list(new), None if astuple else ("Interval" if kind == "interval" else "Point"))
                    try:
                        I.call_value(I.getattr(t, "insertEntry"), [x, mode[0], mode[1]], {})
                    except PyRaise as e:
                        if e.name not in praatio_errors():
                            raise
                    d = read_tier(I, t)  # also after a rejected insert the tier must be well-formed
                    d["inv"] = inv_violation(I, d)
                    I.prints = 0
                    d["valid"] = I.truth(I.call_value(I.getattr(t, "validate"), ["silence"], {})) if d["inv"] is None else None
                    return d
                got, I = run_code(idx, st, code)
                out.append(wellformed_or_praatio_error(I, (mode, "tuple" if astuple else "namedtuple"), got))
        return out

    run_states(at, rows, tr)
    tr.done("insertEntry of an arbitrary new entry into %d generic entries" % k)


TIER_RETURNING = [
    "IntervalTier.crop", "IntervalTier.dejitter", "IntervalTier.difference", "IntervalTier.editTimestamps",
    "IntervalTier.eraseRegion", "IntervalTier.insertSpace", "IntervalTier.intersection", "IntervalTier.mergeLabels",
    "IntervalTier.morph", "PointTier.crop", "PointTier.dejitter", "PointTier.editTimestamps", "PointTier.eraseRegion",
    "PointTier.insertSpace", "TextgridTier.appendTier", "TextgridTier.new", "TextgridTier.union",
]
VETTED_WRITERS = {"TextgridTier.__init__", "TextgridTier.sort", "IntervalTier.insertEntry", "IntervalTier.deleteEntry",
                  "PointTier.insertEntry", "PointTier.deleteEntry", "IntervalTier.__init__", "PointTier.__init__"}


def _only_called_from(idx, eff, fn, allowed, depth=0) -> bool:
    """Every call of fn in the package sits in one of the allowed functions (or in a private helper that is itself
    only called from them)."""
    from ..index import resolve_call

    callers = set()
    for g in idx.all_functions():
        if g is fn:
            continue
        te = eff.tenv(g)
        for c in ast.walk(g.node):
            if isinstance(c, ast.Call) and isinstance(c.func, ast.Attribute) and c.func.attr == fn.name:
                tg, _ = resolve_call(idx, g, te, c)
                if tg is None or fn in tg:
                    callers.add(g)
            # a reference that is not a call (bound method stored in a dispatch table, passed to map/partial ...):
            # whoever holds the reference may call it
            elif isinstance(c, ast.Attribute) and c.attr == fn.name and isinstance(c.ctx, ast.Load) and fn.name.startswith("_"):
                callers.add(g)
            elif isinstance(c, ast.Name) and c.id == fn.name and isinstance(c.ctx, ast.Load) and fn.cls is None and g.module is fn.module:
                callers.add(g)
    if not callers:
        return False
    for g in callers:
        if g.short in allowed:
            continue
        if depth < 3 and g.name.startswith("_") and _only_called_from(idx, eff, g, allowed, depth + 1):
            continue
        return False
    return True


def detached_copy_table(rep, rule="I-new-detached"):
    from .tierops import tier_table
    rep.rule(rule, "abstract interpretation of tier.new() (no arguments / a new name) followed by in-place edits of the copy (deleteEntry of its first entry, sort): the copy has the edited entries and the source tier is exactly as before -- no entry list is shared")
    for kind in ("interval", "point"):
        for k in (1, 2):
            def call(I, t, sy, mode):
                r = I.call_value(I.getattr(t, "new"), [], {"name": "copy"} if mode == "renamed" else {})
                first = I.iterate(I.getattr(r, "entries"))[0]
                I.call_value(I.getattr(r, "deleteEntry"), [first], {})
                I.call_value(I.getattr(r, "sort"), [], {})
                return r

            def spec(O, ents, m, M, sy, mode, kind=kind):
                return {"class": "IntervalTier" if kind == "interval" else "PointTier", "entries": list(ents[1:]), "min": m, "max": M}
            tier_table(rep, rule, "new", kind, k, lambda at, ents: {}, ["plain", "renamed"], call, spec, "%d generic entries, copy edited in place" % k)


def run(rep, tier):
    idx, eff = common.ctx(), common.effects()
    rep.rule("I-constructor", "abstract interpretation of the IntervalTier / PointTier constructors on k arbitrary entries (every weak order of their boundaries and of the requested span, labels with surrounding whitespace): the outcome is a praatio error or a tier that is sorted, start<end, disjoint, inside its span, whitespace-free and validate()==True")
    rep.rule("I-fresh", "every tier-returning public method returns an object produced by a constructor call (effect summary: return value is fresh), so the constructor's guarantee covers every result")
    rep.rule("I-writers", "closed set of writers of tier state: every function that can write _entries / minTimestamp / maxTimestamp of a tier is a constructor or one of the vetted in-place mutators")
    rep.rule("I-mutators", "insertEntry with an arbitrary new entry (reversed, degenerate, outside the span, raw label, tuple or namedtuple) under every collision mode leaves a well-formed tier or raises a praatio error leaving a well-formed tier")
    rep.not_decided.append("spurious praatio errors caused by rounding (owned by the float-order rule of C07/C08)")
    rep.not_decided.append("histories longer than one operation are covered by induction: every operation maps well-formed inputs to constructor-made or vetted-mutator-made outputs")

    for k in ([0, 1, 2] if tier == "quick" else [0, 1, 2, 3]):
        if k < 3:
            ctor_table(rep, "interval", k, True)
        if k <= 2:
            ctor_table(rep, "interval", k, False)
        ctor_table(rep, "point", k, True)
        ctor_table(rep, "point", k, False)
    for k in ([0, 1, 2] if tier == "quick" else [0, 1, 2, 3]):
        mutator_table(rep, "interval", k)
        mutator_table(rep, "point", k)

    # I-new-detached: the copy handed out by new() shares no entry list with its source -- editing the copy in place
    # (what eraseRegion / union / difference do with it) leaves the source tier as it was
    detached_copy_table(rep)

    # I-fresh
    for spec in TIER_RETURNING:
        fn = idx.get(spec)
        rep.functions.add(fn.qual)
        s = eff.summary(fn)
        extra = s.returns.obj - {"fresh"}
        rep.check(not extra, "I-fresh", fn.short, "return value", ok="every returned object is constructor-made", bad="may return an object that is not freshly constructed: %s" % sorted(extra))
    rep.floor("I-fresh", 17)

    # I-writers
    tt = idx.cls("TextgridTier")
    tier_classes = [tt] + [c for c in tt.all_subclasses() if c.module.last != "klattgrid"]
    n = 0
    for fn in idx.all_functions():
        fa = common.FuncAnalysis(eff, fn)
        fa.run()
        direct = []
        for w in fa.sum.writes:
            if w.chain:
                continue
            t = w.text
            if any(a in t for a in ("_entries", "minTimestamp", "maxTimestamp")) and isinstance(w.node, (ast.Assign, ast.AugAssign, ast.Call, ast.Delete)):
                direct.append(w)
        if not direct:
            continue
        in_tier_class = fn.cls is not None and fn.cls in tier_classes
        if not in_tier_class and fn.cls is not None and fn.cls.name in ("Textgrid", "Klattgrid", "_KlattBaseTier", "KlattContainerTier", "KlattIntermediateTier", "KlattPointTier", "KlattSubPointTier"):
            # a textgrid's own span, or Klatt classes (outside C05)
            if all("_entries" not in w.text or fn.cls.name.startswith("Klatt") for w in direct):
                continue
        for w in direct:
            roots = w.roots
            # writes to a tier object: receiver of a tier class, or a parameter/local typed as tier
            is_tier_write = in_tier_class and ("self" in roots)
            if not in_tier_class:
                te = eff.tenv(fn)
                for nm in ast.walk(w.node):
                    if isinstance(nm, ast.Attribute) and nm.attr in ("_entries", "minTimestamp", "maxTimestamp") and isinstance(nm.value, ast.Name):
                        ts = te.type_of(nm.value)
                        if ts & {c.name for c in tier_classes}:
                            is_tier_write = True
            if not is_tier_write:
                continue
            n += 1
            if fn.short in VETTED_WRITERS:
                rep.proved("I-writers", fn.short, w.text, "vetted writer (constructor or in-place mutator covered by I-constructor / I-mutators)")
            elif "fresh" in roots and len(roots - {"fresh"}) == 0:
                rep.proved("I-writers", fn.short, w.text, "writes only a freshly constructed object")
            elif fn.name.startswith("_") and _only_called_from(idx, eff, fn, VETTED_WRITERS):
                rep.proved("I-writers", fn.short, w.text, "private helper reached only from vetted writers: interpreted inline by their tables")
            else:
                rep.undecided("I-writers", fn.short, w.text, "a new writer of tier state: its effect on well-formedness is not covered by any table", loc=fn.where(w.node))
    rep.floor("I-writers", 8, "TextgridTier.__init__ (3), sort, insertEntry x2, deleteEntry x2")
