"""Shared table runner for 'tier method vs spec' checks."""

from ..absint import Lin, PyRaise
from ..tables import (Atoms, TableRun, build_tier, compare_outcomes, declare_tier, read_tier, run_code, run_spec,
                      run_states, tier_equal)
from . import common


def tier_table(rep, rule, method, kind, k, extra, modes, call, spec, what, span_inside=None, post=None, eq=None, seams=False, as_atoms=True, span_atoms=True, strict_ties=False, exact=False):
    """Generic: build a well-formed k-entry tier with span [m,M], declare extra atoms, run every mode.

    extra(at, ents) -> dict of symbols;  call(I, tier, sy, mode) -> value;  spec(O, ents, m, M, sy, mode) -> dict
    """
    idx = common.ctx()
    cls = "IntervalTier" if kind == "interval" else "PointTier"
    fn = idx.get(cls + "." + method) if idx.try_get(cls + "." + method) else idx.get("TextgridTier." + method)
    rep.functions.add(fn.qual)
    at = Atoms()
    ents, m, M = declare_tier(at, k, kind, span=True, as_atoms=as_atoms, span_atoms=span_atoms)
    sy = extra(at, ents) or {}
    tr = TableRun(rep, rule, fn.short, fn.loc)

    def rows(st):
        out = []
        for mode in modes:
            def code(I):
                tier = build_tier(I, kind, "T", ents, m, M)
                before = read_tier(I, tier)
                try:
                    res = call(I, tier, sy, mode)
                except PyRaise:
                    # failure atomicity: whatever was raised, the receiver must be exactly as it was
                    after = read_tier(I, tier)
                    d_ = tier_equal(I, after, before, check_span=True)
                    if d_ is None and any(x is not y for x, y in zip(after["entries"], before["entries"])) and False:
                        d_ = "entries were rebuilt"
                    if d_ is not None:
                        return {"atomicity": "the call raised and left the receiver changed: %s" % d_}
                    raise
                d = read_tier(I, res if res is not None else tier)
                d["printed"] = I.prints > 0
                if res is not None and res is not tier:
                    # a copy-returning operation: the receiver must be untouched
                    d_ = tier_equal(I, read_tier(I, tier), before, check_span=True)
                    if d_ is not None:
                        return {"atomicity": "the operation returned a new tier but also changed its receiver: %s" % d_}
                return d
            got, I = run_code(idx, st, code)
            if got.kind == "ok" and isinstance(got.value, dict) and "atomicity" in got.value:
                out.append((mode, False, got.value["atomicity"], None))
                continue
            want = run_spec(idx, st, lambda O: spec(O, ents, m, M, sy, mode))
            if want.kind == "ok" and "printed" not in want.value and got.kind == "ok":
                got.value.pop("printed", None)
            row = compare_outcomes(I, mode, got, want, eq=eq, strict_ties=strict_ties)
            if row[1] and row[2] != "dontcare" and got.kind == "ok" and want.kind == "ok" and "printed" in want.value:
                if bool(got.value.get("printed")) != bool(want.value["printed"]):
                    row = (mode, False, "code %s a warning, spec %s" % ("prints" if got.value.get("printed") else "does not print", "expects one" if want.value["printed"] else "expects none"), None)
            if exact and row[1] and getattr(I, "tolerance_calls", 0):
                row = (mode, False, "times are compared with a tolerance (my_math.isclose) where the property compares them exactly: two distinct times closer than the tolerance are treated as one", None)
            out.append(row)
            if seams and got.kind == "ok" and got.value.get("class") == "IntervalTier":
                from ..floatorder import seam_obligations

                for i, ok, touch, text in seam_obligations(st, [e.items for e in got.value["entries"]], getattr(I, "path_facts", ())):
                    if ok:
                        out.append(((mode, "seam"), True, "", None))
                    elif touch:
                        out.append(((mode, "seam %d" % i), False, "rounding-exposed seam: the two boundaries can be equal in exact arithmetic but %s is not derivable from IEEE-754 monotonicity (the tier constructor would raise TextgridStateError on a well-formed input)" % text, None))
                    else:
                        out.append(((mode, "seam %d" % i), False, "", "float order %s not derivable although strictly ordered in exact arithmetic" % text))
        return out

    run_states(at, rows, tr)
    tr.done(what)
    return tr
