"""Shared table runner for 'tier method vs spec' checks."""

from ..absint import Lin, PyRaise
from ..tables import (Atoms, TableRun, build_tier, compare_outcomes, declare_tier, read_tier, run_code, run_spec,
                      run_states, tier_equal)
from . import common


def tier_table(rep, rule, method, kind, k, extra, modes, call, spec, what, span_inside=None, post=None, eq=None, seams=False, as_atoms=True, span_atoms=True, strict_ties=False, exact=False):
    """Generic: build a well-formed k-entry tier with span [m,M], declare extra atoms, run every mode.

    extra(at, ents) -> dict of symbols;  call(I, tier, sy, mode) -> value;  spec(O, ents, m, M, sy, mode) -> dict
    """
    idx = common.ctx()
    cls = "IntervalTier" if kind == "interval" else "PointTier"
    fn = idx.get(cls + "." + method) if idx.try_get(cls + "." + method) else idx.get("TextgridTier." + method)
    rep.functions.add(fn.qual)
    at = Atoms()
    ents, m, M = declare_tier(at, k, kind, span=True, as_atoms=as_atoms, span_atoms=span_atoms)
    sy = extra(at, ents) or {}
    tr = TableRun(rep, rule, fn.short, fn.loc)

    def rows(st):
        out = []
        for mode in modes:
            def code(I):
                tier = build_tier(I, kind, "T", ents, m, M)
                before = read_tier(I, tier)
                try:
                    res = call(I, tier, sy, mode)
                except PyRaise:
                    # failure atomicity: whatever was raised, the receiver must be exactly as it was
                    after = read_tier(I, tier)
                    d_ = tier_equal(I, after, before, check_span=True)
                    if d_ is None and any(x is not y for x, y in zip(after["entries"], before["entries"])) and False:
                        d_ = "entries were rebuilt"
                    if d_ is not None:
                        return {"atomicity": "the call raised and left the receiver changed: %s" % d_}
                    raise
                d = read_tier(I, res if res is not None else tier)
                d["printed"] = I.prints > 0
                if res is not None and res is not tier:
                    # a copy-returning operation: the receiver must be untouched
                    d_ = tier_equal(I, read_tier(I, tier), before, check_span=True)
                    if d_ is not None:
                        return {"atomicity": "the operation returned a new tier but also changed its receiver: %s" % d_}
                return d
            got, I = run_code(idx, st, code)
            if got.kind == "ok" and isinstance(got.value, dict) and "atomicity" in got.value:
                out.append((mode, False, got.value["atomicity"], None))
                continue
            want = run_spec(idx, st, lambda O: spec(O, ents, m, M, sy, mode))
            if want.kind == "ok" and "printed" not in want.value and got.kind == "ok":
                got.value.pop("printed", None)
            row = compare_outcomes(I, mode, got, want, eq=eq, strict_ties=strict_ties)
            if row[1] and row[2] != "dontcare" and got.kind == "ok" and want.kind == "ok" and "printed" in want.value:
                if bool(got.value.get("printed")) != bool(want.value["printed"]):
                    row = (mode, False, "code %s a warning, spec %s" % ("prints" if got.value.get("printed") else "does not print", "expects one" if want.value["printed"] else "expects none"), None)
            if exact and row[1] and getattr(I, "tolerance_calls", 0):
                row = (mode, False, "times are compared with a tolerance (my_math.isclose) where the property compares them exactly: two distinct times closer than the tolerance are treated as one", None)
            out.append(row)
            if seams and got.kind == "ok" and got.value.get("class") == "IntervalTier":
                from ..floatorder import seam_obligations

                for i, ok, touch, text in seam_obligations(st, [e.items for e in got.value["entries"]], getattr(I, "path_facts", ())):
                    if ok:
                        out.append(((mode, "seam"), True, "", None))
                    elif touch:
                        out.append(((mode, "seam %d" % i), False, "rounding-exposed seam: the two boundaries can be equal in exact arithmetic but %s is not derivable from IEEE-754 monotonicity (the tier constructor would raise TextgridStateError on a well-formed input)" % text, None))
                    else:
                        out.append(((mode, "seam %d" % i), False, "", "float order %s not derivable although strictly ordered in exact arithmetic" % text))
                from ..floatorder import positive_length_obligations

                for i, ok, text, kind_ in positive_length_obligations(st, [e.items for e in got.value["entries"]], getattr(I, "path_facts", ()), getattr(I, "strict_facts", ()), [(x[0], x[1]) for x in ents]):
                    if ok:
                        out.append(((mode, "length"), True, "", None))
                    else:
                        out.append(((mode, "length %d" % i), False, "[kind %s] rounding-exposed empty interval: the written interval is positive in exact arithmetic but %s is not derivable -- its two ends are computed separately and can round to the same float (the tier constructor would raise TextgridStateError on a well-formed input)" % (kind_, text), None))
        return out

    import re as _re

    class _Router:
        """length rows are aggregated per kind of piece (one obligation per kind, so that a finding is one construct);
        everything else goes to the table"""

        def __init__(self):
            self.kinds, self.checked, self.states = {}, 0, 0

        def __setattr__(self, k, v):
            if k == "states" and "kinds" in self.__dict__:
                tr.states = v
            object.__setattr__(self, k, v)

        def row(self, case, mode, ok, detail="", undecided=None):
            if isinstance(mode, tuple) and len(mode) == 2 and isinstance(mode[1], str) and mode[1].startswith("length"):
                self.checked += 1
                if not ok:
                    m_ = _re.match(r"\[kind (.*?)\] ", detail)
                    kind = _re.sub(r"\b([se])\d+\b", r"\1_i", m_.group(1) if m_ else detail)
                    detail = detail[m_.end():] if m_ else detail
                    k_ = self.kinds.setdefault(kind, [0, case, mode[0], detail])
                    k_[0] += 1
                return
            tr.row(case, mode, ok, detail, undecided)
    router = _Router()
    router.states = tr.states
    run_states(at, rows, router)
    tr.states = max(tr.states, router.__dict__.get("states", 0))
    tr.done(what)
    if seams:
        if router.kinds:
            for kind, (cnt, case, mode0, detail) in sorted(router.kinds.items()):
                rep.refuted("R-G-length", fn.short, "piece %s" % kind, "%s (mode %s, first in case %s; %d abstract cases)" % (detail, mode0, case, cnt), loc=fn.loc)
        elif router.checked:
            rep.proved("R-G-length", fn.short, what, "%d written pieces with two computed ends have a derivably positive length" % router.checked, loc=fn.loc)
    return tr
