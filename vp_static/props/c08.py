"""C08 -- insertSpace opens exactly the requested gap and eraseRegion undoes it."""

from .. import specs
from ..absint import Lin
from . import common
from .tierops import tier_table

MODES = ["stretch", "split", "no_change", "error"]


def gap(at, ents):
    p, d = at.var("p"), Lin.var("d")
    at.fact_lt(Lin.num(0), d)  # d > 0 (d is never compared with a timestamp, so it is not an atom)
    at.rel("m", "<=", "p")  # s in or at the edges of the span
    at.rel("p", "<=", "M")
    return {"p": p, "d": d}


def run(rep, tier):
    rep.rule("T6-insertSpace", "abstract interpretation of IntervalTier/PointTier.insertSpace over every weak order of k generic entries, the insertion point and the span (d > 0), against the spec table")
    rep.rule("T6-inverse", "composition insertSpace(p,d,stretch|split) ; eraseRegion(p,p+d,truncate,shrink) interpreted end to end: entries and span equal the original tier (exact arithmetic)")
    rep.rule("R-G seams", "float-order obligations fl(end_i) <= fl(start_i+1) on every result (rows labelled 'seam')")
    rep.not_decided.append("bit-level identity of insertSpace;eraseRegion in floating point (only the seams and the exact-arithmetic identity are decided)")
    ks = [0, 1, 2] if tier == "quick" else [0, 1, 2, 3]
    for k in ks:
        tier_table(rep, "T6-insertSpace-interval", "insertSpace", "interval", k, gap, MODES,
                   lambda I, t, sy, mode: I.call_value(I.getattr(t, "insertSpace"), [sy["p"], sy["d"], mode], {}),
                   lambda O, ents, m, M, sy, mode: specs.insert_space_interval(O, ents, m, M, sy["p"], sy["d"], mode),
                   "%d generic entries x insertion point p, duration d>0" % k, seams=True, exact=True)
    for k in ks:
        tier_table(rep, "T6-insertSpace-point", "insertSpace", "point", k, gap, ["error"],
                   lambda I, t, sy, mode: I.call_value(I.getattr(t, "insertSpace"), [sy["p"], sy["d"]], {}),
                   lambda O, ents, m, M, sy, mode: specs.insert_space_point(O, ents, m, M, sy["p"], sy["d"]),
                   "%d generic points x insertion point p, duration d>0" % k, exact=True)

    def compose(I, t, sy, mode):
        t2 = I.call_value(I.getattr(t, "insertSpace"), [sy["p"], sy["d"], mode], {})
        return I.call_value(I.getattr(t2, "eraseRegion"), [sy["p"], sy["p"] + sy["d"], "truncate", True], {})

    for k in ks:
        tier_table(rep, "T6-inverse", "insertSpace", "interval", k, gap, ["stretch", "split"], compose,
                   lambda O, ents, m, M, sy, mode: {"class": "IntervalTier", "entries": list(ents), "min": m, "max": M},
                   "insertSpace;eraseRegion on %d generic entries" % k, seams=True)

    # the textgrid-level operation (shared with C12): same names, same order, each tier equal to the tier operation
    from .c12 import lifting
    rep.rule("L-lifting-insertSpace", "Textgrid.insertSpace on a generic textgrid (including an empty tier): per-tier result equals the tier-level insertSpace, every tier shares the lengthened span")
    for shape in ([("interval", "I", 1), ("point", "E", 0)], [("interval", "E", 0), ("point", "P", 1)]):
        lifting(rep, shape, only="insertSpace")
    rep.rule("L-lifting-insertSpace-ownspans", "same, on a textgrid whose tiers span only their own entries: the textgrid's span becomes (min, max + d)")
    lifting(rep, [("interval", "I", 1), ("point", "P", 1)], only="insertSpace", own=True)
