"""C11 -- insertEntry/deleteEntry follow the selected collision policy exactly."""

from .. import specs
from ..absint import Lin, Lst, Tup, label_var, PyRaise
from ..tables import Atoms, TableRun, build_tier, compare_outcomes, declare_tier, read_tier, run_code, run_spec, run_states
from . import common
from .common import rule_atomic
from .tierops import tier_table

MODES = [(m, r) for m in ("error", "replace", "merge") for r in ("silence", "warning", "error")] + [("cats", "silence"), ("replace", "cats")]  # the last two: invalid options must be rejected before anything changes


def new_interval(at, ents):
    ns, ne = at.var("ns"), at.var("ne")
    return {"new": (ns, ne, label_var("new"))}


def new_point(at, ents):
    nt = at.var("nt")
    return {"new": (nt, label_var("new"))}


def run(rep, tier):
    rep.rule("T8-insertEntry", "abstract interpretation of IntervalTier/PointTier.insertEntry (mutating the receiver) over every weak order of k generic entries and the new entry, for 3 collision modes x 3 reporting modes, against the spec table (resulting entries in time order, span grown just enough, raised error, printed warning)")
    rep.rule("T8-deleteEntry", "deleteEntry removes exactly the given entry and raises if it is absent")
    rep.rule("B1-atomic", "no may-raise site after a receiver write in the four entry mutators (shared with C13)")
    rep.not_decided.append("step-by-step equivalence with a list model over arbitrary histories (only the per-step contract is decided)")
    ks = [0, 1, 2] if tier == "quick" else [0, 1, 2, 3]
    for k in ks:
        tier_table(rep, "T8-insertEntry-interval", "insertEntry", "interval", k, new_interval, MODES,
                   lambda I, t, sy, mode: I.call_value(I.getattr(t, "insertEntry"), [Tup(list(sy["new"]), "Interval"), mode[0], mode[1]], {}),
                   lambda O, ents, m, M, sy, mode: specs.insert_entry_interval(O, ents, m, M, sy["new"], mode[0], mode[1]),
                   "%d generic entries x new interval" % k, span_atoms=True, exact=True)
    for k in ks:
        tier_table(rep, "T8-insertEntry-point", "insertEntry", "point", k, new_point, MODES,
                   lambda I, t, sy, mode: I.call_value(I.getattr(t, "insertEntry"), [Tup(list(sy["new"]), "Point"), mode[0], mode[1]], {}),
                   lambda O, ents, m, M, sy, mode: specs.insert_entry_point(O, ents, m, M, sy["new"], mode[0], mode[1]),
                   "%d generic points x new point" % k, strict_ties=True, exact=True)

    # deleteEntry: present entry i removed; absent entry raises
    for kind in ("interval", "point"):
        for k in ([1, 2] if tier == "quick" else [1, 2, 3]):
            def call(I, t, sy, mode):
                if mode == "absent":
                    x = Tup(list(sy["new"]), "Interval" if kind == "interval" else "Point")
                else:
                    x = I.iterate(I.getattr(t, "entries"))[mode]
                return I.call_value(I.getattr(t, "deleteEntry"), [x], {})

            def spec(O, ents, m, M, sy, mode, kind=kind):
                if mode == "absent":
                    O.raise_("ANY-EXC")  # 'raises if it is absent' 
                out = [e for i, e in enumerate(ents) if i != mode]
                return {"class": "IntervalTier" if kind == "interval" else "PointTier", "entries": out, "min": m, "max": M}

            tier_table(rep, "T8-deleteEntry-" + kind, "deleteEntry", kind, k, new_interval if kind == "interval" else new_point,
                       list(range(k)) + ["absent"], call, spec, "%d generic entries" % k, as_atoms=True)
    rule_atomic(rep, ["IntervalTier.insertEntry", "IntervalTier.deleteEntry", "PointTier.insertEntry", "PointTier.deleteEntry"], semantic=True)
