"""C18 -- zero-crossing search finds real crossings; splicing keeps audio and text in step."""

import ast
from fractions import Fraction

from .. import specs
from ..absint import (Interp, Lin, Lst, MockObj, PyFunc, PyRaise, State, Str, Tup, _Break, _Continue, label_var)
from ..index import Undecided, norm
from ..tables import (Atoms, Outcome, TableRun, build_tier, compare_outcomes, declare_tier, entry_equal, num_equal,
                      read_tier, run_code, run_spec, run_states, show, tier_equal)
from . import common
from ..tables import default_overrides
from .tgops import build_tg, read_tg


def simple(rep, rule, fn, at, modes, code, spec, what, eq):
    idx = common.ctx()
    rep.functions.add(fn.qual)
    tr = TableRun(rep, rule, fn.short, fn.loc)

    def rows(st):
        out = []
        for mode in modes:
            got, I = run_code(idx, st, lambda I: code(I, mode))
            want = run_spec(idx, st, lambda O: spec(O, mode))
            out.append(compare_outcomes(I, mode, got, want, eq=eq))
        return out
    run_states(at, rows, tr)
    tr.done(what)


class _TooLong(Exception):
    pass


def loop_iteration_table(rep):
    """findNearestZeroCrossing interpreted as a whole (its loop, _iterZeroCrossings and utils.getInterval included)
    with only the sample access abstracted: getSamples is a recorder and _findNextZeroCrossing answers according to
    the row's mode (which search, in which round, finds a crossing).  Checked against the specification over every
    abstract state the comparisons ask for: which windows are searched in which order, when the search stops, what
    is returned, and that an exhausted search raises instead of returning.  Rounds beyond the second are not
    followed (the row is then not decided further -- the first two rounds are)."""
    idx = common.ctx()
    fn = idx.get("AbstractWav.findNearestZeroCrossing")
    rep.functions.add(fn.qual)
    for q in ("AbstractWav._iterZeroCrossings", "utilities.utils:getInterval", "utilities.utils:chooseClosestTime"):
        if idx.try_get(q):
            rep.functions.add(idx.get(q).qual)
    wav_cls = idx.cls("Wav")
    at = Atoms()
    at.const(0, "0")
    target, dur = at.var("target"), at.var("dur")
    at.rel("0", "<=", "target")
    at.rel("target", "<=", "dur")
    at.rel("0", "<", "dur")
    T = Lin.var("T")
    at.fact_le(Lin.num(2), T)  # frame rate 1 in this harness: the step guard (timeStep * frameRate >= 2) has passed
    osd = Lin.num(1)           # one sample at frame rate 1
    MAX_ROUNDS = 2
    modes = [("none", 0), ("left", 1), ("right", 1), ("both", 1), ("left", 2), ("right", 2)]
    tr = TableRun(rep, "Z-loop", fn.short, fn.loc)
    tr.bounded_depth = True

    def rows(st):
        out = []
        for mode in modes:
            who, when = mode
            log = []
            rounds = {"n": 0}

            def get_samples(I_, a, b):
                return Tup(["samples", a, b])

            def find_next(I_, args, kwargs):
                start_t, samples, rate, reverse = (list(args) + [kwargs.get(k) for k in ("startTime", "samples", "frameRate", "reverse")][len(args):])[:4]
                if reverse is True:
                    rounds["n"] += 0
                log.append(("left" if reverse is True else "right", samples.items[1], samples.items[2]))
                rnd = sum(1 for x in log if x[0] == ("left" if reverse is True else "right"))
                if rnd > MAX_ROUNDS:
                    raise _TooLong()
                side = "left" if reverse is True else "right"
                if who in (side, "both") and rnd >= when:
                    return samples.items[1] if side == "right" else samples.items[2]  # a crossing at the near edge of the window
                return None
            ov = dict(default_overrides())
            ov["audio._findNextZeroCrossing"] = find_next
            I = Interp(idx, st, overrides=ov)
            I.MAX_STEPS = 40000
            try:
                w = I.instantiate(wav_cls, [Lst([]), Lst([Lin.num(1), Lin.num(2), Lin.num(1), dur, "NONE", "x"])], {})
                w.attrs["getSamples"] = PyFunc(get_samples)
                w.attrs["duration"] = dur
                try:
                    got = ("return", I.call_value(I.getattr(w, "findNearestZeroCrossing"), [target, T], {}))
                except PyRaise as e:
                    got = ("raise", e.name)
            except _TooLong:
                got = ("toolong", None)
            except Undecided as e:
                if "step limit" in str(e):
                    got = ("toolong", None)
                else:
                    out.append((mode, False, "", e if type(e).__name__ == "NeedSplit" else str(e)))
                    continue
            # ---- the specification, on the same comparisons
            O = I  # Interp.sign raises NeedSplit like the oracle does

            def lt(a, b):
                return O.sign(O.num(a), O.num(b)) < 0
            try:
                left = right = target
                exp_log, exp = [], None
                seen_left = seen_right = 0
                for rnd in range(1, MAX_ROUNDS + 2):
                    foundL = foundR = None
                    if lt(Lin.num(0), left):
                        a = left - (T + osd)
                        a = Lin.num(0) if lt(a, Lin.num(0)) else a
                        exp_log.append(("left", a, left))
                        seen_left += 1
                        if who in ("left", "both") and seen_left >= when:
                            foundL = left
                    if lt(right + T, dur):
                        b = right + T + osd
                        b = dur if (not lt(right, Lin.num(0)) or True) and lt(dur, b) and not lt(right, Lin.num(0)) else b
                        exp_log.append(("right", right, b))
                        seen_right += 1
                        if who in ("right", "both") and seen_right >= when:
                            foundR = right
                    if foundL is not None or foundR is not None:
                        if foundL is None:
                            exp = ("return", foundR)
                        elif foundR is None:
                            exp = ("return", foundL)
                        else:
                            dl, dr = target - foundL, foundR - target
                            exp = ("return", foundL if not lt(dr, dl) else foundR)
                        break
                    if lt(left, Lin.num(0)) and lt(dur, right):
                        exp = ("raise", None)
                        break
                    left, right = left - T, right + T
                if exp is None:
                    out.append((mode, True, "dontcare", None))
                    continue
            except Undecided as e:
                out.append((mode, False, "", e if type(e).__name__ == "NeedSplit" else str(e)))
                continue
            problem = None
            pe = set(idx.module("utilities.errors").classes)
            if got[0] == "toolong":
                problem = "the search goes on after round %d, where it has to %s: the loop's variant max(left, duration - right) no longer decreases, so the call may never return" % (
                    len([x for x in exp_log if x[0] == "left"]) or 1, "raise FindZeroCrossingError (both sides have left the recording)" if exp[0] == "raise" else "return the crossing it found")
            elif exp[0] == "raise":
                if got[0] != "raise" or got[1] not in pe:
                    problem = "an exhausted search %s; it must raise FindZeroCrossingError" % ("returns %r" % (got[1],) if got[0] == "return" else "raises %s" % got[1])
            elif got[0] != "return":
                problem = "raises %s although the %s search of round %d finds a crossing" % (got[1], who, when)
            elif not (isinstance(got[1], Lin) and num_equal(I, got[1], exp[1])):
                problem = "returns %r, expected %r (the found crossing closest to the target)" % (got[1], exp[1])
            if problem is None and got[0] != "toolong":
                if len(log) != len(exp_log) or any(g[0] != e_[0] or not num_equal(I, g[1], e_[1]) or not num_equal(I, g[2], e_[2]) for g, e_ in zip(log, exp_log)):
                    problem = "searched windows %s, expected %s (left while its start is > 0, right while start + timeStep < duration; each window is timeStep + one sample long, clamped to the recording; both move out by timeStep per round)" % (
                        [(s_, repr(a), repr(b)) for s_, a, b in log], [(s_, repr(a), repr(b)) for s_, a, b in exp_log])
            out.append((mode, problem is None, problem or "", None))
        return out

    run_states(at, rows, tr)
    tr.done("whole function x weak orders of (0, target, duration) refined on demand; a crossing found by the left/right/both searches in round 1-2, or never")
    # the step guard: a step shorter than two samples is rejected
    st0 = State([("0", Lin.num(0))], [0])
    I = Interp(idx, st0, overrides=default_overrides())
    try:
        w = I.instantiate(wav_cls, [Lst([]), Lst([Lin.num(1), Lin.num(2), Lin.num(8), Lin.num(80), "NONE", "x"])], {})
        w.attrs["getSamples"] = PyFunc(lambda I_, a, b: Tup(["samples", a, b]))
        w.attrs["duration"] = Lin.num(10)
        try:
            I.call_value(I.getattr(w, "findNearestZeroCrossing"), [Lin.num(5), Lin.num(Fraction(1, 8))], {})
            rep.refuted("Z-loop", fn.short, "timeStep of one sample", "a step shorter than two samples is accepted (the search cannot see a sign change)", loc=fn.loc)
        except PyRaise as e:
            rep.check(e.name in set(idx.module("utilities.errors").classes), "Z-loop", fn.short, "timeStep of one sample", ok="rejected with %s" % e.name, bad="raises %s, not a praatio error" % e.name)
    except Undecided as e:
        rep.undecided("Z-loop", fn.short, "timeStep of one sample", str(e))


def helper_tables(rep):
    idx = common.ctx()
    # chooseClosestTime
    fn = idx.get("utilities.utils:chooseClosestTime")
    at = Atoms()
    t, a, b = at.var("t"), at.var("a"), at.var("b")
    at.rel("a", "<=", "t")
    at.rel("t", "<=", "b")

    def spec(O, mode):
        A = a if "a" in mode else None
        B = b if "b" in mode else None
        if A is None and B is None:
            O.raise_("ANY")
        if A is None:
            return B
        if B is None:
            return A
        return A if O.le(t - A, B - t) else B
    simple(rep, "Z-helpers", fn, at, ["ab", "a", "b", ""],
           lambda I, mode: I.call_function(fn, [t, a if "a" in mode else None, b if "b" in mode else None], {}), spec,
           "candidates straddling the target, either possibly missing", lambda I, g, w: None if num_equal(I, g, w) else "returns %r, expected %r" % (g, w))

    # getInterval: window before/after a start time, clamped to [0, max]
    fn2 = idx.get("utilities.utils:getInterval")
    at = Atoms()
    s, mx = at.var("start"), at.var("max")
    at.const(0, "0")
    at.rel("0", "<", "max")
    d = Lin.var("dur")
    at.fact_lt(Lin.num(0), d)
    at.derived_atom("start-dur", s - d)
    at.derived_atom("start+dur", s + d)

    def spec2(O, mode):
        lo, hi = (s - d, s) if mode else (s, s + d)
        # C18: the searched window never reads over the edges of the recording for starts inside it
        if O.lt(lo, Lin.num(0)):
            lo = Lin.num(0)
        elif O.gt(hi, mx):
            hi = mx
        return (lo, hi)
    simple(rep, "Z-helpers", fn2, at, [True, False], lambda I, mode: I.call_function(fn2, [s, d, mx, mode], {}), spec2,
           "window of length dur before/after start against [0, max]",
           lambda I, g, w: None if num_equal(I, g.items[0], w[0]) and num_equal(I, g.items[1], w[1]) else "window %s, expected %s" % (show(g), show(Tup(list(w)))))

    # (_iterZeroCrossings is a private helper whose signature is free to change; it is interpreted inline by the Z-loop table)


def crossing_table(rep, n):
    """The crossing definition on n generic samples: the result is a zero sample or a sign change next to it."""
    idx = common.ctx()
    fn = idx.get("audio:_findNextZeroCrossing")
    rep.functions.add(idx.get("audio:_getZeroThresholdCrossing").qual)
    rep.functions.add(idx.get("audio:_getNearestZero").qual)
    at = Atoms()
    at.const(0, "0")
    xs = [Lin.var("x%d" % i) for i in range(1, n + 1)]
    for i in range(1, n + 1):
        at.derived_atom("x%d" % i, xs[i - 1])
        at.derived_atom("-x%d" % i, xs[i - 1].neg())
    start = Lin.var("start")

    def code(I, mode):
        r = I.call_function(fn, [start, Tup(list(xs)), Lin.num(1), mode], {})
        return r

    def spec(O, mode):
        sg = [O.sgn(x) for x in xs]
        zeros = [i for i, s_ in enumerate(sg) if s_ == 0]
        changes = [i for i in range(n - 1) if sg[i] != sg[i + 1]]
        if not zeros and not changes:
            return None
        return ("crossing", sg)

    def eq(I, g, w):
        if w is None:
            return None if g is None else "returns %r although no sample is zero and no sign changes" % (g,)
        if g is None:
            return "returns None although the samples contain a crossing (signs %s)" % (w[1],)
        sg = w[1]
        off = I.num(g) - start
        if not (off.is_const() and off.const.denominator == 1 and 0 <= off.const < n):
            return "returned time %r is not start + index/rate for an index inside the window" % (g,)
        i = int(off.const)
        genuine = sg[i] == 0 or (i > 0 and sg[i - 1] != sg[i]) or (i < n - 1 and sg[i + 1] != sg[i])
        if not genuine:
            return "returned sample %d is not a crossing: signs %s" % (i, sg)
        # direction: the first (forward) / last (reverse) zero if any zero exists
        zeros = [k for k, s_ in enumerate(sg) if s_ == 0]
        if zeros:
            want = zeros[-1] if False else None
        return None
    simple(rep, "Z-crossing", fn, at, [False, True], code, spec, "%d generic samples (all sign patterns and magnitude orders the code asks about)" % n, eq)


def shift_times_table(rep, ki, kp):
    """_shiftTimes: every boundary equal to timeV becomes newTimeV; nothing else changes."""
    idx = common.ctx()
    fn = idx.get("praatio_scripts:_shiftTimes")
    at = Atoms()
    ents, m, M = declare_tier(at, ki, "interval", span=True, span_atoms=False)
    pts, _, _ = declare_tier(at, kp, "point", prefix="p", span=False)
    if kp:
        at.fact_le(m, Lin.var("pt1"))
        at.fact_le(Lin.var("pt%d" % kp), M)
    v, nv = at.var("v"), at.var("nv")
    at.fact_le(m, nv)
    at.fact_le(nv, M)

    def code(I, mode):
        tg, objs = build_tg(I, [("interval", "I", ents), ("point", "P", pts)], m, M)
        before = read_tg(I, tg)
        I.prints = 0
        res = I.call_function(fn, [tg, v, nv], {})
        out = read_tg(I, res)
        out["input_unchanged"] = all(tier_equal(I, a, b) is None for a, b in zip(read_tg(I, tg)["tiers"], before["tiers"])) and res is not tg
        return out

    def spec(O, mode):
        def mv(x):
            return nv if O.eq(x, v) else x
        iv = [(mv(s), mv(e), l) for s, e, l in ents]
        pv = [(mv(t), l) for t, l in pts]
        # the moved entries must still form well-formed tiers; otherwise any praatio error is acceptable
        for s, e, _ in iv:
            if O.ge(s, e):
                O.raise_("ANY")
        iv = specs.sort_entries(O, iv)
        for x, y in zip(iv, iv[1:]):
            if O.gt(x[1], y[0]):
                O.raise_("ANY")
        pv2 = specs.sort_entries(O, pv)
        for x, y in zip(pv2, pv2[1:]):
            if O.eq(x[0], y[0]):
                O.raise_("ANY")
        return {"I": iv, "P": pv2}

    def eq(I, g, w):
        if not g["input_unchanged"]:
            return "the input textgrid was modified"
        if [str(n) for n in g["names"]] != ["I", "P"]:
            return "tier names %s" % g["names"]
        for t, key in zip(g["tiers"], ("I", "P")):
            d = tier_equal(I, t, {"entries": w[key]}, check_span=False)
            if d:
                return "tier %s: %s (every boundary equal to the old time moves to the new time, nothing else changes)" % (key, d)
        return None
    idx2 = common.ctx()
    rep.functions.add(fn.qual)
    tr = TableRun(rep, "S-shiftTimes", fn.short, fn.loc)

    def rows(st):
        got, I = run_code(idx2, st, lambda I: code(I, None))
        want = run_spec(idx2, st, lambda O: spec(O, None))
        if want.kind == "raise" and want.value == "ANY":
            if got.kind == "raise" and got.value in specs_praatio_errors():
                return [("shift", True, "", None)]
            if got.kind == "raise":
                return [("shift", False, "raises %s (not a praatio error) when the move would make a tier ill-formed" % got.value, None)]
            if got.kind == "ok":
                return [("shift", True, "dontcare", None)]
        return [compare_outcomes(I, "shift", got, want, eq=eq)]
    run_states(at, rows, tr)
    tr.done("textgrid {%d intervals, %d points} x old time v x new time nv in any relation" % (ki, kp))


def specs_praatio_errors():
    return set(common.ctx().module("utilities.errors").classes)


def boundaries_table(rep):
    """tgBoundariesToZeroCrossings changes only timestamps, each to the crossing the search returns."""
    idx = common.ctx()
    fn = idx.get("praatio_scripts:tgBoundariesToZeroCrossings")
    at = Atoms()
    ents, m, M = declare_tier(at, 2, "interval", span=True, span_atoms=False)
    pts, _, _ = declare_tier(at, 2, "point", prefix="p", span=False, as_atoms=False)
    qts, _, _ = declare_tier(at, 1, "point", prefix="q", span=False, as_atoms=False)   # a second point tier
    jvs, _, _ = declare_tier(at, 1, "interval", prefix="j", span=False, as_atoms=False)  # and a second interval tier
    at.fact_le(m, Lin.var("pt1"))
    at.fact_le(Lin.var("pt2"), M)
    at.fact_le(m, Lin.var("qt1")); at.fact_le(Lin.var("qt1"), M)
    at.fact_le(m, Lin.var("js1")); at.fact_le(Lin.var("je1"), M)
    at.var("M")
    # the crossing found for each timestamp: fresh symbols, order preserved, inside the span
    names = ["s1", "e1", "s2", "e2", "pt1", "pt2", "qt1", "js1", "je1"]
    z = {n: Lin.var("z" + n) for n in names}
    at.fact_le(m, z["s1"]); at.fact_lt(z["s1"], z["e1"]); at.fact_le(z["e1"], z["s2"]); at.fact_lt(z["s2"], z["e2"]); at.fact_le(z["e2"], M)
    at.fact_le(m, z["pt1"]); at.fact_lt(z["pt1"], z["pt2"]); at.fact_le(z["pt2"], M)
    at.fact_le(m, z["qt1"]); at.fact_le(z["qt1"], M)
    at.fact_le(m, z["js1"]); at.fact_lt(z["js1"], z["je1"]); at.fact_le(z["je1"], M)

    def code(I, mode):
        adj_p, adj_i = mode
        tg, objs = build_tg(I, [("interval", "I", ents), ("point", "P", pts), ("point", "Q", qts), ("interval", "J", jvs)], m, M)

        def find(I_, t):
            for n in names:
                if Lin.var(n).same(I_.num(t)):
                    return z[n]
            raise Undecided("zero crossing requested for an unexpected time %r" % (t,))
        wav = MockObj({"findNearestZeroCrossing": PyFunc(find)})
        res = I.call_function(fn, [tg, wav, adj_p, adj_i], {})
        return read_tg(I, res)

    def spec(O, mode):
        adj_p, adj_i = mode
        iv = [(z["s%d" % i] if adj_i else s, z["e%d" % i] if adj_i else e, l) for i, (s, e, l) in enumerate(ents, 1)]
        pv = [(z["pt%d" % i] if adj_p else t, l) for i, (t, l) in enumerate(pts, 1)]
        qv = [(z["qt1"] if adj_p else t, l) for t, l in qts]
        jv = [(z["js1"] if adj_i else s_, z["je1"] if adj_i else e_, l) for s_, e_, l in jvs]
        return {"I": iv, "P": pv, "Q": qv, "J": jv}

    def eq(I, g, w):
        if [str(n) for n in g["names"]] != ["I", "P", "Q", "J"]:
            return "tier order %s" % g["names"]
        for t, key in zip(g["tiers"], ("I", "P", "Q", "J")):
            d = tier_equal(I, t, {"entries": w[key]}, check_span=False)
            if d:
                return "tier %s: %s" % (key, d)
        return None
    simple(rep, "S-boundaries", fn, at, [(True, True), (True, False), (False, True), (False, False)], code, spec,
           "textgrid {interval tiers I(2), J(1); point tiers P(2), Q(1)}, every timestamp mapped to an order-preserving crossing", eq)


def splice_table(rep, k=2):
    """audioSplice without zero-crossing alignment: audio and text operations are paired with the same arguments."""
    idx = common.ctx()
    fn = idx.get("praatio_scripts:audioSplice")
    at = Atoms()
    ents, m, M = declare_tier(at, k, "interval", span=True)
    oth, _, _ = declare_tier(at, 1, "point", prefix="p", span=False)
    at.rel("m", "<=", "pt1")
    at.rel("pt1", "<=", "M")
    T = at.var("T")
    at.rel("m", "<=", "T")
    at.rel("T", "<=", "M")
    S = at.var("S")  # optional start of the replaced region (S < T)
    at.rel("m", "<=", "S")
    at.rel("S", "<", "T")
    D = Lin.var("D")
    at.fact_lt(Lin.num(0), D)

    T0, S0, D0 = Lin.var("T0"), Lin.var("S0"), Lin.var("D0")  # the requested times / the whole segment, before alignment
    z0, z1 = Lin.var("z0"), Lin.var("z1")

    def code(I, mode):
        tg, objs = build_tg(I, [("interval", "W", ents), ("point", "P", oth)], m, M)
        log = []
        aligned = mode.startswith("aligned")

        def crossing(I_, t):
            # the search is decided by Z-loop / Z-crossing; here it is a function of its argument
            if isinstance(t, Lin) and t.same(T0):
                return T
            if isinstance(t, Lin) and t.same(S0):
                return S
            return Lin.var("BADZ")

        def seg_crossing(I_, t):
            t = I_.num(t)
            if t.is_const() and t.const == 0:
                return z0
            if t.same(D0):
                return z1
            return Lin.var("BADZ")

        def subwav(I_, a_, b_):
            if isinstance(a_, Lin) and a_.same(z0) and isinstance(b_, Lin) and b_.same(z1):
                return MockObj({"duration": D, "frames": "SEGFRAMES"})
            return MockObj({"duration": Lin.var("BADD"), "frames": "BADFRAMES"})
        audio = MockObj({"insert": PyFunc(lambda I_, t, fr: log.append(("insert", t, fr))), "deleteSegment": PyFunc(lambda I_, a_, b_: log.append(("delete", a_, b_))),
                         "findNearestZeroCrossing": PyFunc(crossing)})
        if aligned:
            seg = MockObj({"duration": D0, "frames": "WHOLEFRAMES", "findNearestZeroCrossing": PyFunc(seg_crossing), "getSubwav": PyFunc(subwav)})
            shift_fn = idx.get("praatio_scripts:_shiftTimes")

            def shift(I_, args, kwargs):
                # _shiftTimes is decided by S-shiftTimes; here it is recorded (the textgrid goes on unchanged, so that the
                # remaining edits are compared on the same entries)
                log.append(("shift", args[1], args[2]))
                return I_.call_value(I_.getattr(args[0], "new"), [], {})
            I.overrides = dict(I.overrides)
            I.overrides[shift_fn.qual] = shift
            start, stop = (S0, T0) if mode == "aligned-replace" else (T0, None)
        else:
            seg = MockObj({"duration": D, "frames": "SEGFRAMES"})
            start, stop = (S, T) if mode == "replace" else (T, None)
        res = I.call_function(fn, [audio, seg, tg, "W", label_var("NEW"), start, stop, aligned], {})
        out = read_tg(I, res.items[1])
        out["audio"] = log
        out["same_audio"] = res.items[0] is audio
        out["tg_is_copy"] = res.items[1] is not tg
        return out

    def spec(O, mode):
        # insertion point: T (the end of the replaced region when one is given)
        for s, e, _ in ents:
            if O.lt(s, T) and O.lt(T, e):
                O.raise_("CollisionError")  # the stretched interval covers the gap: the new label cannot be inserted
        w = specs.insert_space_interval(O, ents, m, M, T, D, "stretch")
        w = specs.insert_entry_interval(O, w["entries"], w["min"], w["max"], (T, T + D, label_var("NEW")), "error", "warning")
        p = specs.insert_space_point(O, oth, m, M, T, D)
        if mode.endswith("replace"):
            w = specs.erase_interval(O, w["entries"], w["min"], w["max"], S, T, "truncate", True)
            p = specs.erase_point(O, p["entries"], p["min"], p["max"], S, T, True)
            audio = [("insert", T, "SEGFRAMES"), ("delete", S, T)]
        else:
            audio = [("insert", T, "SEGFRAMES")]
        if mode == "aligned":
            audio = [("shift", T0, T)] + audio  # the text boundary at the requested time moves to the crossing first
        elif mode == "aligned-replace":
            audio = [("shift", S0, S), ("shift", T0, T)] + audio
        return {"W": w, "P": p, "audio": audio, "max": (M + D - (T - S)) if mode.endswith("replace") else M + D}

    def eq(I, g, w):
        if not g["same_audio"] or not g["tg_is_copy"]:
            return "must return the given audio object and a copy of the textgrid"
        a = g["audio"]
        if len(a) != len(w["audio"]) or any(x[0] != y[0] or not num_equal(I, x[1], y[1]) or not (num_equal(I, x[2], y[2]) if isinstance(y[2], Lin) else x[2] == y[2]) for x, y in zip(a, w["audio"])):
            return "audio operations %s, expected %s (audio and text must be edited at the same times)" % (a, w["audio"])
        if not num_equal(I, g["max"], w["max"]):
            return "textgrid ends at %r, expected %r (durations of audio and textgrid must agree)" % (g["max"], w["max"])
        for t, key in zip(g["tiers"], ("W", "P")):
            d = tier_equal(I, t, w[key], check_span=True)
            if d:
                return "tier %s: %s" % (key, d)
        news = [e for e in g["tiers"][0]["entries"] if isinstance(e.items[2], Str) and e.items[2].parts == ("NEW",)]
        if len(news) != 1:
            return "expected exactly one new interval with the given label, found %d" % len(news)
        return None
    simple(rep, "S-splice", fn, at, ["insert", "replace", "aligned", "aligned-replace"], code, spec,
           "audioSplice on {%d intervals, 1 point}: insertion at T, optional replaced region (S,T), segment duration D>0; with alignToZeroCrossing the crossings found for the requested times are T, S and the segment is cut to its own crossings (the search and _shiftTimes abstracted to recorded calls)" % k, eq)


def run(rep, tier):
    rep.rule("Z-loop", "one iteration of findNearestZeroCrossing's search loop, interpreted with the directional searches mocked: exits only by break (something found), FindZeroCrossingError (left < 0 and right > duration) or by moving left down and right up by timeStep (> 0 by the dominating guard) -- so the variant max(left, duration-right) strictly decreases and the loop terminates; thresholds, directions and window sizes as specified")
    rep.rule("Z-helpers", "chooseClosestTime returns the closer candidate; getInterval clamps the window at 0 or at the end; _iterZeroCrossings reads nothing outside its threshold and searches the clamped window from its start")
    rep.rule("Z-crossing", "_findNextZeroCrossing on generic samples: the returned index is inside the window and is a zero sample or a sample whose sign differs from a neighbour; None iff there is no such sample")
    rep.rule("S-shiftTimes / S-boundaries / S-splice", "text edits that accompany audio edits: _shiftTimes moves exactly the boundaries at the old time; tgBoundariesToZeroCrossings maps every timestamp through the search keeping order, counts and labels; audioSplice pairs audio.insert/deleteSegment with insertSpace/eraseRegion at the same times and inserts exactly one new interval")
    rep.not_decided.append("that the returned time falls on a sample position and lies in [0, duration] for every sample array (index arithmetic across window boundaries)")
    rep.not_decided.append("audioSplice with alignToZeroCrossing=True end to end on sample data: the wiring is decided (every requested time is replaced by its crossing, the text boundaries are shifted to it first, the segment is cut to its own crossings, audio and text are edited at the aligned times), with the search and _shiftTimes abstracted to the calls they receive (decided separately by Z-loop / Z-crossing / S-shiftTimes)")
    from . import audiobuf
    loop_iteration_table(rep)
    helper_tables(rep)
    for n in ([2, 3] if tier == "quick" else [2, 3, 4]):
        crossing_table(rep, n)
    if tier == "quick":
        shift_times_table(rep, 2, 0)
        shift_times_table(rep, 0, 2)
    else:
        shift_times_table(rep, 2, 2)
    boundaries_table(rep)
    splice_table(rep, 1 if tier == "quick" else 2)
    rep.rule("F-file", "shared with C16: readFramesAtTime (behind QueryWav.getSamples) positions the file at round(frameRate * start) before the single read")
    audiobuf.file_reads(rep)
