"""C07 -- eraseRegion blanks exactly the region and shrinks time by exactly its length."""

from .. import specs
from . import common
from .tierops import tier_table

MODES = [(m, s) for m in ("truncate", "categorical", "error") for s in (True, False)]


def region(at, ents):
    a, b = at.var("a"), at.var("b")
    at.rel("m", "<=", "a")  # the region lies inside the tier's span
    at.rel("b", "<=", "M")
    return {"a": a, "b": b}


def run(rep, tier):
    rep.rule("T4-erase-interval", "abstract interpretation of IntervalTier.eraseRegion (crop, deleteEntry, insertEntry, new and the constructor inlined) over every weak order of k generic entries, the region edges and the span, against the spec table")
    rep.rule("T5-erase-point", "same for PointTier.eraseRegion")
    rep.rule("R-G seams", "for every pair of consecutive output intervals fl(end_i) <= fl(start_i+1) is derived from the evaluation trees by IEEE-754 monotonicity rules (rows labelled 'seam' inside T4)")
    ks = [0, 1, 2] if tier == "quick" else [0, 1, 2, 3]
    for k in ks:
        tier_table(rep, "T4-erase-interval", "eraseRegion", "interval", k, region, MODES,
                   lambda I, t, sy, mode: I.call_value(I.getattr(t, "eraseRegion"), [sy["a"], sy["b"], mode[0], mode[1]], {}),
                   lambda O, ents, m, M, sy, mode: specs.erase_interval(O, ents, m, M, sy["a"], sy["b"], mode[0], mode[1]),
                   "%d generic entries x region (a,b) inside span" % k, seams=True)
    for k in ks:
        tier_table(rep, "T5-erase-point", "eraseRegion", "point", k, region, MODES,
                   lambda I, t, sy, mode: I.call_value(I.getattr(t, "eraseRegion"), [sy["a"], sy["b"], mode[0], mode[1]], {}),
                   lambda O, ents, m, M, sy, mode: specs.erase_point(O, ents, m, M, sy["a"], sy["b"], mode[1]),
                   "%d generic points x region (a,b) inside span" % k)

    # the textgrid-level operation (shared with C12): same names, same order, each tier equal to the tier operation
    from .c12 import lifting
    rep.rule("L-lifting-eraseRegion", "Textgrid.eraseRegion on a generic textgrid: per-tier result equals the tier-level eraseRegion(truncate), shared span, validate() True")
    for shape in ([("interval", "I", 1), ("point", "E", 0)], [("interval", "E", 0), ("point", "P", 1)]):
        lifting(rep, shape, only="eraseRegion")
    rep.rule("L-lifting-eraseRegion-ownspans", "same, on a textgrid whose tiers span only their own entries: the resulting textgrid has the span the operation defines")
    lifting(rep, [("interval", "I", 2)], only="eraseRegion", own=True)
