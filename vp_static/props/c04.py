"""C04 -- saving adds only blanks and absorbs only sub-threshold slivers."""

import ast

from .. import specs
from ..absint import DictVal, Lin, Lst, PyRaise, Tup, label_var
from ..index import norm
from ..tables import (Atoms, Outcome, TableRun, build_tier, compare_outcomes, declare_tier, entry_equal, num_equal,
                      run_code, run_spec, run_states, show)
from . import common
from .tgops import build_tg


def prep_table(rep, rule, k, with_threshold, override, narrow=False):
    """narrow=True: the interval tier spans only [tm, tM] inside the textgrid's [m, M] (a shorter tier in a longer
    textgrid): blanks must still be filled up to the file's span."""
    idx = common.ctx()
    fn = idx.get("utilities.textgrid_io:_prepTgForSaving")
    todict = idx.get("data_classes.textgrid:_tgToDictionary")
    rep.functions.add(fn.qual)
    for nm in ("_fillInBlanks", "_removeUltrashortIntervals", "_sortEntries"):
        rep.functions.add(idx.get("utilities.textgrid_io:" + nm).qual)
    at = Atoms()
    ents, m, M = declare_tier(at, k, "interval", span=True)
    lo = hi = None
    if override in ("min", "both"):
        lo = at.var("lo")
    if override in ("max", "both"):
        hi = at.var("hi")
    if lo is not None and hi is not None:
        at.rel("lo", "<", "hi")
    L = None
    if with_threshold:
        L = Lin.var("L")
        at.fact_lt(Lin.num(0), L)
    tm = tM = None
    if narrow:
        tm, tM = at.var("tm"), at.var("tM")
        at.rel("m", "<=", "tm")
        at.rel("tM", "<=", "M")
        at.rel("tm", "<=", "tM")
        if ents:
            at.rel("tm", "<=", "s1")
            at.rel("e%d" % k, "<=", "tM")
    tr = TableRun(rep, rule, fn.short, fn.loc)
    pts = [(Lin.var("pt"), label_var("pl"))]
    at.fact_le(m, pts[0][0])
    at.fact_le(pts[0][0], M)

    def rows(st):
        out = []
        for blank in (True, False):
            def code(I):
                tg, objs = build_tg(I, [("interval", "T", ents, tm, tM) if narrow else ("interval", "T", ents), ("point", "P", pts)], m, M)
                d = I.call_function(todict, [tg], {})
                I.tolerance_calls = I.math_tolerance_calls = 0
                res = I.call_function(fn, [d, blank, lo, hi, L], {})
                tol = I.tolerance_calls + I.math_tolerance_calls
                tiers = I.iterate(res.d["tiers"])
                t = tiers[0].d
                p = tiers[1].d
                return {"xmin": res.d["xmin"], "xmax": res.d["xmax"], "entries": [Tup(list(I.iterate(e))) for e in I.iterate(t["entries"])],
                        "points": [Tup(list(I.iterate(e))) for e in I.iterate(p["entries"])],
                        "tolerance": tol, "receiver": [Tup(list(e.items)) for e in I.iterate(I.getattr(objs[0], "entries"))],
                        "tier_spans": [(x["xmin"], x["xmax"], I.getattr(o, "minTimestamp"), I.getattr(o, "maxTimestamp")) for x, o in ((t, objs[0]), (p, objs[1]))]}
            got, I = run_code(idx, st, code)
            want = run_spec(idx, st, lambda O: specs.save_prep_interval(O, ents, m, M, lo, hi, blank, L))

            def eq(I, g, w):
                if not (num_equal(I, g["xmin"], w["xmin"]) and num_equal(I, g["xmax"], w["xmax"])):
                    return "file span (%r, %r), expected (%r, %r): an override becomes the file's span" % (g["xmin"], g["xmax"], w["xmin"], w["xmax"])
                if len(g["entries"]) != len(w["entries"]):
                    return "written intervals %s, expected %s" % (show(g["entries"]), show(w["entries"]))
                for i, (x, y) in enumerate(zip(g["entries"], w["entries"])):
                    if not entry_equal(I, x, y):
                        return "written interval %d is %s, expected %s" % (i, show(x), show(Tup(list(y))))
                if len(g["points"]) != 1 or not entry_equal(I, g["points"][0], pts[0]):
                    return "point tier changed: %s" % show(g["points"])
                if lo is None and hi is None:
                    # C01/C02: every tier's own span is written as it is in memory (blank filling changes entries, not headers)
                    for which, (a, b, ma, mb) in zip(("interval", "point"), g["tier_spans"]):
                        if not (num_equal(I, a, ma) and num_equal(I, b, mb)):
                            return "%s tier is written with span (%r, %r), in memory it has (%r, %r)" % (which, a, b, ma, mb)
                if g["tolerance"]:
                    return "the save preparation compares times with a tolerance (isclose) where the property decides by the threshold alone: a stretch longer than the threshold but within the tolerance is neither filled nor absorbed (gap in the written tier)"
                if len(g["receiver"]) != len(ents):
                    return "the textgrid's own tier was modified while preparing the save"
                if blank and g["entries"]:
                    # C02: ascending, gap-free, overlap-free partition of [xmin, xmax]
                    es = [e.items for e in g["entries"]]
                    if not num_equal(I, es[0][0], g["xmin"]) or not num_equal(I, es[-1][1], g["xmax"]):
                        return "written tier does not span the file's [xmin, xmax]: %s" % show(g["entries"])
                    for x, y in zip(es, es[1:]):
                        if not num_equal(I, x[1], y[0]):
                            return "gap or overlap between written intervals %s and %s" % (show(Tup(x)), show(Tup(y)))
                return None
            out.append(compare_outcomes(I, ("blank" if blank else "verbatim"), got, want, eq=eq))
        return out

    run_states(at, rows, tr)
    tr.done("%d generic intervals%s, %s, override=%s" % (k, " in a tier narrower than the textgrid" if narrow else "", "threshold L>0" if with_threshold else "threshold None", override))


def run(rep, tier):
    idx = common.ctx()
    rep.rule("T10-T12 save preparation", "abstract interpretation of _tgToDictionary + _prepTgForSaving (with _fillInBlanks, _removeUltrashortIntervals, _sortEntries inlined) on a generic textgrid against the spec: verbatim when blank filling is off; otherwise blanks exactly in the unlabelled stretches of the requested span, ParsingError when an entry falls outside it, slivers shorter than the threshold absorbed into the neighbour, nothing absorbed when the threshold is None; the override becomes the file's span; point tiers untouched; every tier's own span written as in memory (no override); the textgrid itself untouched; the written tier partitions [xmin, xmax]")
    rep.rule("G-guards", "getTextgridAsStr interpreted per format with its callees abstracted to recorders: the dictionary is prepared exactly once, with the caller's blank-filling / span-override / threshold options passed through unchanged, before anything is serialised")
    rep.not_decided.append("'no written interval is shorter than the threshold' after chains of slivers whose sum is still below the threshold (depends on sums of lengths)")
    rep.not_decided.append("the second (boundary-stitching) loop of _removeUltrashortIntervals is a no-op on a partition in exact arithmetic; its float behaviour is not decided")
    ks = [0, 1, 2] if tier == "quick" else [0, 1, 2, 3]
    for k in ks:
        for thr in (False, True):
            for ov in (("none", "both") if tier == "quick" else ("none", "min", "max", "both")):
                if k >= 2 and thr and ov == "both" and tier == "quick":
                    continue
                if k >= 3 and thr and ov != "none":
                    continue  # 3 intervals x threshold x overrides: the refinement tree gets too large; covered for k <= 2
                prep_table(rep, "T10-T12-prep", k, thr, ov)
    # a tier shorter than its textgrid (two tools, different lengths): the file's span is the textgrid's
    for k in (0, 1):
        prep_table(rep, "T10-T12-prep", k, False, "none", narrow=True)
    # getTextgridAsStr: prepared exactly once with the caller's options, every format serialises that object
    from .c02 import rule_one_dict
    rule_one_dict(rep, rule="G-guards")
    # 'if an entry would fall outside the requested span the save raises instead of writing an inconsistent file'
    from .common import rule_save_order
    rep.rule("B2-save-order", "in Textgrid.save the text is computed (and can raise) before the destination is opened for writing (shared with C13)")
    rule_save_order(rep, ["Textgrid.save"])
    # 'the 1e-8 default threshold'
    rep.rule("D-default-threshold", "the default of minimumIntervalLength in Textgrid.save and getTextgridAsStr is the constant the property names, 1e-8 (resolved through the imported module constant)")
    for spec_ in ("Textgrid.save", "utilities.textgrid_io:getTextgridAsStr"):
        f = idx.get(spec_)
        rep.functions.add(f.qual)
        node = f.defaults.get("minimumIntervalLength")
        if node is None:
            rep.refuted("D-default-threshold", f.short, "minimumIntervalLength", "the parameter has no default (the property's 'default threshold')", loc=f.loc)
            continue
        val = idx.const_value(f.module, node)
        rep.check(isinstance(val, (int, float)) and not isinstance(val, bool) and float(val) == 1e-8, "D-default-threshold", f.short, "minimumIntervalLength = %s" % ast.unparse(node),
                  ok="evaluates to 1e-8", bad="evaluates to %r, the property's default threshold is 1e-8" % (val,), loc=f.loc)
    # 'boundaries unchanged': every time is written exactly
    from . import textrules as R
    rep.rule("C-exact / W-doc", "boundaries are written exactly: numToStr is repr or the compared integer (tolerance <= 1e-14), and in the emitted text every time is such a numeral, free-standing and in its place (shared with C01/C02)")
    R.rule_exact_formatter(rep)
    R.rule_written_document(rep, tier)
    # 'a minTimestamp/maxTimestamp override becomes the file's span' in the plain-json document too
    rep.rule("C-keys", "the dictionary pipeline interpreted on a generic textgrid (shared with C01-C03), including a span override narrower than the tiers' own spans: the plain-json document carries the requested span")
    R.rule_json_protocol(rep)
