"""C19 -- KlattGrid and point-object files round-trip every number exactly."""

import ast
import re
from fractions import Fraction

from .. import textfmt as tf
from ..absint import Interp, Lin, Lst, ObjVal, PyFunc, PyRaise, State, Tup
from ..index import Undecided, norm
from ..tables import default_overrides
from . import common
from .common import rule_save_order


def rule_clean_numeric(rep, tier, rule="N-clean"):
    """_cleanNumericValues / toIntOrFloat, interpreted on exemplar rows, never change the number a row denotes."""
    idx = common.ctx()
    fn = idx.get("data_classes.klattgrid:_cleanNumericValues")
    rep.functions.add(fn.qual)
    st = State([("0", Lin.num(0))], [0])
    vals = ["0.5", "2519.3075148880134", "60.0", "60", "-0.0", "0.0", "0", "9.86e-20", "2.5e-300", "1e+250", "-3.25", "0.1", "123456789012345.6", "5e-324", "-1e-17"]
    if tier == "thorough":
        vals += ["%de%+03d" % (m, e) for m in (1, 7) for e in (-310, -100, -17, -16, -15, 15, 16, 100, 308)] + ["0.30000000000000004", "1.7976931348623157e+308"]
        vals = [v for v in vals if float(v) != float("inf")]  # 7e+308 is beyond the range of doubles: no file written from a finite value holds it
    rows = ["    number = " + v for v in vals] + ["        value = " + v for v in vals]
    others = ["points: size= 3", "xmin = 0.5", "    xmax = 2.25 ", "phonation? <exists> ", "points [2]:", "oral_formants: size=4", ""]
    I = Interp(idx, st, overrides=default_overrides())
    try:
        out = I.call_function(fn, ["\n".join(rows + others)], {})
    except PyRaise as e:
        rep.refuted(rule, fn.short, "exemplar rows", "raises %s on well-formed KlattGrid text" % e.name)
        return
    except Undecided as e:
        rep.undecided(rule, fn.short, "exemplar rows", str(e))
        return
    if not isinstance(out, str):
        rep.undecided(rule, fn.short, "exemplar rows", "result is not a concrete string: %r" % (out,))
        return
    got = out.split("\n")
    bad = []
    if len(got) != len(rows) + len(others):
        bad.append("row count %d -> %d" % (len(rows) + len(others), len(got)))
    else:
        for a, b in zip(rows, got[: len(rows)]):
            va = a.split("=")[1].strip()
            if "=" not in b:
                bad.append("%r -> %r" % (a, b))
                continue
            vb = b.split("=")[1].strip()
            try:
                same = Fraction(va) == Fraction(vb)
            except Exception:
                same = False
            if not same or a.split("=")[0].strip() != b.split("=")[0].strip():
                bad.append("%s -> %s" % (a.strip(), b.strip()))
        for a, b in zip(others[1:3], got[len(rows) + 1: len(rows) + 3]):
            if a.rstrip() != b:
                bad.append("span row %r -> %r" % (a, b))
    rep.check(not bad, rule, fn.short, "%d exemplar rows (integers, zeros, 17-digit decimals, tiny and huge magnitudes)" % len(rows),
              ok="every row still denotes exactly the same number; span rows untouched", bad="the written number changes: " + "; ".join(bad[:4]), loc=fn.loc)
    # toIntOrFloat on exemplars
    tf_ = idx.get("data_classes.klattgrid:toIntOrFloat")
    bad = []
    for v in ["0", "0.0", "60.0", "0.5", "2.25", "1e-05"]:
        I = Interp(idx, st, overrides=default_overrides())
        try:
            r = I.call_function(tf_, [Lin.num(Fraction(v))], {})
            if not (isinstance(r, Lin) and r.is_const() and r.const == Fraction(v)):
                bad.append("%s -> %r" % (v, r))
        except (PyRaise, Undecided) as e:
            bad.append("%s -> %s" % (v, e))
    rep.check(not bad, rule, tf_.short, "exemplar values", ok="value-preserving", bad="changes the value: " + "; ".join(bad))
    rep.floor(rule, 2)


def rule_modify(rep, rule="M-modify"):
    """modifyValues applies the function exactly once per value, in order, times untouched; modifySubtiers touches only the addressed tier."""
    idx = common.ctx()
    st = State([("0", Lin.num(0))], [0])
    I = Interp(idx, st, overrides=default_overrides())
    calls = []

    def f(I_, v):
        calls.append(v)
        if isinstance(v, Lin) and v.const == 101:
            return Lin.num(0)  # a function may well return zero (falsy): the result is still the new value
        return Tup(["f", v])
    try:
        sub = idx.cls("KlattSubPointTier")
        inter = idx.cls("KlattIntermediateTier")
        cont = idx.cls("KlattContainerTier")
        times = [Lin.num(Fraction(1, 4)), Lin.num(Fraction(1, 2)), Lin.num(1)]

        def mk(name, base):
            ents = Lst([Tup([t, Lin.num(base + i)]) for i, t in enumerate(times)])
            return I.instantiate(sub, [name, ents, Lin.num(0), Lin.num(2)], {})
        tiers = {n: mk(n, b) for n, b in (("F1", 100), ("F2", 200), ("B1", 300), ("B2", 400), ("A1", 500))}
        kits = {}
        # a third group whose name merely *contains* the addressed name, as Praat's own groups do
        for kname, members in (("formants", ("F1", "F2")), ("bandwidths", ("B1", "B2")), ("oral_formants_amplitudes", ("A1",))):
            kit = I.instantiate(inter, [kname], {})
            for mname in members:
                I.call_value(I.getattr(kit, "addTier"), [tiers[mname]], {})
            kits[kname] = kit
        kct = I.instantiate(cont, ["oral_formants"], {})
        for kit in kits.values():
            I.call_value(I.getattr(kct, "addTier"), [kit], {})
        I.call_value(I.getattr(kct, "modifySubtiers"), ["formants", PyFunc(f)], {})
        problems = []
        for n, t in tiers.items():
            ents = I.iterate(I.getattr(t, "entries"))
            touched = n in ("F1", "F2")
            base = {"F1": 100, "F2": 200, "B1": 300, "B2": 400, "A1": 500}[n]
            if len(ents) != 3:
                problems.append("%s has %d entries" % (n, len(ents)))
                continue
            for i, e in enumerate(ents):
                tv, vv = I.iterate(e)
                if not (isinstance(tv, Lin) and tv.same(times[i])):
                    problems.append("%s time %d changed" % (n, i))
                if touched and base + i == 101:
                    if not (isinstance(vv, Lin) and vv.const == 0):
                        problems.append("%s value %d is %r, expected f(101) = 0 (a zero result must not be discarded)" % (n, i, vv))
                elif touched:
                    if not (isinstance(vv, Tup) and vv.items[0] == "f" and isinstance(vv.items[1], Lin) and vv.items[1].const == base + i):
                        problems.append("%s value %d is %r, expected f(%d)" % (n, i, vv, base + i))
                elif not (isinstance(vv, Lin) and vv.const == base + i):
                    problems.append("%s (not addressed) value %d changed to %r" % (n, i, vv))
        if len(calls) != 6:
            problems.append("function applied %d times, expected once per value of the 2 addressed tiers (6)" % len(calls))
        rep.check(not problems, rule, "KlattContainerTier.modifySubtiers / KlattPointTier.modifyValues", "container {formants: F1,F2; bandwidths: B1,B2; oral_formants_amplitudes: A1}",
                  ok="the function is applied exactly once to every value of the addressed sub-tiers, in order; times and all other tiers untouched", bad="; ".join(problems[:4]))
    except PyRaise as e:
        rep.refuted(rule, "KlattContainerTier.modifySubtiers", "interpretation", "raises %s" % e.name)
    except Undecided as e:
        rep.undecided(rule, "KlattContainerTier.modifySubtiers", "interpretation", str(e))
    for q in ("KlattContainerTier.modifySubtiers", "KlattPointTier.modifyValues", "_KlattBaseTier.addTier"):
        rep.functions.add(idx.get(q).qual)


def rule_point_object_layout(rep, tier, rule="P-layout"):
    """PointObject.save followed by open1D/2DPointObject, interpreted on exemplar objects with a virtual file
    (nothing is written to disk): class, span and every point come back, also for zero points."""
    idx = common.ctx()
    st = State([("0", Lin.num(0))], [0])
    F = Fraction
    cases = [
        ("PointObject2D", "PitchTier", "open2DPointObject", []),
        ("PointObject2D", "PitchTier", "open2DPointObject", [(F(1, 4), F(120)), (F(3, 2), F(5, 2))]),
        ("PointObject2D", "DurationTier", "open2DPointObject", [(F(1, 8), F(3, 4))]),
        ("PointObject1D", "PointProcess", "open1DPointObject", [(F(1, 4),), (F(1, 2),), (F(7, 8),)]),
    ]
    if tier == "thorough":
        cases += [("PointObject2D", "PitchTier", "open2DPointObject", [(F(k, 16), F(100 + k)) for k in range(1, 9)]),
                  ("PointObject1D", "PointProcess", "open1DPointObject", [(F(1, 1024),), (F(12345, 8),)])]
    sv = idx.get("PointObject.save")
    rep.functions.add(sv.qual)
    for cname, oclass, opener, pts in cases:
        rd = idx.get("data_points:" + opener)
        rep.functions.add(rd.qual)
        what = "%s %s with %d point(s)" % (cname, oclass, len(pts))
        I = Interp(idx, st, overrides=default_overrides())
        try:
            obj = I.instantiate(idx.cls(cname), [Lst([Tup([Lin.num(x) for x in p_]) for p_ in pts]), oclass, Lin.num(F(1, 8)), Lin.num(F(7, 4))], {})
            I.call_value(I.getattr(obj, "save"), ["out.txt"], {})
            back = I.call_function(rd, ["out.txt"], {})
        except PyRaise as e:
            rep.refuted(rule, sv.short + " / " + rd.short, what, "save followed by open raises %s: the written text does not have the layout the reader consumes" % e.name)
            continue
        except Undecided as e:
            rep.undecided(rule, sv.short + " / " + rd.short, what, str(e))
            continue
        problems = []
        if not isinstance(back, ObjVal):
            problems.append("reader returned %r" % (back,))
        else:
            if I.getattr(back, "objectClass") != oclass:
                problems.append("class %r" % (I.getattr(back, "objectClass"),))
            lo, hi = I.getattr(back, "minTime"), I.getattr(back, "maxTime")
            if not (isinstance(lo, Lin) and lo.const == F(1, 8) and isinstance(hi, Lin) and hi.const == F(7, 4)):
                problems.append("span (%r, %r), expected (0.125, 1.75)" % (lo, hi))
            got = [[float(x.const) if isinstance(x, Lin) and x.is_const() else x for x in I.iterate(row)] for row in I.iterate(I.getattr(back, "pointList"))]
            if got != [[float(x) for x in p_] for p_ in pts]:
                problems.append("points %s, expected %s" % (got, [[float(x) for x in p_] for p_ in pts]))
        rep.check(not problems, rule, sv.short + " / " + rd.short, what, ok="class, span and every point come back", bad="; ".join(problems))
    # long ("normal") text form, as Praat itself writes it (transcribed from the manual; praatio only reads it)
    LONG = {
        "open2DPointObject": ('File type = "ooTextFile"\nObject class = "PitchTier"\n\nxmin = 0.125 \nxmax = 1.75 \npoints: size = 2 \npoints [1]:\n    number = 0.25 \n    value = 120 \npoints [2]:\n    number = 1.5 \n    value = 2.5 \n',
                              "PitchTier", [[F(1, 4), F(120)], [F(3, 2), F(5, 2)]]),
        "open1DPointObject": ('File type = "ooTextFile"\nObject class = "PointProcess"\n\nxmin = 0.125 \nxmax = 1.75 \nnt = 2 \nt []: \n    t [1] = 0.25 \n    t [2] = 0.875 \n',
                              "PointProcess", [[F(1, 4)], [F(7, 8)]]),
    }
    for opener, (text, oclass, pts) in LONG.items():
        rd = idx.get("data_points:" + opener)
        what = "long-format %s exemplar with %d point(s)" % (oclass, len(pts))
        I = Interp(idx, st, overrides=default_overrides())
        I.__dict__.setdefault("vfs", {})["in.txt"] = text
        try:
            back = I.call_function(rd, ["in.txt"], {})
        except PyRaise as e:
            rep.refuted(rule, rd.short, what, "reading Praat's long text form raises %s" % e.name)
            continue
        except Undecided as e:
            rep.undecided(rule, rd.short, what, str(e))
            continue
        problems = []
        if not isinstance(back, ObjVal):
            problems.append("reader returned %r" % (back,))
        else:
            if I.getattr(back, "objectClass") != oclass:
                problems.append("class %r" % (I.getattr(back, "objectClass"),))
            lo, hi = I.getattr(back, "minTime"), I.getattr(back, "maxTime")
            if not (isinstance(lo, Lin) and lo.const == F(1, 8) and isinstance(hi, Lin) and hi.const == F(7, 4)):
                problems.append("span (%r, %r), expected (0.125, 1.75)" % (lo, hi))
            got = [[x.const if isinstance(x, Lin) else x for x in I.iterate(row)] for row in I.iterate(I.getattr(back, "pointList"))]
            if got != pts:
                problems.append("points %s, expected %s" % (got, pts))
        rep.check(not problems, rule, rd.short, what, ok="class, span and every point are read from Praat's long text form", bad="; ".join(problems))
    rep.floor(rule, 6)


def rule_klatt_layout(rep, tier, rule="K-layout"):
    """Klattgrid.save followed by openKlattgrid, interpreted on an exemplar KlattGrid with a virtual file (nothing
    touches the disk): the hierarchy (plain tiers, a null tier, a container with two intermediate tiers and their
    sub-tiers), every span and every point come back.  Values are chosen for the hard cases of the writer's number
    clean-up and the reader's field slicing: integer-valued floats, 0.0, exponent notation with an exponent ending
    in 0, several digits in the last value of each section."""
    idx = common.ctx()
    st = State([("0", Lin.num(0))], [0])
    F = Fraction

    def fl(x):
        return Lin.num(F(x)).as_float()

    def pts(rows):
        return Lst([Tup([fl(t), fl(v)]) for t, v in rows])
    lo, hi = fl(0.125), fl(1.75)
    plain = [("phonation", []), ("pitch", [(0.25, 120.5), (1.5, 3.28e-20), (1.625, 0.0)]), ("flutter", [(0.875, 0.25)]),  # exactly one point
             ("voicingAmplitude", [(0.5, 60.0), (0.75, 1.29e+20), (1.0, 12345.678)])]
    subs = {"formants": [("formants [1]", [(0.25, 550.25), (0.5, 1234.0)]), ("formants [2]", [(0.25, 1500.0), (0.375, 98.765)])],
            # eleven sub-tiers: numbering runs past 9, where the order of the names is not their lexicographic order
            "bandwidths": [("bandwidths [%d]" % i, [(0.75, 60.5 + i), (1.0, 7.5e-10 if i == 1 else 70.0 + i)]) for i in range(1, 12)]}
    sv = idx.get("Klattgrid.save")
    rd = idx.get("klattgrid:openKlattgrid")
    for q in ("Klattgrid.save", "klattgrid:openKlattgrid", "klattgrid:_openNormalKlattgrid", "klattgrid:_proccessContainerTierInput", "klattgrid:_getSectionHeader",
              "klattgrid:_processSectionData", "klattgrid:_buildEntries", "data_classes.klattgrid:_cleanNumericValues", "data_classes.klattgrid:toIntOrFloat"):
        if idx.try_get(q):
            rep.functions.add(idx.get(q).qual)
    what = "exemplar KlattGrid (4 plain tiers incl. a null tier, oral_formants{formants[1,2], bandwidths[1..11]})"
    I = Interp(idx, st, overrides=default_overrides())
    I.MAX_STEPS = 3000000
    try:
        kg = I.instantiate(idx.cls("Klattgrid"), [], {})
        for name, rows in plain[:3]:
            I.call_value(I.getattr(kg, "addTier"), [I.instantiate(idx.cls("KlattPointTier"), [name, pts(rows), lo, hi], {})], {})
        kct = I.instantiate(idx.cls("KlattContainerTier"), ["oral_formants"], {})
        for kname, members in subs.items():
            kit = I.instantiate(idx.cls("KlattIntermediateTier"), [kname], {})
            for sname, rows in members:
                I.call_value(I.getattr(kit, "addTier"), [I.instantiate(idx.cls("KlattSubPointTier"), [sname, pts(rows), lo, hi], {})], {})
            I.call_value(I.getattr(kct, "addTier"), [kit], {})
        I.call_value(I.getattr(kg, "addTier"), [kct], {})
        name, rows = plain[3]
        I.call_value(I.getattr(kg, "addTier"), [I.instantiate(idx.cls("KlattPointTier"), [name, pts(rows), lo, hi], {})], {})
        I.call_value(I.getattr(kg, "save"), ["out.KlattGrid"], {})
        back = I.call_function(rd, ["out.KlattGrid"], {})
    except PyRaise as e:
        rep.refuted(rule, sv.short + " / " + rd.short, what, "save followed by open raises %s: the written text does not have the layout the reader consumes" % e.name)
        return
    except Undecided as e:
        rep.undecided(rule, sv.short + " / " + rd.short, what, str(e))
        return
    problems = []

    def num(v):
        return v.const if isinstance(v, Lin) and v.is_const() else v

    def check_points(label, tierobj, rows):
        got = [[float(num(x)) if isinstance(num(x), F) else num(x) for x in I.iterate(e)] for e in I.iterate(I.getattr(tierobj, "entries"))]
        exp = [[float(t), float(v)] for t, v in rows]  # compared as the doubles the numerals denote
        if got != exp:
            problems.append("%s: points %s, written %s" % (label, got, rows))
        sp = (num(I.getattr(tierobj, "minTimestamp")), num(I.getattr(tierobj, "maxTimestamp")))
        if sp != (F(0.125), F(1.75)):
            problems.append("%s: span %s, written (0.125, 1.75)" % (label, tuple(float(x) if isinstance(x, F) else x for x in sp)))
    if not isinstance(back, ObjVal):
        problems.append("the reader returned %r" % (back,))
    else:
        names = [str(n) for n in I.iterate(I.getattr(back, "tierNames"))]
        want_names = [n for n, _ in plain[:3]] + ["oral_formants", plain[3][0]]
        if names != want_names:
            problems.append("tiers %s, written %s" % (names, want_names))
        else:
            for name, rows in plain:
                t = I.call_value(I.getattr(back, "getTier"), [name], {})
                if t.cls.name != "KlattPointTier":
                    problems.append("%s comes back as %s" % (name, t.cls.name))
                else:
                    check_points(name, t, rows)
            c = I.call_value(I.getattr(back, "getTier"), ["oral_formants"], {})
            if c.cls.name != "KlattContainerTier":
                problems.append("oral_formants comes back as %s" % c.cls.name)
            else:
                inames = [str(n) for n in I.iterate(I.getattr(c, "tierNameList"))]
                if inames != list(subs):
                    problems.append("intermediate tiers %s, written %s" % (inames, list(subs)))
                else:
                    for kname, members in subs.items():
                        kit = I.getattr(c, "tierDict").d[kname]
                        snames = [str(n) for n in I.iterate(I.getattr(kit, "tierNameList"))]
                        if snames != [n for n, _ in members]:
                            problems.append("%s holds %s, written %s" % (kname, snames, [n for n, _ in members]))
                            continue
                        for sname, rows in members:
                            check_points(sname, I.getattr(kit, "tierDict").d[sname], rows)
    rep.check(not problems, rule, sv.short + " / " + rd.short, what, ok="hierarchy, spans and every point come back", bad="; ".join(problems[:4]))
    rep.floor(rule, 1)


def run(rep, tier):
    rep.rule("N-clean", "_cleanNumericValues and toIntOrFloat, interpreted on exemplar rows, keep the denoted number (also for tiny, huge, zero and integer values)")
    rep.rule("M-modify", "modifySubtiers / modifyValues interpreted on a generic container: function applied exactly once per value of the addressed tiers, times and other tiers untouched")
    rep.rule("B2-save-order", "Klattgrid.save and PointObject.save compute the whole text before opening the destination")
    rep.rule("K-layout", "Klattgrid.save then openKlattgrid interpreted on an exemplar KlattGrid with a virtual file: the tier hierarchy, every span and every point come back (integer-valued floats, 0.0, exponent notation, multi-digit last values)")
    rep.rule("P-layout", "PointObject.save then open1D/2DPointObject interpreted on exemplar objects (0-3 points, dyadic values) with a virtual file: class, span and points come back")
    rep.not_decided.append("digit-for-digit identity as a behaviour of the whole reader (it needs the section scanner to be right about where fields are, for every file)")
    rep.not_decided.append("long/short equality of point objects beyond the field-bound rules")
    rule_clean_numeric(rep, tier)
    rule_modify(rep)
    rule_save_order(rep, ["Klattgrid.save", "PointObject.save"])
    rule_klatt_layout(rep, tier)
    rule_point_object_layout(rep, tier)
