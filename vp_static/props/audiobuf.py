"""W-buf / F-file -- the in-memory Wav edits and the file readers, interpreted over an abstract byte buffer.

The receiver's frames are one symbolic buffer `orig[0 : w*n]` (n samples of width w; w and the frame rate are small
concrete exemplars, n and every sample index are symbols).  Times are symbols too; `round(time * frameRate)` is the
one place where a time becomes a sample index, and the interpretation insists on exactly that expression: the
builtin `round` is overridden to return the index atom of a time when its argument is literally frameRate*time, and
to record anything else (a product that already contains the sample width, a sum of two times, ...) as a bad
conversion; `int`, `math.floor`, `math.ceil`, `math.trunc` of a symbolic value are bad conversions as well.
Slicing and concatenation are evaluated on the buffer, so what a method leaves in `self.frames` or returns is a
list of segments with linear byte offsets, compared with the specification's segments; every offset must be a
multiple of the sample width.
"""

from fractions import Fraction

from ..absint import BufVal, Interp, Lin, Lst, MockObj, PyFunc, PyRaise, State, Tup
from ..index import Undecided
from ..tables import Atoms, TableRun, default_overrides, run_states
from . import common

W, FR = 2, 8  # exemplar sample width (bytes) and frame rate; every check is linear in them


def norm_segs(I, segs):
    out = []
    for src, lo, hi in segs:
        if out and out[-1][0] == src and I.state.signs(out[-1][2] - lo) == frozenset([0]):
            out[-1] = (src, out[-1][1], hi)
        elif I.state.signs(hi - lo) != frozenset([0]):
            out.append((src, lo, hi))
    return out


def segs_equal(I, got, want):
    g, w = norm_segs(I, got), norm_segs(I, want)
    if len(g) != len(w):
        return False
    for (s1, l1, h1), (s2, l2, h2) in zip(g, w):
        if s1 != s2 or I.state.signs(l1 - l2) != frozenset([0]) or I.state.signs(h1 - h2) != frozenset([0]):
            return False
    return True


def show(segs):
    return " + ".join("%s[%r:%r]" % x for x in segs) or "(empty)"


def aligned(segs):
    for _, lo, hi in segs:
        for v in (lo, hi):
            if any(c % W for c in list(v.coef.values()) + [v.const]):
                return False
    return True


class BadConversion(Exception):
    pass


class Conv:
    """The override of round/int/floor...: time -> sample-index atoms; anything else aborts the interpretation."""

    def __init__(self, times, allow=()):
        self.times = times  # {time symbol name: index atom name}
        self.allow = list(allow)  # further arguments of round() that are legitimate here, as (Lin, atom name)
        self.bad = []

    def round_(self, I, a, k):
        x = a[0]
        if isinstance(x, Lin) and not x.is_const():
            for t, ix in self.times.items():
                if x.same(Lin.var(t).scale(FR)):
                    return Lin.var(ix)
            for lin, atom in self.allow:
                if x.same(lin):
                    return Lin.var(atom)
            self.bad.append("round(%r)" % (x,))
            raise BadConversion("round(%r)" % (x,))
        if isinstance(x, Lin):
            return Lin.num(round(x.const))
        raise Undecided("round(%r)" % (x,))

    def trunc(self, name):
        def f(I, a, k):
            x = a[0]
            if isinstance(x, Lin) and not x.is_const():
                self.bad.append("%s(%r)" % (name, x))
                raise BadConversion("%s(%r)" % (name, x))
            if isinstance(x, Lin):
                import math
                return Lin.num(getattr(math, {"int": "trunc"}.get(name, name))(x.const))
            if isinstance(x, str):
                try:
                    return Lin.num(int(x))
                except ValueError:
                    raise PyRaise("ValueError")
            raise Undecided("%s(%r)" % (name, x))
        return f

    def overrides(self):
        return {"round": self.round_, "int": self.trunc("int"), "math.floor": self.trunc("floor"), "math.ceil": self.trunc("ceil"), "math.trunc": self.trunc("trunc")}


def wav_table(rep, rule="W-buf"):
    """Wav.getFrames / deleteSegment / insert / replaceSegment / concatenate / getSubwav / duration."""
    idx = common.ctx()
    wav_cls = idx.cls("Wav")
    at = Atoms()
    at.const(0, "0")
    ia, ib, n = at.var("ia"), at.var("ib"), at.var("n")
    at.rel("0", "<=", "ia")
    at.rel("ia", "<=", "ib")
    at.rel("ib", "<=", "n")
    ta, tb = Lin.var("ta"), Lin.var("tb")
    total = n.scale(W)
    NEW = ("new", Lin.num(0), Lin.var("k").scale(W))  # k new samples
    at.fact_le(Lin.num(0), Lin.var("k"))
    ops = {
        "getFrames": (lambda I, w: I.call_value(I.getattr(w, "getFrames"), [ta, tb], {}), "result", [("orig", ia.scale(W), ib.scale(W))]),
        "deleteSegment": (lambda I, w: I.call_value(I.getattr(w, "deleteSegment"), [ta, tb], {}), "frames", [("orig", Lin.num(0), ia.scale(W)), ("orig", ib.scale(W), total)]),
        "insert": (lambda I, w: I.call_value(I.getattr(w, "insert"), [ta, BufVal([NEW])], {}), "frames", [("orig", Lin.num(0), ia.scale(W)), NEW, ("orig", ia.scale(W), total)]),
        "replaceSegment": (lambda I, w: I.call_value(I.getattr(w, "replaceSegment"), [ta, tb, BufVal([NEW])], {}), "frames", [("orig", Lin.num(0), ia.scale(W)), NEW, ("orig", ib.scale(W), total)]),
        "concatenate": (lambda I, w: I.call_value(I.getattr(w, "concatenate"), [BufVal([NEW])], {}), "frames", [("orig", Lin.num(0), total), NEW]),
        "getSubwav": (lambda I, w: I.call_value(I.getattr(w, "getSubwav"), [ta, tb], {}), "subwav", [("orig", ia.scale(W), ib.scale(W))]),
    }
    for q in ("Wav._getIndexAtTime", "Wav.getFrames", "Wav.deleteSegment", "Wav.insert", "Wav.replaceSegment", "Wav.concatenate", "Wav.getSubwav", "Wav.duration"):
        if idx.try_get(q):
            rep.functions.add(idx.get(q).qual)
    fn = idx.get("Wav.getFrames")
    tr = TableRun(rep, rule, "audio.Wav", fn.loc)

    def rows(st):
        out = []
        for name, (call, kind, want) in ops.items():
            conv = Conv({"ta": "ia", "tb": "ib"})
            I = Interp(idx, st, overrides=default_overrides())
            I.builtin_overrides = conv.overrides()
            try:
                w = I.instantiate(wav_cls, [BufVal([("orig", Lin.num(0), total)]), Lst([Lin.num(1), Lin.num(W), Lin.num(FR), n, "NONE", "not compressed"])], {})
                res = call(I, w)
                frames = I.getattr(w, "frames")
                if kind == "result":
                    got, untouched = res, frames
                elif kind == "subwav":
                    got, untouched = I.getattr(res, "frames"), frames
                    if not (I.getattr(res, "frameRate").same(Lin.num(FR)) and I.getattr(res, "sampleWidth").same(Lin.num(W))):
                        out.append((name, False, "the sub-wav does not carry the source's sample width / frame rate", None))
                        continue
                else:
                    got, untouched = frames, None
                dur = I.getattr(w, "duration")  # after the operation: must describe the frames as they are now
            except PyRaise as e:
                out.append((name, False, "raises %s for times inside the recording" % e.name, None))
                continue
            except BadConversion:
                pass
            except Undecided as e:
                if type(e).__name__ == "NeedSplit":
                    raise
                out.append((name, True, "", str(e)))
                continue
            if conv.bad:
                out.append((name, False, "a time is converted to a sample position by %s, not by round(time * frameRate): the position can be off by one sample (or fall inside a sample)" % ", ".join(sorted(set(conv.bad))), None))
                continue
            if not isinstance(got, BufVal):
                out.append((name, False, "result is %r, not a byte buffer" % (got,), None))
                continue
            if not aligned(got.segs):
                out.append((name, False, "a cut falls inside a sample: %s (offsets must be multiples of the sample width %d)" % (show(got.segs), W), None))
                continue
            if not segs_equal(I, got.segs, want):
                out.append((name, False, "leaves %s, expected %s (ia/ib = sample nearest to the start/end time, n samples, %d bytes each)" % (show(norm_segs(I, got.segs)), show(norm_segs(I, want)), W), None))
                continue
            if untouched is not None and not segs_equal(I, untouched.segs, [("orig", Lin.num(0), total)]):
                out.append((name, False, "a query changed the receiver's frames: %s" % show(untouched.segs), None))
                continue
            now = I.getattr(w, "frames")
            want_dur = now.length().scale(Fraction(1, W * FR)) if isinstance(now, BufVal) else None
            if want_dur is not None and not (isinstance(dur, Lin) and I.state.signs(dur - want_dur) == frozenset([0])):
                out.append((name, False, "after the operation duration is %r, but the frames now hold %r seconds" % (dur, want_dur), None))
                continue
            out.append((name, True, "", None))
        return out

    run_states(at, rows, tr)
    tr.done("6 operations x every weak order of 0 <= ia <= ib <= n (sample indices of the two times; n samples)")


def file_reads(rep, rule="F-file"):
    """readFramesAtTime / QueryWav.getFrames interpreted on a recording file handle: the file is positioned at the
    sample nearest to the start time, unconditionally, before the one read; conversions are round(frameRate*time)."""
    idx = common.ctx()
    fn = idx.get("audio:readFramesAtTime")
    rep.functions.add(fn.qual)
    st = State([("0", Lin.num(0))], [0])
    ta, tb = Lin.var("ta"), Lin.var("tb")
    for what, start in (("a stretch inside the recording", ta), ("a stretch from time 0 (on a handle that was read before)", Lin.num(0))):
        log = []
        conv = Conv({"ta": "ia", "tb": "ib"}, allow=[((tb - start).scale(FR), "count")])
        handle = MockObj({
            "getparams": PyFunc(lambda I_: Tup([Lin.num(1), Lin.num(W), Lin.num(FR), Lin.var("n"), "NONE", "not compressed"])),
            "setpos": PyFunc(lambda I_, p: log.append(("setpos", p))),
            "readframes": PyFunc(lambda I_, c: (log.append(("readframes", c)), BufVal([("file", Lin.num(0), Lin.num(0))]))[1]),
            "tell": PyFunc(lambda I_: Lin.var("pos")),
        }, "wave handle")
        I = Interp(idx, st, overrides=default_overrides())
        I.builtin_overrides = conv.overrides()
        try:
            I.call_function(fn, [handle, start, tb], {})
        except BadConversion as e:
            rep.refuted(rule, fn.short, what, "a time is converted to a sample position by %s, not by round(frameRate * time)" % e, loc=fn.loc)
            continue
        except PyRaise as e:
            rep.refuted(rule, fn.short, what, "raises %s" % e.name, loc=fn.loc)
            continue
        except Undecided as e:
            rep.undecided(rule, fn.short, what, str(e))
            continue
        problems = []
        kinds = [k for k, _ in log]
        if kinds != ["setpos", "readframes"]:
            problems.append("file operations are %s, expected one setpos followed by one readframes (a read that is not preceded by a seek continues wherever the previous query stopped)" % kinds)
        else:
            pos = log[0][1]
            want = Lin.var("ia") if start is ta else Lin.num(0)
            if not (isinstance(pos, Lin) and pos.same(want)):
                problems.append("the file is positioned at %r, expected the sample nearest to the start time" % (pos,))
            if conv.bad:
                problems.append("a time is converted by %s, not by round(frameRate * time)" % ", ".join(conv.bad))
        rep.check(not problems, rule, fn.short, what, ok="setpos(round(frameRate*start)) then one readframes", bad="; ".join(problems), loc=fn.loc)
    rep.floor(rule, 2)


def pack_unpack(rep, rule="F3-pack"):
    """convertToBytes / convertFromBytes interpreted with struct.pack / struct.unpack as recorders: little-endian, one
    code of the sample's width per sample, the samples and the bytes passed through unchanged."""
    import struct as _struct

    idx = common.ctx()
    ct, cf = idx.get("audio:convertToBytes"), idx.get("audio:convertFromBytes")
    rep.functions.add(ct.qual)
    rep.functions.add(cf.qual)
    st = State([("0", Lin.num(0))], [0])
    for width, code in ((1, "b"), (2, "h"), (4, "i"), (8, "q")):
        for nsamp in (0, 3):
            seen = {}

            def pack(I_, a, k):
                seen["pack"] = (a[0], list(a[1:]))
                return "<bytes>"

            def unpack(I_, a, k):
                seen["unpack"] = (a[0], a[1])
                return Tup([Lin.num(i) for i in range(nsamp)])
            # one sample far below and one far above any representable amplitude: the conversion must not touch them
            samples = [Lin.num(v) for v in (-10 ** 30, 7, 10 ** 30)][:nsamp]
            problems = []
            for which, fn, args in (("pack", ct, [Tup(list(samples)), Lin.num(width)]), ("unpack", cf, [Lst([Lin.num(0)] * (nsamp * width)), Lin.num(width)])):
                I = Interp(idx, st, overrides=default_overrides())
                I.builtin_overrides = {"struct.pack": pack, "struct.unpack": unpack}
                try:
                    I.call_function(fn, args, {})
                except PyRaise as e:
                    problems.append("%s raises %s" % (fn.short, e.name))
                    continue
                except Undecided as e:
                    rep.undecided(rule, fn.short, "width %d, %d samples" % (width, nsamp), str(e))
                    problems = None
                    break
                fmt = seen.get(which, (None,))[0]
                try:
                    ok = isinstance(fmt, str) and fmt[:1] == "<" and _struct.calcsize(fmt) == nsamp * width and _struct.calcsize("<" + code * nsamp) == _struct.calcsize(fmt) \
                        and all(ch == code or ch.isdigit() for ch in fmt[1:])
                except _struct.error:
                    ok = False
                if not ok:
                    problems.append("%s uses the format %r for %d sample(s) of %d byte(s), expected little-endian '%s' x %d" % (which, fmt, nsamp, width, code, nsamp))
                if which == "pack" and fmt is not None:
                    vals = seen["pack"][1]
                    if len(vals) != nsamp or any(not (isinstance(v, Lin) and v.same(s_)) for v, s_ in zip(vals, samples)):
                        problems.append("the values packed are %r, not the samples as given" % (vals,))
            if problems is None:
                continue
            rep.check(not problems, rule, "audio.convertToBytes/convertFromBytes", "width %d, %d sample(s)" % (width, nsamp), ok="little-endian, one '%s' per sample, values unchanged" % code, bad="; ".join(problems))
    rep.floor(rule, 8)
