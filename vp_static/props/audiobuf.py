"""W-buf / F-file -- the in-memory Wav edits and the file readers, interpreted over an abstract byte buffer.

The receiver's frames are one symbolic buffer `orig[0 : w*n]` (n samples of width w; w and the frame rate are small
concrete exemplars, n and every sample index are symbols).  Times are symbols too; `round(time * frameRate)` is the
one place where a time becomes a sample index, and the interpretation insists on exactly that expression: the
builtin `round` is overridden to return the index atom of a time when its argument is literally frameRate*time, and
to record anything else (a product that already contains the sample width, a sum of two times, ...) as a bad
conversion; `int`, `math.floor`, `math.ceil`, `math.trunc` of a symbolic value are bad conversions as well.
Slicing and concatenation are evaluated on the buffer, so what a method leaves in `self.frames` or returns is a
list of segments with linear byte offsets, compared with the specification's segments; every offset must be a
multiple of the sample width.
"""

from fractions import Fraction

from ..absint import BufVal, Interp, Lin, Lst, MockObj, PyFunc, PyRaise, State, Tup
from ..index import Undecided
from ..tables import Atoms, TableRun, default_overrides, run_states
from . import common

W, FR = 2, 8  # exemplar sample width (bytes) and frame rate; every check is linear in them


def norm_segs(I, segs):
    out = []
    for src, lo, hi in segs:
        if out and out[-1][0] == src and I.state.signs(out[-1][2] - lo) == frozenset([0]):
            out[-1] = (src, out[-1][1], hi)
        elif I.state.signs(hi - lo) != frozenset([0]):
            out.append((src, lo, hi))
    return out


def segs_equal(I, got, want):
    g, w = norm_segs(I, got), norm_segs(I, want)
    if len(g) != len(w):
        return False
    for (s1, l1, h1), (s2, l2, h2) in zip(g, w):
        if s1 != s2 or I.state.signs(l1 - l2) != frozenset([0]) or I.state.signs(h1 - h2) != frozenset([0]):
            return False
    return True


def show(segs):
    return " + ".join("%s[%r:%r]" % x for x in segs) or "(empty)"


def aligned(segs):
    for _, lo, hi in segs:
        for v in (lo, hi):
            if any(c % W for c in list(v.coef.values()) + [v.const]):
                return False
    return True


class BadConversion(Exception):
    pass


class Conv:
    """The override of round/int/floor...: time -> sample-index atoms; anything else aborts the interpretation."""

    def __init__(self, times, allow=()):
        self.times = times  # {time symbol name: index atom name}
        self.allow = list(allow)  # further arguments of round() that are legitimate here, as (Lin, atom name)
        self.bad = []

    def round_(self, I, a, k):
        x = a[0]
        if isinstance(x, Lin) and not x.is_const():
            for t, ix in self.times.items():
                if x.same(Lin.var(t).scale(FR)):
                    return Lin.var(ix)
            for lin, atom in self.allow:
                if x.same(lin):
                    return Lin.var(atom)
            self.bad.append("round(%r)" % (x,))
            raise BadConversion("round(%r)" % (x,))
        if isinstance(x, Lin):
            return Lin.num(round(x.const))
        raise Undecided("round(%r)" % (x,))

    def trunc(self, name):
        def f(I, a, k):
            x = a[0]
            if isinstance(x, Lin) and not x.is_const():
                self.bad.append("%s(%r)" % (name, x))
                raise BadConversion("%s(%r)" % (name, x))
            if isinstance(x, Lin):
                import math
                return Lin.num(getattr(math, {"int": "trunc"}.get(name, name))(x.const))
            if isinstance(x, str):
                try:
                    return Lin.num(int(x))
                except ValueError:
                    raise PyRaise("ValueError")
            raise Undecided("%s(%r)" % (name, x))
        return f

    def overrides(self):
        return {"round": self.round_, "int": self.trunc("int"), "math.floor": self.trunc("floor"), "math.ceil": self.trunc("ceil"), "math.trunc": self.trunc("trunc")}


def wav_table(rep, rule="W-buf"):
    """Wav.getFrames / deleteSegment / insert / replaceSegment / concatenate / getSubwav / duration."""
    idx = common.ctx()
    wav_cls = idx.cls("Wav")
    at = Atoms()
    at.const(0, "0")
    ia, ib, n = at.var("ia"), at.var("ib"), at.var("n")
    at.rel("0", "<=", "ia")
    at.rel("ia", "<=", "ib")
    at.rel("ib", "<=", "n")
    ta, tb, tc = Lin.var("ta"), Lin.var("tb"), Lin.var("tc")
    ic = Lin.var("ic")
    total = n.scale(W)
    NEW = ("new", Lin.num(0), Lin.var("k").scale(W))  # k new samples
    at.fact_le(Lin.num(0), Lin.var("k"))
    at.fact_le(n, ic)                      # tc: a time in the appended part, n <= ic <= n + k
    at.fact_le(ic, n + Lin.var("k"))
    ops = {
        "getFrames": (lambda I, w: I.call_value(I.getattr(w, "getFrames"), [ta, tb], {}), "result", [("orig", ia.scale(W), ib.scale(W))]),
        "deleteSegment": (lambda I, w: I.call_value(I.getattr(w, "deleteSegment"), [ta, tb], {}), "frames", [("orig", Lin.num(0), ia.scale(W)), ("orig", ib.scale(W), total)]),
        "insert": (lambda I, w: I.call_value(I.getattr(w, "insert"), [ta, BufVal([NEW])], {}), "frames", [("orig", Lin.num(0), ia.scale(W)), NEW, ("orig", ia.scale(W), total)]),
        "replaceSegment": (lambda I, w: I.call_value(I.getattr(w, "replaceSegment"), [ta, tb, BufVal([NEW])], {}), "frames", [("orig", Lin.num(0), ia.scale(W)), NEW, ("orig", ib.scale(W), total)]),
        "concatenate": (lambda I, w: I.call_value(I.getattr(w, "concatenate"), [BufVal([NEW])], {}), "frames", [("orig", Lin.num(0), total), NEW]),
        "getSubwav": (lambda I, w: I.call_value(I.getattr(w, "getSubwav"), [ta, tb], {}), "subwav", [("orig", ia.scale(W), ib.scale(W))]),
        # a time that lies beyond the original end but inside the grown recording must address the appended samples
        "concatenate;getFrames": (lambda I, w: (I.call_value(I.getattr(w, "concatenate"), [BufVal([NEW])], {}), I.call_value(I.getattr(w, "getFrames"), [ta, tc], {}))[1],
                                  "result-grown", [("orig", ia.scale(W), total), ("new", Lin.num(0), (ic - n).scale(W))]),
    }
    for q in ("Wav._getIndexAtTime", "Wav.getFrames", "Wav.deleteSegment", "Wav.insert", "Wav.replaceSegment", "Wav.concatenate", "Wav.getSubwav", "Wav.duration"):
        if idx.try_get(q):
            rep.functions.add(idx.get(q).qual)
    fn = idx.get("Wav.getFrames")
    tr = TableRun(rep, rule, "audio.Wav", fn.loc)

    def rows(st):
        out = []
        for name, (call, kind, want) in ops.items():
            conv = Conv({"ta": "ia", "tb": "ib", "tc": "ic"})
            I = Interp(idx, st, overrides=default_overrides())
            I.builtin_overrides = conv.overrides()
            try:
                w = I.instantiate(wav_cls, [BufVal([("orig", Lin.num(0), total)]), Lst([Lin.num(1), Lin.num(W), Lin.num(FR), n, "NONE", "not compressed"])], {})
                res = call(I, w)
                frames = I.getattr(w, "frames")
                if kind == "result-grown":
                    got, untouched = res, None
                elif kind == "result":
                    got, untouched = res, frames
                elif kind == "subwav":
                    got, untouched = I.getattr(res, "frames"), frames
                    if not (I.getattr(res, "frameRate").same(Lin.num(FR)) and I.getattr(res, "sampleWidth").same(Lin.num(W))):
                        out.append((name, False, "the sub-wav does not carry the source's sample width / frame rate", None))
                        continue
                else:
                    got, untouched = frames, None
                dur = I.getattr(w, "duration")  # after the operation: must describe the frames as they are now
            except PyRaise as e:
                out.append((name, False, "raises %s for times inside the recording" % e.name, None))
                continue
            except BadConversion:
                pass
            except Undecided as e:
                out.append((name, False, "", e if type(e).__name__ == "NeedSplit" else str(e)))
                continue
            if conv.bad:
                out.append((name, False, "a time is converted to a sample position by %s, not by round(time * frameRate): the position can be off by one sample (or fall inside a sample)" % ", ".join(sorted(set(conv.bad))), None))
                continue
            if not isinstance(got, BufVal):
                out.append((name, False, "result is %r, not a byte buffer" % (got,), None))
                continue
            if not aligned(got.segs):
                out.append((name, False, "a cut falls inside a sample: %s (offsets must be multiples of the sample width %d)" % (show(got.segs), W), None))
                continue
            if not segs_equal(I, got.segs, want):
                out.append((name, False, "leaves %s, expected %s (ia/ib = sample nearest to the start/end time, n samples, %d bytes each)" % (show(norm_segs(I, got.segs)), show(norm_segs(I, want)), W), None))
                continue
            if untouched is not None and not segs_equal(I, untouched.segs, [("orig", Lin.num(0), total)]):
                out.append((name, False, "a query changed the receiver's frames: %s" % show(untouched.segs), None))
                continue
            now = I.getattr(w, "frames")
            want_dur = now.length().scale(Fraction(1, W * FR)) if isinstance(now, BufVal) else None
            if want_dur is not None and not (isinstance(dur, Lin) and I.state.signs(dur - want_dur) == frozenset([0])):
                out.append((name, False, "after the operation duration is %r, but the frames now hold %r seconds" % (dur, want_dur), None))
                continue
            out.append((name, True, "", None))
        return out

    run_states(at, rows, tr)
    tr.done("7 operations x every weak order of 0 <= ia <= ib <= n (sample indices of the two times; n samples; k appended samples)")


def file_reads(rep, rule="F-file"):
    """readFramesAtTime / QueryWav.getFrames interpreted on a recording file handle: the file is positioned at the
    sample nearest to the start time, unconditionally, before the one read; conversions are round(frameRate*time)."""
    idx = common.ctx()
    fn = idx.get("audio:readFramesAtTime")
    rep.functions.add(fn.qual)
    st = State([("0", Lin.num(0))], [0])
    ta, tb = Lin.var("ta"), Lin.var("tb")
    for what, start in (("a stretch inside the recording", ta), ("a stretch from time 0 (on a handle that was read before)", Lin.num(0))):
        log = []
        conv = Conv({"ta": "ia", "tb": "ib"}, allow=[((tb - start).scale(FR), "count")])
        handle = MockObj({
            "getparams": PyFunc(lambda I_: Tup([Lin.num(1), Lin.num(W), Lin.num(FR), Lin.var("n"), "NONE", "not compressed"])),
            "setpos": PyFunc(lambda I_, p: log.append(("setpos", p))),
            "readframes": PyFunc(lambda I_, c: (log.append(("readframes", c)), BufVal([("file", Lin.num(0), Lin.num(0))]))[1]),
            "tell": PyFunc(lambda I_: Lin.var("pos")),
        }, "wave handle")
        I = Interp(idx, st, overrides=default_overrides())
        I.builtin_overrides = conv.overrides()
        try:
            I.call_function(fn, [handle, start, tb], {})
        except BadConversion as e:
            rep.refuted(rule, fn.short, what, "a time is converted to a sample position by %s, not by round(frameRate * time)" % e, loc=fn.loc)
            continue
        except PyRaise as e:
            rep.refuted(rule, fn.short, what, "raises %s" % e.name, loc=fn.loc)
            continue
        except Undecided as e:
            rep.undecided(rule, fn.short, what, str(e))
            continue
        problems = []
        kinds = [k for k, _ in log]
        if kinds != ["setpos", "readframes"]:
            problems.append("file operations are %s, expected one setpos followed by one readframes (a read that is not preceded by a seek continues wherever the previous query stopped)" % kinds)
        else:
            pos = log[0][1]
            want = Lin.var("ia") if start is ta else Lin.num(0)
            if not (isinstance(pos, Lin) and pos.same(want)):
                problems.append("the file is positioned at %r, expected the sample nearest to the start time" % (pos,))
            if conv.bad:
                problems.append("a time is converted by %s, not by round(frameRate * time)" % ", ".join(conv.bad))
        rep.check(not problems, rule, fn.short, what, ok="setpos(round(frameRate*start)) then one readframes", bad="; ".join(problems), loc=fn.loc)
    rep.floor(rule, 2)
    # QueryWav.getFrames / getSamples hand the requested times to readFramesAtTime unchanged: None means the start / the
    # end of the recording, a time of exactly 0 is a time (not "no time given")
    from ..absint import ObjVal
    qcls = idx.cls("QueryWav")
    gf = qcls.lookup("getFrames")
    rep.functions.add(gf.qual)
    dur = Lin.var("dur")
    cases = [("(ta, tb)", [ta, tb], (ta, tb)), ("(0, tb)", [Lin.num(0), tb], (Lin.num(0), tb)), ("(0, 0): an empty stretch at the very start", [Lin.num(0), Lin.num(0)], (Lin.num(0), Lin.num(0))),
             ("(0.0, 0.0)", [Lin.num(0).as_float(), Lin.num(0).as_float()], (Lin.num(0), Lin.num(0))), ("(ta, None)", [ta, None], (ta, dur)), ("(None, tb)", [None, tb], (Lin.num(0), tb)), ("()", [], (Lin.num(0), dur))]
    problems, unknown = [], []
    st_q = State([("0", Lin.num(0)), ("ta", ta), ("tb", tb), ("dur", dur)], [0, 1, 2, 3])  # 0 < ta < tb < dur
    for what, args_, want in cases:
        calls = []
        I = Interp(idx, st_q, overrides=default_overrides())

        def rec(I_, a, k, calls=calls):
            calls.append(list(a))
            return BufVal([("file", Lin.num(0), Lin.num(0))])
        I.overrides = dict(I.overrides)
        I.overrides[fn.qual] = rec
        q = ObjVal(qcls)
        q.attrs.update({"audiofile": "HANDLE", "duration": dur, "frameRate": Lin.num(FR), "sampleWidth": Lin.num(W), "nframes": Lin.var("n")})
        try:
            I.call_function(gf, [q] + args_, {})
        except PyRaise as e:
            problems.append("%s: raises %s" % (what, e.name))
            continue
        except Undecided as e:
            unknown.append("%s: %s" % (what, e))
            continue
        if len(calls) != 1 or len(calls[0]) != 3 or calls[0][0] != "HANDLE" or not all(isinstance(x, Lin) and x.same(w_) for x, w_ in zip(calls[0][1:], want)):
            problems.append("getFrames%s reads %s, expected the stretch (%r, %r) of its own file" % (what, [c[1:] for c in calls], want[0], want[1]))
    if unknown and not problems:
        rep.undecided(rule, gf.short, "times handed to readFramesAtTime for %d argument shapes" % len(cases), "; ".join(unknown), loc=gf.loc)
    else:
        rep.check(not problems, rule, gf.short, "times handed to readFramesAtTime for %d argument shapes" % len(cases), ok="passed through unchanged; None = start / end of the recording; 0 is a time",     bad="; ".join(problems), loc=gf.loc)
    rep.floor(rule, 3)


def pack_unpack(rep, rule="F3-pack"):
    """convertToBytes / convertFromBytes interpreted with struct.pack / struct.unpack as recorders: little-endian, one
    code of the sample's width per sample, the samples and the bytes passed through unchanged."""
    import struct as _struct

    idx = common.ctx()
    ct, cf = idx.get("audio:convertToBytes"), idx.get("audio:convertFromBytes")
    rep.functions.add(ct.qual)
    rep.functions.add(cf.qual)
    st = State([("0", Lin.num(0))], [0])
    for width, code in ((1, "b"), (2, "h"), (4, "i"), (8, "q")):
        for nsamp in (0, 3):
            seen = {}

            def pack(I_, a, k):
                seen["pack"] = (a[0], list(a[1:]))
                return "<bytes>"

            def unpack(I_, a, k):
                seen["unpack"] = (a[0], a[1])
                return Tup([Lin.num(i) for i in range(nsamp)])
            # one sample far below and one far above any representable amplitude: the conversion must not touch them
            samples = [Lin.num(v) for v in (-10 ** 30, 7, 10 ** 30)][:nsamp]
            problems = []
            for which, fn, args in (("pack", ct, [Tup(list(samples)), Lin.num(width)]), ("unpack", cf, [Lst([Lin.num(0)] * (nsamp * width)), Lin.num(width)])):
                I = Interp(idx, st, overrides=default_overrides())
                I.builtin_overrides = {"struct.pack": pack, "struct.unpack": unpack}
                try:
                    I.call_function(fn, args, {})
                except PyRaise as e:
                    problems.append("%s raises %s" % (fn.short, e.name))
                    continue
                except Undecided as e:
                    rep.undecided(rule, fn.short, "width %d, %d samples" % (width, nsamp), str(e))
                    problems = None
                    break
                fmt = seen.get(which, (None,))[0]
                try:
                    ok = isinstance(fmt, str) and fmt[:1] == "<" and _struct.calcsize(fmt) == nsamp * width and _struct.calcsize("<" + code * nsamp) == _struct.calcsize(fmt) \
                        and all(ch == code or ch.isdigit() for ch in fmt[1:])
                except _struct.error:
                    ok = False
                if not ok:
                    problems.append("%s uses the format %r for %d sample(s) of %d byte(s), expected little-endian '%s' x %d" % (which, fmt, nsamp, width, code, nsamp))
                if which == "pack" and fmt is not None:
                    vals = seen["pack"][1]
                    if len(vals) != nsamp or any(not (isinstance(v, Lin) and v.same(s_)) for v, s_ in zip(vals, samples)):
                        problems.append("the values packed are %r, not the samples as given" % (vals,))
            if problems is None:
                continue
            rep.check(not problems, rule, "audio.convertToBytes/convertFromBytes", "width %d, %d sample(s)" % (width, nsamp), ok="little-endian, one '%s' per sample, values unchanged" % code, bad="; ".join(problems))
    rep.floor(rule, 8)


class WaveWorld:
    """wave.open as a recorder: read handles seek/read an abstract file, write handles record parameters and frames."""

    def __init__(self, n=None):
        self.log = []
        self.n = n if n is not None else Lin.var("n")
        self.pos = None

    def open(self, I, a, k):
        path = a[0]
        mode = a[1] if len(a) > 1 else k.get("mode", "r")
        world = self
        if isinstance(mode, str) and "w" in mode:
            rec = {"path": path, "params": None, "frames": None}
            world.log.append(("open-w", rec))
            return MockObj({
                "setparams": PyFunc(lambda I_, p: rec.__setitem__("params", p)),
                "writeframes": PyFunc(lambda I_, f: rec.__setitem__("frames", f)),
                "close": PyFunc(lambda I_: None),
            }, "wave writer")
        world.log.append(("open-r", path))

        def setpos(I_, p):
            world.pos = p
            world.log.append(("setpos", p))

        def readframes(I_, c):
            start = world.pos if world.pos is not None else Lin.var("<wherever the previous read stopped>")
            world.log.append(("readframes", start, c))
            world.pos = None
            return BufVal([("file", start.scale(W), (start + c).scale(W))])
        return MockObj({
            "getparams": PyFunc(lambda I_: Tup([Lin.num(1), Lin.num(W), Lin.num(FR), world.n, "NONE", "not compressed"])),
            "setpos": PyFunc(setpos), "readframes": PyFunc(readframes), "close": PyFunc(lambda I_: None),
        }, "wave reader")


def written_ok(I, rec, first, count):
    """None if the write record holds file[first : first+count] with the source's parameters; else a description."""
    p = rec["params"]
    if p is None or rec["frames"] is None:
        return "the output file gets no parameters / no frames"
    items = I.iterate(p)
    if len(items) != 6 or not (items[0].same(Lin.num(1)) and items[1].same(Lin.num(W)) and items[2].same(Lin.num(FR)) and items[4] == "NONE" and items[5] == "not compressed"):
        return "the output file's parameters %r are not the source's (channels, sample width, frame rate, compression)" % (items,)
    f = rec["frames"]
    want = [("file", first.scale(W), (first + count).scale(W))]
    if not isinstance(f, BufVal) or not segs_equal(I, f.segs, want):
        return "the frames written are %s, expected %s" % (show(f.segs) if isinstance(f, BufVal) else f, show(want))
    return None


def wiring(rep, rule="K-wiring"):
    """extractSubwav and splitAudioOnTier interpreted with wave.open, openTextgrid, Textgrid.save and os.path.exists
    as recorders: one output file per entry, holding the source frames from round(rate*start) for round(rate*(end -
    start)) frames with the source's parameters; the cropped textgrid of entry i is crop(start_i, end_i, mode, True)
    (mode strict iff noPartialIntervals) and is saved next to it; entries labelled as silence are skipped."""
    from ..absint import label_var
    from ..tables import build_tier, read_tier
    from .tgops import build_tg

    idx = common.ctx()
    st0 = State([("0", Lin.num(0))], [0])
    ta, tb = Lin.var("ta"), Lin.var("tb")
    # ---- extractSubwav
    ex = idx.get("audio:extractSubwav")
    rep.functions.add(ex.qual)
    rep.functions.add(idx.get("AbstractWav.outputFrames").qual)
    world = WaveWorld()
    conv = Conv({"ta": "ia", "tb": "ib"}, allow=[((tb - ta).scale(FR), "cnt")])
    I = Interp(idx, st0, overrides=default_overrides())
    I.builtin_overrides = dict(conv.overrides(), **{"wave.open": world.open})
    try:
        I.call_function(ex, ["in.wav", "out.wav", ta, tb], {})
        writes = [r for k_, r in [(x[0], x[1]) for x in world.log if x[0] == "open-w"]]
        reads = [x for x in world.log if x[0] in ("setpos", "readframes")]
        problems = []
        if [x[0] for x in reads] != ["setpos", "readframes"]:
            problems.append("file operations %s, expected one seek and one read" % [x[0] for x in reads])
        elif len(writes) != 1 or writes[0]["path"] != "out.wav":
            problems.append("output files %s, expected exactly out.wav" % [w_["path"] for w_ in writes])
        else:
            d_ = written_ok(I, writes[0], Lin.var("ia"), Lin.var("cnt"))
            if d_:
                problems.append(d_)
        rep.check(not problems, rule, ex.short, "extractSubwav(in, out, ta, tb)", ok="out.wav holds the frames read from round(rate*ta) for round(rate*(tb-ta)) frames, with the source's parameters", bad="; ".join(problems), loc=ex.loc)
    except BadConversion as e:
        rep.refuted(rule, ex.short, "extractSubwav(in, out, ta, tb)", "a time is converted by %s, not by round(frameRate * time)" % e, loc=ex.loc)
    except PyRaise as e:
        rep.refuted(rule, ex.short, "extractSubwav(in, out, ta, tb)", "raises %s" % e.name, loc=ex.loc)
    except Undecided as e:
        rep.undecided(rule, ex.short, "extractSubwav(in, out, ta, tb)", str(e))

    # ---- splitAudioOnTier
    sp = idx.get("praatio_scripts:splitAudioOnTier")
    rep.functions.add(sp.qual)
    at = Atoms()
    at.const(0, "0")
    names = ["s1", "e1", "s2", "e2", "M"]
    for nme in names:
        at.var(nme)
    at.rel("0", "<=", "s1"); at.rel("s1", "<", "e1"); at.rel("e1", "<=", "s2"); at.rel("s2", "<", "e2"); at.rel("e2", "<=", "M")
    s1, e1, s2, e2, M = [Lin.var(x) for x in names]
    for ixname in ("i1", "i2", "j1", "j2", "c1", "c2"):
        at.fact_le(Lin.num(0), Lin.var(ixname))  # sample positions and counts are non-negative
    tr = TableRun(rep, rule, sp.short, sp.loc)

    def rows(st):
        out = []
        for no_partial in (False, True):
            for tgflag in (False, True, "other"):
                for silence in (None, "sil"):
                    mode = (no_partial, tgflag, silence)
                    world = WaveWorld()
                    saves, crops = [], []
                    conv = Conv({"s1": "i1", "s2": "i2", "e1": "j1", "e2": "j2"}, allow=[((e1 - s1).scale(FR), "c1"), ((e2 - s2).scale(FR), "c2")])
                    I = Interp(idx, st, overrides=default_overrides())
                    labels = [label_var("l1"), "sil" if silence else label_var("l2")]
                    ents = [(s1, e1, labels[0]), (s2, e2, labels[1])]

                    opened = []

                    def open_tg(I_, a, k):
                        opened.append(a[1] if len(a) > 1 else k.get("includeEmptyIntervals", False))
                        tg, objs = build_tg(I_, [("interval", "words", ents), ("point", "other", [(s1, label_var("p1"))])], Lin.num(0), M)
                        crop_fn = I_.getattr(tg, "crop")

                        def crop(I2, *ca, **ck):
                            crops.append(list(ca))
                            return I2.call_value(crop_fn, list(ca), ck)
                        tg.attrs["crop"] = PyFunc(crop)
                        return tg

                    def save(I_, a, k):
                        saves.append((a[0], a[1:], k))
                        return None
                    ov = dict(default_overrides())
                    ov["textgrid.openTextgrid"] = open_tg
                    ov["Textgrid.save"] = save
                    I.overrides = ov
                    I.builtin_overrides = dict(conv.overrides(), **{"wave.open": world.open, "os.path.exists": lambda I_, a, k: True, "os.mkdir": lambda I_, a, k: None, "os.makedirs": lambda I_, a, k: None})
                    I.prints = 0
                    try:
                        ret = I.call_function(sp, ["rec.wav", "rec.TextGrid", "words", "outdir", tgflag, None, no_partial, silence], {})
                    except BadConversion as e:
                        out.append((mode, False, "a time is converted by %s, not by round(frameRate * time)" % e, None))
                        continue
                    except PyRaise as e:
                        out.append((mode, False, "raises %s" % e.name, None))
                        continue
                    except Undecided as e:
                        out.append((mode, False, "", e if type(e).__name__ == "NeedSplit" else str(e)))
                        continue
                    kept = [0] if silence else [0, 1]
                    exp = [(ents[i], (Lin.var("i%d" % (i + 1)), Lin.var("c%d" % (i + 1)))) for i in kept]
                    writes = [x[1] for x in world.log if x[0] == "open-w"]
                    problem = None
                    if any(x is not False for x in opened):
                        problem = "the TextGrid is opened with includeEmptyIntervals=%r: the blank stretches of the file become entries and get audio files of their own" % (opened[0],)
                    elif len(writes) != len(exp):
                        problem = "%d audio files written for %d non-silent entries" % (len(writes), len(exp))
                    else:
                        paths = [w_["path"] for w_ in writes]
                        if len(set(map(str, paths))) != len(paths):
                            problem = "two entries are written to the same file %s" % paths
                        for w_, (ent, (first, cnt)) in zip(writes, exp):
                            d_ = written_ok(I, w_, first, cnt)
                            if d_ and not problem:
                                problem = "entry %r: %s" % (ent[2], d_)
                    if not problem:
                        n_tg = len(exp) if tgflag is not False else 0
                        if len(saves) != n_tg or len(crops) != n_tg:
                            problem = "%d cropped textgrids saved (%d crops) for %d entries with outputTGFlag=%r" % (len(saves), len(crops), len(exp), tgflag)
                        else:
                            want_mode = "strict" if no_partial else "truncated"
                            for c, (ent, _) in zip(crops, exp):
                                ok = len(c) == 4 and isinstance(c[0], Lin) and c[0].same(ent[0]) and c[1].same(ent[1]) and c[2] == want_mode and c[3] is True
                                if not ok and not problem:
                                    problem = "entry %r is cropped with %r, expected (start, end, %r, True): the paired textgrid must span [0, end-start]" % (ent[2], c, want_mode)
                            for (tgobj, rest, kw) in saves:
                                tnames = [str(x) for x in I.iterate(I.getattr(tgobj, "tierNames"))]
                                if tgflag == "other" and tnames != ["other"] and not problem:
                                    problem = "with outputTGFlag='other' the saved textgrid holds the tiers %s" % tnames
                                if tgflag is True and tnames != ["words", "other"] and not problem:
                                    problem = "the saved textgrid holds the tiers %s" % tnames
                    out.append((mode, problem is None, problem or "", None))
        return out

    run_states(at, rows, tr)
    tr.done("2 generic entries x noPartialIntervals x outputTGFlag in {False, True, tier name} x silence label")


def generators(rep, rule="K-wiring"):
    """generateSilence / generateSineWave produce round(rate x duration) samples (struct.pack as a recorder)."""
    idx = common.ctx()
    gen_cls = idx.cls("AudioGenerator")
    st = State([("0", Lin.num(0))], [0])
    d = Lin.var("d")
    # silence: symbolic duration
    sil = idx.get("AudioGenerator.generateSilence")
    rep.functions.add(sil.qual)
    conv = Conv({"d": "nd"})
    I = Interp(idx, st, overrides=default_overrides())
    I.builtin_overrides = dict(conv.overrides(), **{"struct.pack": lambda I_, a, k: BufVal([("zero", Lin.num(0), Lin.num(W))])})
    try:
        g = I.instantiate(gen_cls, [Lin.num(W), Lin.num(FR)], {})
        r = I.call_value(I.getattr(g, "generateSilence"), [d], {})
        ok = isinstance(r, BufVal) and r.length().same(Lin.var("nd").scale(W))
        rep.check(ok, rule, sil.short, "generateSilence(d)", ok="round(rate x duration) zero samples", bad="silence of duration d is %r, expected round(rate*d) samples of %d bytes" % (r, W), loc=sil.loc)
    except BadConversion as e:
        rep.refuted(rule, sil.short, "generateSilence(d)", "the number of samples is %s, not round(frameRate * duration)" % e, loc=sil.loc)
    except PyRaise as e:
        rep.refuted(rule, sil.short, "generateSilence(d)", "raises %s" % e.name, loc=sil.loc)
    except Undecided as e:
        rep.undecided(rule, sil.short, "generateSilence(d)", str(e))
    # sine: concrete exemplar durations chosen so that round, int, floor and ceil all differ somewhere
    sine = idx.get("AudioGenerator.generateSineWave")
    rep.functions.add(sine.qual)
    bad = []
    for dur, want in ((Fraction(45, 100), 4), (Fraction(3, 10), 2), (Fraction(1, 2), 4), (Fraction(0), 0)):
        seen = {}

        def pack(I_, a, k):
            seen["n"] = len(a) - 1
            return "<bytes>"
        I = Interp(idx, st, overrides=default_overrides())
        I.builtin_overrides = {"struct.pack": pack}
        try:
            g = I.instantiate(gen_cls, [Lin.num(W), Lin.num(FR)], {})
            I.call_value(I.getattr(g, "generateSineWave"), [Lin.num(dur).as_float(), Lin.num(2)], {})
            if seen.get("n") != want:
                bad.append("duration %s at rate %d gives %r samples, expected %d" % (float(dur), FR, seen.get("n"), want))
        except PyRaise as e:
            bad.append("duration %s raises %s" % (float(dur), e.name))
        except Undecided as e:
            rep.undecided(rule, sine.short, "generateSineWave", str(e))
            return
    rep.check(not bad, rule, sine.short, "generateSineWave(0.45 | 0.3 | 0.5 | 0 s at rate 8)", ok="round(rate x duration) samples", bad="; ".join(bad), loc=sine.loc)
