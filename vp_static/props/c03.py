"""C03 -- the reader returns exactly what a spec-conformant TextGrid file encodes (structural necessary conditions)."""

import ast

from .. import textfmt as tf
from ..index import norm
from . import common
from . import textrules as R


def rule_parser_siblings(rep, rule="H-siblings"):
    """The long and the short parser agree on what they produce (R-H)."""
    idx = common.ctx()
    a, b = idx.get(R.LONG_R), idx.get(R.SHORT_R)

    def facts(fn):
        f = {}
        dicts = [n for n in ast.walk(fn.node) if isinstance(n, ast.Dict) and any(isinstance(k, ast.Constant) and k.value == "entries" for k in n.keys)]
        f["tier keys"] = sorted(k.value for k in dicts[0].keys) if dicts else None
        f["tier span conversion"] = sorted({norm(v) .split("(")[0] for d in dicts for k, v in zip(d.keys, d.values) if k.value in ("xmin", "xmax")})
        tops = [n for n in ast.walk(fn.node) if isinstance(n, ast.Dict) and any(isinstance(k, ast.Constant) and k.value == "tiers" for k in n.keys)]
        f["textgrid keys"] = sorted(k.value for k in tops[0].keys) if tops else None
        f["entry constructors"] = sorted({norm(n.func) for n in ast.walk(fn.node) if isinstance(n, ast.Call) and norm(n.func) in ("Interval", "Point")})
        f["span parser"] = sorted({norm(n.func) for n in ast.walk(fn.node) if isinstance(n, ast.Call) and norm(n.func).endswith("strToIntOrFloat")})
        # are entry labels stripped of surrounding blanks?  (operation sequence of each label payload)
        stripped = []
        for s_ in tf.stmts_in_order(fn):
            for n in ast.walk(s_) if isinstance(s_, (ast.Expr, ast.Assign)) else []:
                if isinstance(n, ast.Call) and norm(n.func) in ("Interval", "Point") and n.args:
                    info = tf.payload_ops(idx, fn, s_, n.args[-1])
                    stripped.append((norm(n.func), "strip" in info["ops"] if info else None))
        f["entry labels stripped"] = sorted(stripped)
        f["textgrid span conversion"] = sorted({norm(n.value.func) for n in ast.walk(fn.node) if isinstance(n, ast.Assign) and norm(n.targets[0]) in ("tgMin", "tgMax") and isinstance(n.value, ast.Call)})
        return f
    fa, fb = facts(a), facts(b)
    for k in fa:
        rep.check(fa[k] == fb[k] and fa[k] not in (None, []), rule, "long/short parser", k, ok="both parsers: %s" % (fa[k],),
                  bad="the two parsers disagree: long %s, short %s -- long and short encodings of the same data would open to different Textgrids" % (fa[k], fb[k]))
    rep.floor(rule, 6)


def run(rep, tier):
    rep.rule("C-num-regex / C-num-conv", "numeric regexes and the span converter accept the writer's (and the specification's) plain and exponent notation")
    rep.rule("C-scan", "delimiter scans over raw text cannot match inside an escaped payload")
    rep.rule("C-flow", "CRLF normalisation precedes scanning; JSON tried first; blank removal iff includeEmptyIntervals is False and exactly the empty labels; UTF-16 then UTF-8")
    rep.rule("C-dupnames", "the duplicate-name loop of openTextgrid, interpreted on name lists: 'error' raises DuplicateTierName, 'rename' yields unique names in file order")
    rep.rule("C-keys", "both JSON schemas decode through the same dictionary protocol")
    rep.not_decided.append("acceptance of every specification-conformant layout (ELAN spacing, header line positions): completeness of the regexes w.r.t. the grammar")
    rep.not_decided.append("codec behaviour; UTF-8 with BOM JSON")
    rep.rule("RT-doc", "parseTextgridStr (with both text parsers, the row fetchers and strToIntOrFloat inlined) interpreted on the text the two emitters write for generic textgrids -- numerals and labels are opaque atoms; labels carry adversarial skeletons (doubled quote + line break, quote-only label, quote before blanks and a line break, trailing quote) -- returns the dictionary that was written")
    R.rule_round_trip(rep, tier)
    rep.rule("H-siblings", "the long and the short encoding of the same data, with labels as a foreign specification-conformant writer may produce them (surrounding blanks, blank-only, empty, a lone line break), open to equal dictionaries, with and without blank removal")
    R.rule_sibling_readers(rep)
    R.rule_numeric_regex(rep, tier)
    R.rule_numeric_conversion(rep, tier)
    R.rule_scans(rep)
    R.rule_reader_flow(rep)
    R.rule_duplicate_names(rep)
    R.rule_json_protocol(rep)
