"""C03 -- the reader returns exactly what a spec-conformant TextGrid file encodes (structural necessary conditions)."""

import ast

from .. import textfmt as tf
from ..index import norm
from . import common
from . import textrules as R


def run(rep, tier):
    rep.rule("C-num-regex / C-num-conv", "numeric regexes and the span converter accept the writer's (and the specification's) plain and exponent notation")
    rep.rule("C-scan", "delimiter scans over raw text cannot match inside an escaped payload")
    rep.rule("C-flow", "CRLF normalisation precedes scanning; JSON tried first; blank removal iff includeEmptyIntervals is False and exactly the empty labels; UTF-16 then UTF-8")
    rep.rule("C-dupnames", "the duplicate-name loop of openTextgrid, interpreted on name lists: 'error' raises DuplicateTierName, 'rename' yields unique names in file order")
    rep.rule("C-keys", "both JSON schemas decode through the same dictionary protocol")
    rep.not_decided.append("acceptance of every specification-conformant layout (ELAN spacing, header line positions): completeness of the regexes w.r.t. the grammar")
    rep.not_decided.append("codec behaviour; UTF-8 with BOM JSON")
    rep.rule("RT-doc", "parseTextgridStr (with both text parsers, the row fetchers and strToIntOrFloat inlined) interpreted on the text the two emitters write for generic textgrids -- numerals and labels are opaque atoms; labels carry adversarial skeletons (doubled quote + line break, quote-only label, quote before blanks and a line break, trailing quote) -- returns the dictionary that was written")
    R.rule_round_trip(rep, tier)
    rep.rule("H-siblings", "the long and the short encoding of the same data, with labels as a foreign specification-conformant writer may produce them (surrounding blanks, blank-only, empty, a lone line break), open to equal dictionaries, with and without blank removal")
    R.rule_sibling_readers(rep)
    R.rule_numeric_regex(rep, tier)
    R.rule_numeric_conversion(rep, tier)
    R.rule_scans(rep)
    R.rule_reader_flow(rep)
    R.rule_duplicate_names(rep)
    R.rule_json_protocol(rep)
