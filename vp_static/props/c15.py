"""C15 -- queries and derived views agree with their definitions."""

import re as _re

from .. import specs
from ..absint import Lin, Lst, ObjVal, PyRaise, Str, Tup, label_var
from ..tables import (Atoms, DontCare, Outcome, TableRun, build_tier, compare_outcomes, declare_tier, entry_equal, num_equal,
                      read_tier, run_code, run_spec, run_states, show)
from . import common
from .tgops import build_tg


def simple_table(rep, rule, fnspec, at, modes, code, spec, what, eq):
    """code(I, mode) -> value ; spec(O, mode) -> value ; eq(I, got, want) -> None | difference."""
    idx = common.ctx()
    fn = idx.get(fnspec)
    rep.functions.add(fn.qual)
    tr = TableRun(rep, rule, fn.short, fn.loc)

    def rows(st):
        out = []
        for mode in modes:
            got, I = run_code(idx, st, lambda I: code(I, mode))
            want = run_spec(idx, st, lambda O: spec(O, mode))
            out.append(compare_outcomes(I, mode, got, want, eq=eq))
        return out

    run_states(at, rows, tr)
    tr.done(what)


def eq_entry_lists(I, got, want):
    g = [x.items if isinstance(x, Tup) else list(x) for x in (got.items if isinstance(got, Lst) else got)]
    w = [list(x) for x in want]
    if len(g) != len(w):
        return "count %d != %d (code %s, spec %s)" % (len(g), len(w), show(got), show(want))
    for i, (x, y) in enumerate(zip(g, w)):
        if not entry_equal(I, x, y):
            return "item %d: code %s, spec %s" % (i, show(Tup(x)), show(Tup(y)))
    return None


def eq_num_lists(I, got, want):
    g = got.items if isinstance(got, (Lst, Tup)) else got
    if len(g) != len(want):
        return "count %d != %d (code %s, spec %s)" % (len(g), len(want), show(got), show(want))
    for i, (x, y) in enumerate(zip(g, want)):
        if not num_equal(I, x, y):
            return "item %d: code %r, spec %r" % (i, x, y)
    return None


def eq_plain(I, got, want):
    if isinstance(got, Lst):
        got = [int(x.const) if isinstance(x, Lin) and x.is_const() else x for x in got.items]
    return None if got == want else "code %r, spec %r" % (got, want)


def run(rep, tier):
    idx = common.ctx()
    rep.rule("Q-find", "TextgridTier.find interpreted on a tier with labels from a small alphabet for every query / substring / regex mode against python's ==, in and re.findall(..., re.I)")
    rep.rule("Q-nonentries", "IntervalTier.getNonEntries against: exactly the unlabelled stretches of positive length, entries plus non-entries tile [0, maxTimestamp]")
    rep.rule("Q-timestamps", "timestamps is the sorted set of all boundary times")
    rep.rule("Q-values", "utils.getValuesInInterval / getValuesInIntervals keep exactly the samples with start <= t <= end in input order; getValuesAtPoints returns the sample at each point (exact mode) or a sample at minimal distance from it (fuzzy mode, 3 samples in any order with ties)")
    rep.rule("Q-overlap", "utils.intervalOverlapCheck agrees with interval arithmetic (positive overlap; touching counts only when boundaryInclusive)")
    rep.rule("Q-equality", "tier and textgrid equality: reflexive, symmetric, False after any single change of name, type, label, entry count, timestamp or span")
    rep.rule("Q-validate", "validate() returns False exactly when a span mismatch or an out-of-span / out-of-order entry exists")
    rep.rule("Q-invert", "utils.invertIntervalList on 0-2 (thorough 3) disjoint generic intervals in every input order, with both / no / one bound: exactly the positive-length gaps between consecutive intervals plus the stretches up to a bound lying strictly outside")
    rep.not_decided.append("invertIntervalList on overlapping input intervals or intervals reaching beyond the bounds (the helper is only defined on disjoint lists within bounds); an empty list with one bound")
    rep.not_decided.append("that tolerant equality distinguishes every change 'beyond rounding noise' (a numeric threshold question; the tolerance is abstracted to exact equality)")

    # ---- find
    labels = ["a", "ab", "A", "b c", "b"]
    at = Atoms()
    ents, m, M = declare_tier(at, len(labels), "point", span=True, as_atoms=False, span_atoms=False)
    at.var("M")
    ents = [(e[0], lab) for e, lab in zip(ents, labels)]
    queries = ["a", "b", "ab", "A", "a|b", "^a$", "c", "B C", ""]
    modes = [(q, sub, rx) for q in queries for sub in (False, True) for rx in (False, True)]

    def find_spec(O, mode):
        q, sub, rx = mode
        if rx:
            return [i for i, lab in enumerate(labels) if _re.findall(q, lab, _re.I) != []]
        if sub:
            return [i for i, lab in enumerate(labels) if q in lab]
        return [i for i, lab in enumerate(labels) if lab == q]
    simple_table(rep, "Q-find", "TextgridTier.find", at, modes,
                 lambda I, mode: I.call_value(I.getattr(build_tier(I, "point", "T", ents, m, M), "find"), [mode[0], mode[1], mode[2]], {}),
                 find_spec, "labels %s x %d queries x substring x regex" % (labels, len(queries)), eq_plain)

    # ---- getNonEntries
    for k in ([1, 2] if tier == "quick" else [1, 2, 3]):
        at = Atoms()
        ents, m, M = declare_tier(at, k, "interval", span=True)
        at.const(0, "0")
        at.rel("0", "<=", "m")

        def ne_spec(O, mode, ents=ents, M=M):
            out = []
            if O.gt(ents[0][0], Lin.num(0)):
                out.append((Lin.num(0), ents[0][0], ""))
            for x, y in zip(ents, ents[1:]):
                if O.lt(x[1], y[0]):
                    out.append((x[1], y[0], ""))
            if O.lt(ents[-1][1], M):
                out.append((ents[-1][1], M, ""))
            return out
        simple_table(rep, "Q-nonentries", "IntervalTier.getNonEntries", at, ["nonentries"],
                     lambda I, mode, ents=ents, m=m, M=M: I.call_value(I.getattr(build_tier(I, "interval", "T", ents, m, M), "getNonEntries"), [], {}),
                     ne_spec, "%d generic entries, span starting at or after 0" % k, eq_entry_lists)

    # ---- timestamps
    for kind, k in (("interval", 2), ("point", 2)) + ((("interval", 3),) if tier == "thorough" else ()):
        at = Atoms()
        ents, m, M = declare_tier(at, k, kind, span=True, span_atoms=False)

        def ts_spec(O, mode, ents=ents, kind=kind):
            vals = [x for e in ents for x in (e[:2] if kind == "interval" else e[:1])]
            uniq = []
            for x in vals:
                if not any(O.eq(x, y) for y in uniq):
                    uniq.append(x)
            out = []
            for x in uniq:
                pos = len(out)
                for i, y in enumerate(out):
                    if O.lt(x, y):
                        pos = i
                        break
                out.insert(pos, x)
            return out
        simple_table(rep, "Q-timestamps", ("IntervalTier" if kind == "interval" else "PointTier") + ".timestamps", at, ["timestamps"],
                     lambda I, mode, ents=ents, m=m, M=M, kind=kind: I.getattr(build_tier(I, kind, "T", ents, m, M), "timestamps"),
                     ts_spec, "%d generic %s entries" % (k, kind), eq_num_lists)

    # ---- getValuesInInterval(s) : samples in arbitrary order, ties, on boundaries
    at = Atoms()
    s, e = at.var("s"), at.var("e")
    d = [at.var("d%d" % i) for i in (1, 2, 3)]
    data = [(x, label_var("v%d" % i)) for i, x in enumerate(d, 1)]

    def vi_spec(O, mode):
        return [row for row in data if O.le(s, row[0]) and O.le(row[0], e)]
    fn_vi = idx.get("utilities.utils:getValuesInInterval")
    simple_table(rep, "Q-values", "utilities.utils:getValuesInInterval", at, ["values"],
                 lambda I, mode: I.call_function(fn_vi, [Lst([Tup(list(r)) for r in data]), s, e], {}),
                 vi_spec, "3 samples in any order x interval (s,e) in any relation", eq_entry_lists)

    at = Atoms()
    ents, m, M = declare_tier(at, 2, "interval", span=True, span_atoms=False)
    d = [at.var("d%d" % i) for i in (1, 2)]
    data2 = [(x, label_var("v%d" % i)) for i, x in enumerate(d, 1)]

    def vis_eq(I, got, want):
        g = got.items
        if len(g) != len(want):
            return "one result per interval expected: %d != %d" % (len(g), len(want))
        for (gi, wi) in zip(g, want):
            if not entry_equal(I, gi.items[0].items, wi[0]):
                return "interval differs"
            d_ = eq_entry_lists(I, gi.items[1], wi[1])
            if d_:
                return d_
        return None
    simple_table(rep, "Q-values", "IntervalTier.getValuesInIntervals", at, ["values"],
                 lambda I, mode: I.call_value(I.getattr(build_tier(I, "interval", "T", ents, m, M), "getValuesInIntervals"), [Lst([Tup(list(r)) for r in data2])], {}),
                 lambda O, mode: [(en, [row for row in data2 if O.le(en[0], row[0]) and O.le(row[0], en[1])]) for en in ents],
                 "2 generic intervals x 2 samples in any order", vis_eq)

    # getValuesAtPoints, exact mode, samples sorted by time (distinct times)
    at = Atoms()
    pts, m, M = declare_tier(at, 2, "point", span=True, span_atoms=False)
    d = [at.var("d%d" % i) for i in (1, 2)]
    at.rel("d1", "<", "d2")
    data3 = [(x, label_var("v%d" % i)) for i, x in enumerate(d, 1)]

    def vap_eq(I, got, want):
        g = got.items
        if len(g) != len(want):
            return "one result per point expected: %d != %d" % (len(g), len(want))
        for gi, wi in zip(g, want):
            gl = gi.items if isinstance(gi, Tup) else list(gi)
            if len(gl) != len(wi) or (wi and not entry_equal(I, gl, wi)):
                return "code %s, spec %s" % (show(got), show(want))
        return None
    simple_table(rep, "Q-values", "PointTier.getValuesAtPoints", at, ["exact", "default (= exact)"],
                 lambda I, mode: I.call_value(I.getattr(build_tier(I, "point", "T", pts, m, M), "getValuesAtPoints"), [Lst([Tup(list(r)) for r in data3])] + ([False] if mode == "exact" else []), {}),
                 lambda O, mode: [next((row for row in data3 if O.eq(row[0], p[0])), ()) for p in pts],
                 "2 generic points x 2 time-sorted samples", vap_eq)

    # getValuesAtPoints, fuzzy mode: samples in any order, ties among sample times allowed (values are distinct numbers,
    # so python's sort of equal-time rows is decided); every returned row is a sample at minimal distance from its point
    for npts in ([2] if tier == "quick" else [2, 3]):
        at = Atoms()
        fpts, m_, M_ = declare_tier(at, npts, "point", span=True, span_atoms=False)
        fd = [at.var("d%d" % i) for i in (1, 2, 3)]
        data4 = [(x, Lin.num(10 * i), "v%d" % i) for i, x in enumerate(fd, 1)]

        def fz_spec(O, mode, fpts=fpts, data4=data4):
            out = []
            for p_ in fpts:
                ds = [(r[0] - p_[0]) if O.ge(r[0], p_[0]) else (p_[0] - r[0]) for r in data4]
                out.append([r for r, dr in zip(data4, ds) if all(O.le(dr, dx) for dx in ds)])
            return out

        def fz_eq(I, got, want):
            g = got.items
            if len(g) != len(want):
                return "one result per point expected: %d != %d" % (len(g), len(want))
            for k_, (gi, acc) in enumerate(zip(g, want)):
                gl = gi.items if isinstance(gi, Tup) else list(gi)
                if not any(entry_equal(I, gl, r) for r in acc):
                    return "point %d: code returns %s, the nearest sample(s) are %s" % (k_ + 1, show(gi), show([tuple(r) for r in acc]))
            return None
        simple_table(rep, "Q-values", "PointTier.getValuesAtPoints", at, ["fuzzy"],
                     lambda I, mode, fpts=fpts, m_=m_, M_=M_, data4=data4: I.call_value(I.getattr(build_tier(I, "point", "T", fpts, m_, M_), "getValuesAtPoints"), [Lst([Tup(list(r)) for r in data4]), True], {}),
                     fz_spec, "%d generic points x 3 samples in any order (ties allowed), fuzzy matching" % npts, fz_eq)

    # ---- invertIntervalList: complement of a list of disjoint intervals within optional bounds
    import itertools as _it
    fn_inv = idx.get("utilities.utils:invertIntervalList")
    for k in ([0, 1, 2] if tier == "quick" else [0, 1, 2, 3]):
        at = Atoms()
        ients, lo, hi = declare_tier(at, k, "interval", span=True)
        pairs = [(e[0], e[1]) for e in ients]
        perms = list(_it.permutations(range(k)))
        bounds = [("both", lo, hi), ("none", None, None)] + ([("min", lo, None), ("max", None, hi)] if k else [])
        if k == 0:
            at.rel("m", "<", "M")
        imodes = [(perm, b[0]) for perm in perms for b in bounds]

        def inv_code(I, mode, pairs=pairs, bounds=bounds):
            perm, bname = mode
            b = [x for x in bounds if x[0] == bname][0]
            return I.call_function(fn_inv, [Lst([Tup([pairs[i][0], pairs[i][1]]) for i in perm]), b[1], b[2]], {})

        def inv_spec(O, mode, pairs=pairs, bounds=bounds):
            """the gaps of positive length between consecutive intervals, plus [min, first start) and (last end, max]
            when the bound is given and lies strictly outside"""
            perm, bname = mode
            b = [x for x in bounds if x[0] == bname][0]
            if not pairs:
                return [(b[1], b[2])] if b[1] is not None else []
            out = []
            if b[1] is not None and O.lt(b[1], pairs[0][0]):
                out.append((b[1], pairs[0][0]))
            for x, y in zip(pairs, pairs[1:]):
                if O.lt(x[1], y[0]):
                    out.append((x[1], y[0]))
            if b[2] is not None and O.lt(pairs[-1][1], b[2]):
                out.append((pairs[-1][1], b[2]))
            return out

        def inv_eq(I, got, want):
            g = [x.items if isinstance(x, Tup) else list(x) for x in got.items]
            if len(g) != len(want):
                return "code %s, spec %s" % (show(got), show(want))
            for x, y in zip(g, want):
                if len(x) != 2 or not num_equal(I, x[0], y[0]) or not num_equal(I, x[1], y[1]):
                    return "code %s, spec %s" % (show(got), show(want))
            return None
        simple_table(rep, "Q-invert", "utilities.utils:invertIntervalList", at, imodes, inv_code, inv_spec,
                     "%d disjoint generic intervals (touching allowed) in every input order x bounds (both, none%s)" % (k, ", min only, max only" if k else ""), inv_eq)

    # ---- intervalOverlapCheck
    at = Atoms()
    a1, a2, b1, b2 = at.var("s"), at.var("e"), at.var("s'"), at.var("e'")
    at.rel("s", "<", "e")
    at.rel("s'", "<", "e'")
    fn_ov = idx.get("utilities.utils:intervalOverlapCheck")
    simple_table(rep, "Q-overlap", "utilities.utils:intervalOverlapCheck", at, [False, True],
                 lambda I, mode: I.call_function(fn_ov, [Tup([a1, a2, "x"], "Interval"), Tup([b1, b2, "y"], "Interval")], {"boundaryInclusive": mode}),
                 lambda O, mode: (O.lt(a1, b2) and O.lt(b1, a2)) or (mode and (O.eq(a1, b2) or O.eq(a2, b1))),
                 "two intervals in any relation x boundaryInclusive", lambda I, g, w: None if bool(g) == bool(w) else "code %r, spec %r" % (g, w))
    # thresholds: the overlap must be at least a given time / a given share of the joint extent
    tau = at.var("tau")
    at.const(0, "0")
    at.rel("0", "<", "tau")

    def ov_len(O):
        lo_ = a1 if O.ge(a1, b1) else b1
        hi_ = a2 if O.le(a2, b2) else b2
        return hi_ - lo_  # may be negative: no overlap

    def ov_thr_spec(O, mode):
        ov = ov_len(O)
        if not O.gt(ov, Lin.num(0)):
            return False
        if mode == "time":
            return O.ge(ov, tau)
        total = (a2 if O.ge(a2, b2) else b2) - (a1 if O.le(a1, b1) else b1)
        return O.ge(ov, total.scale(mode[1]))
    from fractions import Fraction as _F
    simple_table(rep, "Q-overlap", "utilities.utils:intervalOverlapCheck", at, ["time", ("percent", _F(1, 2)), ("percent", _F(1, 5))],
                 lambda I, mode: I.call_function(fn_ov, [Tup([a1, a2, "x"], "Interval"), Tup([b1, b2, "y"], "Interval")], {"timeThreshold": tau} if mode == "time" else {"percentThreshold": Lin.num(mode[1]).as_float()}),
                 ov_thr_spec, "two intervals in any relation x timeThreshold tau > 0 / percentThreshold 0.5, 0.2", lambda I, g, w: None if bool(g) == bool(w) else "code %r, spec %r" % (g, w))

    equality_tables(rep, tier)
    validate_tables(rep, tier)


def equality_tables(rep, tier):
    idx = common.ctx()
    at = Atoms()
    ents, m, M = declare_tier(at, 2, "interval", span=True, span_atoms=False)
    pts, _, _ = declare_tier(at, 2, "point", prefix="p", span=False, as_atoms=False)
    x = at.var("x")  # a timestamp different from the one it replaces
    at.var("s1")
    at.rel("x", "!=", "s1")
    at.rel("x", "<", "e1")  # the perturbed tier is still well-formed
    at.fact_le(m, x)
    M2 = Lin.var("M2")
    at.fact_lt(M, M2)
    at.fact_le(m, Lin.var("pt1"))
    at.fact_le(Lin.var("pt2"), M)
    m0 = Lin.var("m0")
    at.fact_lt(m0, m)
    changes = ["same", "name", "label", "count", "timestamp", "span", "type-empty", "type", "tg-max", "tg-min", "tg-extra-tier"]

    def code(I, mode):
        def mk(kind, name, e, lo, hi):
            return build_tier(I, kind, name, e, lo, hi)
        A = mk("interval", "T", ents, m, M)
        if mode == "same" or mode.startswith("tg-"):
            B = mk("interval", "T", ents, m, M)
        elif mode == "name":
            B = mk("interval", "U", ents, m, M)
        elif mode == "label":
            B = mk("interval", "T", [ents[0], (ents[1][0], ents[1][1], label_var("other"))], m, M)
        elif mode == "count":
            B = mk("interval", "T", ents[:1], m, M)
        elif mode == "timestamp":
            B = mk("interval", "T", [(x, ents[0][1], ents[0][2]), ents[1]], m, M)
        elif mode == "span":
            B = mk("interval", "T", ents, m, M2)
        elif mode == "type-empty":
            A = mk("interval", "T", [], m, M)
            B = mk("point", "T", [], m, M)
        else:
            B = mk("point", "T", pts, m, M)
        eq = idx.get("TextgridTier.__eq__")
        ab = I.truth(I.call_function(eq, [A, B], {}))
        ba = I.truth(I.call_function(eq, [B, A], {}))
        aa = I.truth(I.call_function(eq, [A, A], {}))
        # the same through a textgrid holding the tier
        tgA = I.instantiate(idx.cls("Textgrid"), [m, M], {})
        tgB = I.instantiate(idx.cls("Textgrid"), [m0 if mode == "tg-min" else m, M2 if mode == "tg-max" else M], {})
        I.call_value(I.getattr(tgA, "addTier"), [A, None, "silence"], {})
        I.call_value(I.getattr(tgB, "addTier"), [B, None, "silence"], {})
        # an identical second tier after the perturbed one: a difference must not be forgotten by the tiers that follow
        I.call_value(I.getattr(tgA, "addTier"), [mk("point", "P", pts, m, M), None, "silence"], {})
        I.call_value(I.getattr(tgB, "addTier"), [mk("point", "P", pts, m, M), None, "silence"], {})
        if mode == "tg-extra-tier":
            I.call_value(I.getattr(tgB, "addTier"), [mk("point", "Q", pts, m, M), None, "silence"], {})
        teq = idx.get("Textgrid.__eq__")
        tab = I.truth(I.call_function(teq, [tgA, tgB], {}))
        tba = I.truth(I.call_function(teq, [tgB, tgA], {}))
        return {"ab": ab, "ba": ba, "aa": aa, "tab": tab, "tba": tba}

    def eq(I, got, want):
        exp, exp_tg = want
        if not got["aa"]:
            return "a tier is not equal to itself"
        if got["ab"] != got["ba"] or got["tab"] != got["tba"]:
            return "equality is not symmetric: a==b %s, b==a %s; textgrids %s / %s" % (got["ab"], got["ba"], got["tab"], got["tba"])
        if got["ab"] != exp:
            return "tiers compare %s, expected %s" % (got["ab"], exp)
        if got["tab"] != exp_tg:
            return "textgrids holding the tiers compare %s, expected %s" % (got["tab"], exp_tg)
        return None
    simple_table(rep, "Q-equality", "TextgridTier.__eq__", at, changes, code, lambda O, mode: (mode == "same" or mode.startswith("tg-"), mode == "same"),
                 "a 2-interval tier against itself and against one-field perturbations (name, label, count, timestamp, span, type); textgrids (the tier followed by an identical second tier) also against a different span and an extra tier", eq)
    rep.functions.add(idx.get("Textgrid.__eq__").qual)

    # entry-level equality (constants.Interval / constants.Point), interpreted from the repository's own __eq__ / __ne__
    import ast as _ast
    at = Atoms()
    s_, e_, x_ = at.var("s"), at.var("e"), at.var("x")
    at.rel("s", "<", "e")
    emodes = ["same", "start", "end", "label", "point-same", "point-time", "point-label", "interval-vs-point", "interval-vs-tuple"]

    def ecode(I, mode):
        L, L2 = label_var("L"), label_var("L2")
        a = Tup([s_, e_, L], "Interval")
        b = {"same": Tup([s_, e_, L], "Interval"), "start": Tup([x_, e_, L], "Interval"), "end": Tup([s_, x_, L], "Interval"),
             "label": Tup([s_, e_, L2], "Interval"), "interval-vs-point": Tup([s_, L], "Point"), "interval-vs-tuple": Tup([s_, e_, L])}.get(mode)
        if mode.startswith("point"):
            a = Tup([s_, L], "Point")
            b = {"point-same": Tup([s_, L], "Point"), "point-time": Tup([x_, L], "Point"), "point-label": Tup([s_, L2], "Point")}[mode]
        r = {"ab": I.compare(_ast.Eq(), a, b), "ba": I.compare(_ast.Eq(), b, a), "aa": I.compare(_ast.Eq(), a, a), "ne": I.compare(_ast.NotEq(), a, b)}
        return r

    def espec(O, mode):
        if mode in ("same", "point-same"):
            return True
        if mode == "start" or mode == "point-time":
            return O.eq(x_, s_)
        if mode == "end":
            return O.eq(x_, e_)
        if mode == "interval-vs-tuple":
            raise DontCare("an Interval against a plain tuple of the same fields: not an entry")
        return False

    def eeq(I, got, want):
        if not got["aa"]:
            return "an entry is not equal to itself"
        if got["ab"] != got["ba"]:
            return "entry equality is not symmetric: a==b %s, b==a %s" % (got["ab"], got["ba"])
        if got["ne"] == got["ab"]:
            return "a != b is %s although a == b is %s" % (got["ne"], got["ab"])
        return None if got["ab"] == want else "entries compare %s, expected %s" % (got["ab"], want)
    simple_table(rep, "Q-equality", "utilities.constants:Interval.__eq__", at, emodes, ecode, espec,
                 "an Interval / Point against itself and one-field perturbations (start, end, time, label, kind)", eeq)
    rep.functions.add(idx.get("utilities.constants:Point.__eq__").qual)



def validate_tables(rep, tier):
    idx = common.ctx()
    for kind in ("interval", "point"):
        at = Atoms()
        ents, m, M = declare_tier(at, 2, kind, span=True)
        x = at.var("x")
        cls = "IntervalTier" if kind == "interval" else "PointTier"
        first = ents[0][0]
        last = ents[-1][1] if kind == "interval" else ents[-1][0]
        modes = ["valid", "min:=x", "max:=x", "tg-min:=x", "tg-max:=x", "swap-entries"] + (["e1:=x", "s2:=x"] if kind == "interval" else ["t1:=x", "t2:=x"])

        def code(I, mode, kind=kind, ents=ents, m=m, M=M):
            t = build_tier(I, kind, "T", ents, m, M)
            tg = I.instantiate(idx.cls("Textgrid"), [m, M], {})
            I.call_value(I.getattr(tg, "addTier"), [t], {})
            if mode == "min:=x":
                t.attrs["minTimestamp"] = x
            elif mode == "max:=x":
                t.attrs["maxTimestamp"] = x
            elif mode == "tg-min:=x":
                tg.attrs["minTimestamp"] = x
            elif mode == "tg-max:=x":
                tg.attrs["maxTimestamp"] = x
            elif mode == "swap-entries":
                if "_entries" not in t.attrs:
                    raise common.Vanished("tier attribute _entries")
                t.attrs["_entries"].items.reverse()
            elif mode in ("e1:=x", "s2:=x", "t1:=x", "t2:=x"):
                if "_entries" not in t.attrs:
                    raise common.Vanished("tier attribute _entries")
                which, field = {"e1:=x": (0, 1), "s2:=x": (1, 0), "t1:=x": (0, 0), "t2:=x": (1, 0)}[mode]
                old = t.attrs["_entries"].items[which]
                new_items = list(old.items)
                new_items[field] = x
                t.attrs["_entries"].items[which] = Tup(new_items, old.cls)
            I.prints = 0
            tv = I.truth(I.call_value(I.getattr(t, "validate"), ["silence"], {}))
            gv = I.truth(I.call_value(I.getattr(tg, "validate"), ["silence"], {}))
            return {"tier": tv, "tg": gv}

        def spec(O, mode, kind=kind, first=first, last=last, m=m, M=M, ents=ents):
            tier_ok, tg_ok = True, True
            if mode == "min:=x":
                tier_ok = O.le(x, first)
                tg_ok = tier_ok and O.eq(x, m)
            elif mode == "max:=x":
                tier_ok = O.le(last, x)
                tg_ok = tier_ok and O.eq(x, M)
            elif mode == "tg-min:=x":
                tg_ok = O.eq(x, m)
            elif mode == "tg-max:=x":
                tg_ok = O.eq(x, M)
            elif mode == "swap-entries":
                if kind == "interval":
                    tier_ok = False  # second entry now precedes the first: e2 > s1
                else:
                    tier_ok = False
                tg_ok = False
            elif mode == "e1:=x":
                # a zero-length or inverted first interval, or one running into the second
                tier_ok = tg_ok = O.lt(ents[0][0], x) and O.le(x, ents[1][0])
            elif mode == "s2:=x":
                tier_ok = tg_ok = O.le(ents[0][1], x) and O.lt(x, ents[1][1])
            elif mode == "t1:=x":
                if O.eq(x, ents[1][0]):
                    raise DontCare("two points at one time: neither in nor out of order")
                tier_ok = tg_ok = O.le(m, x) and O.lt(x, ents[1][0])
            elif mode == "t2:=x":
                if O.eq(x, ents[0][0]):
                    raise DontCare("two points at one time: neither in nor out of order")
                tier_ok = tg_ok = O.lt(ents[0][0], x) and O.le(x, M)
            return {"tier": tier_ok, "tg": tg_ok}

        def eq(I, got, want):
            if got["tier"] != want["tier"]:
                return "tier.validate() is %s, expected %s" % (got["tier"], want["tier"])
            if got["tg"] != want["tg"]:
                return "textgrid.validate() is %s, expected %s" % (got["tg"], want["tg"])
            return None
        simple_table(rep, "Q-validate", cls + ".validate", at, modes, code, spec,
                     "valid %s tier / textgrid and single corruptions of span and entry order" % kind, eq)
    rep.functions.add(idx.get("Textgrid.validate").qual)

    rep.rule("V-fresh", "no method or property of a tier / textgrid class is memoised (cached_property, lru_cache): derived views such as .timestamps are recomputed from the current entries at every access")
    common.rule_no_memo(rep)
