"""C01 -- TextGrid save/open round trip preserves every tier, time and label (structural necessary conditions)."""

from . import textrules as R


def run(rep, tier):
    rep.rule("C-esc", "utils.escapeQuotes, interpreted on exemplar texts, doubles every double quote and changes nothing else (W-doc decides that every written payload passes through it)")
    rep.rule("C-num-regex", "every numeric regex of the long reader captures whole every exemplar of the writer's numeric language, placed in the writer's own line template")
    rep.rule("C-num-conv", "utils.strToIntOrFloat, interpreted on the exemplars, returns their value")
    rep.rule("C-exact", "numToStr: repr on the non-integer path, the integer written is the integer compared, tolerance <= 1e-14")
    rep.rule("C-keys", "the dictionary protocol: emitted keys equal the README schemas; the plain-json conversion is a bijection that drops only per-tier spans and keeps tier order")
    rep.rule("C-flow", "blank removal is symmetric: exactly the entries with an empty label, iff includeEmptyIntervals is False")
    rep.rule("C-scan", "delimiter scans over raw text cannot match inside an escaped payload (constructive test)")
    rep.not_decided.append("that the regex/offset parsers invert the emitters for every Unicode label (a language-inverse question about two programs)")
    rep.not_decided.append("float(repr(x)) == x (CPython guarantee, trusted); file-system and codec behaviour")
    rep.rule("W-doc", "both text emitters interpreted on generic textgrids (symbolic times, labels and names): an independent reader written from Praat's text-file specification (free-standing numbers, quoted strings with doubled quotes, flags; all else comment) recovers every name, class, span, declared size, time and label in order")
    R.rule_written_document(rep, tier)
    R.rule_escape_function(rep)
    rep.rule("RT-doc", "parseTextgridStr (with both text parsers, the row fetchers and strToIntOrFloat inlined) interpreted on the text the two emitters write for generic textgrids -- numerals and labels are opaque atoms; labels carry adversarial skeletons (doubled quote + line break, quote-only label, quote before blanks and a line break, trailing quote) -- returns the dictionary that was written")
    R.rule_round_trip(rep, tier)
    # what reaches the emitters: saving may only add blanks and absorb slivers below the threshold (shared with C04)
    from .c04 import prep_table
    rep.rule("T10-T12-prep", "the save preparation interpreted on a generic textgrid (shared with C04): entries verbatim without blank filling; with it, only blanks added and slivers strictly below the threshold absorbed, every tier's own span written as in memory (also for a tier narrower than its textgrid) -- decided by exact comparison, no tolerance")
    for k_ in (0, 1):
        prep_table(rep, "T10-T12-prep", k_, True, "none")
    prep_table(rep, "T10-T12-prep", 1, True, "none", narrow=True)  # a tier narrower than its textgrid keeps its own span in the file
    R.rule_numeric_regex(rep, tier)
    R.rule_numeric_conversion(rep, tier)
    R.rule_exact_formatter(rep)
    R.rule_json_protocol(rep)
    R.rule_reader_flow(rep)
    R.rule_scans(rep)
