"""C02 -- written TextGrid files are well-formed and all four formats say the same (writer side)."""

import ast

from .. import textfmt as tf
from ..index import norm
from . import common
from . import textrules as R
from .c04 import prep_table

# Key order of Praat's long TextGrid format (transcribed from the manual page "TextGrid file formats")
LONG_GRAMMAR_HEADER = ["File type", "Object class", "xmin", "xmax", "tiers?", "size", "item"]
LONG_GRAMMAR_TIER = ["item", "class", "name", "xmin", "xmax", "intervals: size", "intervals", "xmin", "xmax", "text", "points: size", "points", "number", "mark"]


def rule_long_order(rep, rule="C-order-long"):
    """The comment text of the written long form (everything that is not a number, string or flag) carries Praat's
    keys in the order of the format, and both forms start with Praat's two header lines.  Read off the symbolic
    documents, not the emitter's syntax."""
    import re

    from ..absint import PyRaise
    from ..index import Undecided

    idx = common.ctx()
    for spec, form in ((R.LONG_W, "long"), (R.SHORT_W, "short")):
        fn = idx.get(spec)
        for shape in R.DOC_SHAPES[:2]:
            what = "%s form, generic textgrid [%s]" % (form, ", ".join("%s x%d" % sk for sk in shape))
            try:
                _, _, pieces = R.symbolic_document(spec, shape)
            except (PyRaise, Undecided) as e:
                rep.undecided(rule, fn.short, what, str(e))
                continue
            text = "".join(p if isinstance(p, str) else "\x00" for p in pieces)
            ok_head = text.startswith('File type = "ooTextFile"\nObject class = "TextGrid"\n\n')
            if form == "short":
                rep.check(ok_head, rule, fn.short, what + ": file header", ok="the two header lines followed by a blank line", bad="the file does not start with Praat's two header lines and a blank line: %r" % text[:60], loc=fn.loc)
                continue
            keys = re.findall(r"File type|Object class|tiers\?|intervals: size|points: size|\b(?:intervals|points|item|class|name|xmin|xmax|size|text|number|mark)\b", text)
            want = list(LONG_GRAMMAR_HEADER)
            for kind, k in shape:
                want += ["item", "class", "name", "xmin", "xmax"]
                if kind == "interval":
                    want += ["intervals: size"] + ["intervals", "xmin", "xmax", "text"] * k
                else:
                    want += ["points: size"] + ["points", "number", "mark"] * k
            rep.check(ok_head and keys == want, rule, fn.short, what + ": key sequence", ok="header lines and keys in the order of Praat's long format",
                      bad=("the file does not start with Praat's two header lines" if not ok_head else "long-form keys are written as %s, the format requires %s" % (keys, want)), loc=fn.loc)
    rep.floor(rule, 4)


def rule_one_dict(rep, rule="X-one-dict"):
    """getTextgridAsStr interpreted once per format with its callees abstracted to recorders: the dictionary is
    prepared exactly once, with the caller's options passed through unchanged, and each format serialises that one
    prepared object (plain json: its down-converted form) through the matching emitter; JSON text is produced with
    ensure_ascii=False."""
    from ..absint import DictVal, Interp, Lin, PyRaise, State
    from ..index import Undecided
    from ..tables import default_overrides

    idx = common.ctx()
    fn = idx.get("utilities.textgrid_io:getTextgridAsStr")
    rep.functions.add(fn.qual)
    fmts = list(idx.cls("TextgridFormats").consts.get("validOptions") or [])
    if sorted(fmts) != ["json", "long_textgrid", "short_textgrid", "textgrid_json"]:
        rep.check(False, rule, "TextgridFormats.validOptions", str(fmts), bad="the valid formats are no longer the four documented ones")
        return
    st = State([("0", Lin.num(0))], [0])
    want = {"long_textgrid": ("long", "P"), "short_textgrid": ("short", "P"), "json": ("json", "D"), "textgrid_json": ("json", "P")}
    for fmt in fmts:
        tg0, P, D = DictVal(), DictVal(), DictVal()
        lo, hi, L = Lin.var("lo"), Lin.var("hi"), Lin.var("L")
        log = []

        def name(v):
            return "P" if v is P else "D" if v is D else "tg" if v is tg0 else repr(v)

        def prep(I, args, kwargs):
            log.append(("prep", list(args), dict(kwargs)))
            return P

        def down(I, args, kwargs):
            log.append(("down", name(args[0])))
            return D

        def ser(kind):
            def f(I, args, kwargs):
                log.append((kind, name(args[0])))
                return "<%s text>" % kind
            return f

        def dumps(I, args, kwargs):
            log.append(("json", name(args[0]), kwargs.get("ensure_ascii")))
            return "<json text>"
        ov = dict(default_overrides())
        ov.update({"textgrid_io._prepTgForSaving": prep, "textgrid_io._downconvertDictionaryForJson": down,
                   "textgrid_io._tgToLongTextForm": ser("long"), "textgrid_io._tgToShortTextForm": ser("short")})
        I = Interp(idx, st, overrides=ov)
        I.builtin_overrides = {"json.dumps": dumps}
        try:
            out = I.call_function(fn, [tg0, fmt, True, lo, hi, L], {})
        except PyRaise as e:
            rep.refuted(rule, fn.short, "format %s" % fmt, "raises %s for a valid format" % e.name, loc=fn.loc)
            continue
        except Undecided as e:
            rep.undecided(rule, fn.short, "format %s" % fmt, str(e))
            continue
        problems = []
        preps = [x for x in log if x[0] == "prep"]
        if len(preps) != 1:
            problems.append("the dictionary is prepared %d times" % len(preps))
        else:
            a, kw = preps[0][1], preps[0][2]
            par = ["tg", "includeBlankSpaces", "minTimestamp", "maxTimestamp", "minimumIntervalLength"]
            got = dict(zip(par, a))
            got.update(kw)
            exp = {"tg": tg0, "includeBlankSpaces": True, "minTimestamp": lo, "maxTimestamp": hi, "minimumIntervalLength": L}
            for k, v in exp.items():
                g = got.get(k)
                same = (g is v) or (isinstance(v, Lin) and isinstance(g, Lin) and g.same(v)) or (v is True and g is True)
                if not same:
                    problems.append("_prepTgForSaving receives %s=%r instead of the caller's %s" % (k, g, k))
            if log[0][0] != "prep":
                problems.append("something is serialised before the dictionary is prepared")
        kind, obj = want[fmt]
        sers = [x for x in log if x[0] in ("long", "short", "json")]
        if len(sers) != 1 or sers[0][0] != kind or sers[0][1] != obj:
            problems.append("serialised as %s, expected %s(%s)" % (sers, kind, "prepared dictionary" if obj == "P" else "down-converted prepared dictionary"))
        elif kind == "json" and sers[0][2] is not False:
            problems.append("json.dumps is not called with ensure_ascii=False: labels would be written as \\u escapes")
        if obj == "D" and ("down", "P") not in log:
            problems.append("the plain-json form is not derived from the prepared dictionary")
        if not problems and out != "<%s text>" % kind:
            problems.append("the function returns %r, not the serialiser's text" % (out,))
        rep.check(not problems, rule, fn.short, "format %s" % fmt, ok="prepared once with the caller's options, then %s(%s)" % (kind, "prepared" if obj == "P" else "down(prepared)"),
                  bad="; ".join(problems), loc=fn.loc)
    rep.floor(rule, 4)


def run(rep, tier):
    rep.rule("C-esc", "utils.escapeQuotes, interpreted on exemplar texts, doubles every double quote and changes nothing else (W-doc decides that every written payload passes through it)")
    rep.rule("C-order-long", "the long form's comment text carries Praat's keys in the order of the format (cosmetic for Praat, relied on by regex-based readers such as praatio's own)")
    rep.rule("C-exact", "numToStr writes numbers exactly: repr or the compared integer, tolerance <= 1e-14 (W-doc decides that every written number is such a numeral)")
    rep.rule("C-keys", "JSON keys and class strings equal the README schemas; plain json is a key bijection of textgrid_json minus per-tier spans")
    rep.rule("X-one-dict", "one prepared dictionary is serialised by all four format branches, dispatch exhaustive")
    rep.rule("T10 partition", "with blank filling on, the prepared interval tiers partition [xmin, xmax] (abstract interpretation, shared with C04)")
    rep.not_decided.append("acceptance of the files by Praat itself / an independent grammar-based reader (only the writer's structure is decided)")
    rep.not_decided.append("effect of sub-threshold absorption on the partition beyond what C04 decides")
    rep.rule("W-doc", "both text emitters interpreted on generic textgrids (symbolic times, labels and names): an independent reader written from Praat's text-file specification (free-standing numbers, quoted strings with doubled quotes, flags; all else comment) recovers every name, class, span, declared size, time and label in order")
    R.rule_written_document(rep, tier)
    R.rule_escape_function(rep)
    rule_long_order(rep)
    R.rule_exact_formatter(rep)
    R.rule_json_protocol(rep)
    rule_one_dict(rep)
    for k in (0, 1, 2):
        prep_table(rep, "T10-partition", k, False, "both" if k < 2 or tier == "thorough" else "none")
    # the partition must survive sliver absorption (default threshold is on in save())
    for k in (1, 2):
        prep_table(rep, "T10-partition", k, True, "none" if tier == "quick" else "both")
    prep_table(rep, "T10-partition", 1, True, "both")       # an override together with the sliver threshold
    prep_table(rep, "T10-partition", 1, False, "none", narrow=True)  # a tier shorter than its textgrid
    rep.rule("B2-save-order", "in Textgrid.save the text is computed (and can raise) before the destination is opened for writing: a failed save leaves no truncated, ill-formed file (shared with C04/C13)")
    common.rule_save_order(rep, ["Textgrid.save"])
