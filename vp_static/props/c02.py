"""C02 -- written TextGrid files are well-formed and all four formats say the same (writer side)."""

import ast

from .. import textfmt as tf
from ..index import norm
from . import common
from . import textrules as R
from .c04 import prep_table

# Key order of Praat's long TextGrid format (transcribed from the manual page "TextGrid file formats")
LONG_GRAMMAR_HEADER = ["File type", "Object class", "xmin", "xmax", "tiers?", "size", "item"]
LONG_GRAMMAR_TIER = ["item", "class", "name", "xmin", "xmax", "intervals: size", "intervals", "xmin", "xmax", "text", "points: size", "points", "number", "mark"]


def rule_long_order(rep, rule="C-order-long"):
    idx = common.ctx()
    fn = idx.get(R.LONG_W)
    consts = [c for c in ast.walk(fn.node) if isinstance(c, ast.Constant) and isinstance(c.value, str) and c.value.endswith("\n")]
    consts.sort(key=lambda c: (c.lineno, c.col_offset))
    text = [c.value for c in consts]  # line templates only, in source order (dictionary keys are not emitted text)
    joined = "".join(text)
    import re
    keys = re.findall(r"File type|Object class|tiers\?|intervals: size|points: size|\b(?:intervals|points|item|class|name|xmin|xmax|size|text|number|mark)\b", joined)
    want = LONG_GRAMMAR_HEADER + LONG_GRAMMAR_TIER
    rep.check(keys == want, rule, fn.short, "key sequence", ok="keys appear in the order of Praat's long format: %s" % " ".join(want),
              bad="long-form keys are emitted as %s, the format requires %s" % (keys, want))
    hdr = [t for t in text if "ooTextFile" in t or "TextGrid" in t]
    rep.check(hdr[:2] == ['File type = "ooTextFile"\n', 'Object class = "TextGrid"\n\n'], rule, fn.short, "file header", ok="two header lines followed by a blank line", bad="file header lines differ from the format: %r" % hdr[:2])
    sfn = idx.get(R.SHORT_W)
    stext = [c.value for n in ast.walk(sfn.node) if isinstance(n, ast.AugAssign) for c in ast.walk(n.value) if isinstance(c, ast.Constant) and isinstance(c.value, str)]
    rep.check(stext[:2] == ['File type = "ooTextFile"\n', 'Object class = "TextGrid"\n\n'] and any("<exists>" in t for t in stext), rule, sfn.short, "file header", ok="short form: header, blank line, xmin, xmax, <exists>, size", bad="short-form header differs from the format")
    rep.floor(rule, 3)


def rule_one_dict(rep, rule="X-one-dict"):
    """getTextgridAsStr prepares one dictionary and every format branch serialises that same object."""
    idx = common.ctx()
    fn = idx.get("utilities.textgrid_io:getTextgridAsStr")
    fmts = idx.cls("TextgridFormats").consts.get("validOptions")
    chain = [s for s in fn.node.body if isinstance(s, ast.If)]
    seen = []
    ok_branches = True
    node = chain[0] if chain else None
    has_else = False
    while node is not None:
        t = node.test
        v = idx.const_value(fn.module, t.comparators[0]) if isinstance(t, ast.Compare) else None
        seen.append(v)
        calls = [n for n in ast.walk(ast.Module(body=node.body, type_ignores=[])) if isinstance(n, ast.Call)]
        uses_tg = any(isinstance(a, ast.Name) and a.id == "tg" for c in calls for a in c.args)
        ok_branches = ok_branches and uses_tg
        if len(node.orelse) == 1 and isinstance(node.orelse[0], ast.If):
            node = node.orelse[0]
        else:
            has_else = bool(node.orelse)
            node = None
    rep.check(sorted(x for x in seen if x) == sorted(fmts) and not has_else, rule, fn.short, "format dispatch", ok="one branch per valid format %s, no catch-all" % sorted(fmts), bad="format dispatch %s does not cover validOptions %s exactly" % (seen, fmts))
    rep.check(ok_branches, rule, fn.short, "branches serialise tg", ok="every branch serialises the one prepared dictionary", bad="a format branch serialises something other than the prepared dictionary")
    jb = [n for n in ast.walk(fn.node) if isinstance(n, ast.Call) and norm(n.func) == "_tgToJson"]
    shapes = sorted(norm(c.args[0]) for c in jb)
    rep.check(shapes == ["_downconvertDictionaryForJson(tg)", "tg"], rule, fn.short, "json branches", ok="json = _tgToJson(down(tg)); textgrid_json = _tgToJson(tg)", bad="json branches serialise %s" % shapes)
    js = idx.get("utilities.textgrid_io:_tgToJson")
    rep.check(any(isinstance(n, ast.Call) and norm(n.func) == "json.dumps" and any(k.arg == "ensure_ascii" and norm(k.value) == "False" for k in n.keywords) for n in ast.walk(js.node)), rule, js.short, "json.dumps(..., ensure_ascii=False)", ok="labels are written as themselves (UTF-8), JSON escapes quotes", bad="_tgToJson no longer uses json.dumps(ensure_ascii=False)")
    rep.floor(rule, 4)


def run(rep, tier):
    rep.rule("C-esc", "utils.escapeQuotes, interpreted on exemplar texts, doubles every double quote and changes nothing else (W-doc decides that every written payload passes through it)")
    rep.rule("C-order-long", "the long form's comment text carries Praat's keys in the order of the format (cosmetic for Praat, relied on by regex-based readers such as praatio's own)")
    rep.rule("C-exact", "numToStr writes numbers exactly: repr or the compared integer, tolerance <= 1e-14 (W-doc decides that every written number is such a numeral)")
    rep.rule("C-keys", "JSON keys and class strings equal the README schemas; plain json is a key bijection of textgrid_json minus per-tier spans")
    rep.rule("X-one-dict", "one prepared dictionary is serialised by all four format branches, dispatch exhaustive")
    rep.rule("T10 partition", "with blank filling on, the prepared interval tiers partition [xmin, xmax] (abstract interpretation, shared with C04)")
    rep.not_decided.append("acceptance of the files by Praat itself / an independent grammar-based reader (only the writer's structure is decided)")
    rep.not_decided.append("effect of sub-threshold absorption on the partition beyond what C04 decides")
    rep.rule("W-doc", "both text emitters interpreted on generic textgrids (symbolic times, labels and names): an independent reader written from Praat's text-file specification (free-standing numbers, quoted strings with doubled quotes, flags; all else comment) recovers every name, class, span, declared size, time and label in order")
    R.rule_written_document(rep, tier)
    R.rule_escape_function(rep)
    rule_long_order(rep)
    R.rule_exact_formatter(rep)
    R.rule_json_protocol(rep)
    rule_one_dict(rep)
    for k in (0, 1, 2):
        prep_table(rep, "T10-partition", k, False, "both" if k < 2 or tier == "thorough" else "none")
    # the partition must survive sliver absorption (default threshold is on in save())
    for k in (1, 2):
        prep_table(rep, "T10-partition", k, True, "none" if tier == "quick" else "both")
    rep.rule("B2-save-order", "in Textgrid.save the text is computed (and can raise) before the destination is opened for writing: a failed save leaves no truncated, ill-formed file (shared with C04/C13)")
    common.rule_save_order(rep, ["Textgrid.save"])
