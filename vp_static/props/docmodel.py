"""W-doc -- the text the two TextGrid emitters produce for a *generic* textgrid, read back by an independent reader.

The emitters (`_tgToLongTextForm`, `_tgToShortTextForm`) are interpreted from their AST on a dictionary whose
times are symbols, whose labels and tier names are string variables and whose numbers of tiers / entries are
small exemplar counts (loops are unrolled).  The result is a *symbolic document*: a sequence of literal text,
`esc(<label>)` (a payload whose quotes were doubled), `num(<time>)` (the numeral numToStr writes, an atom) and --
if the emitter forgot something -- bare `<label>` variables.

The reader below is written from Praat's manual ("TextGrid file formats" / "Text files"): a Praat text file is a
sequence of *free-standing* numbers, double-quoted strings (a quote inside a string is doubled) and <flags>;
everything else is comment.  Long and short form differ only in the comment, so one reader serves both:

    "ooTextFile" "TextGrid" xmin xmax <exists> size { class name xmin xmax size { xmin xmax text | number mark } }

It never looks at praatio's reader.  What it recovers is compared with the dictionary that was handed to the
emitter: names, classes, spans, sizes, times and labels, in order.
"""

from ..absint import Lin, Str


class DocError(Exception):
    pass


def flatten(doc):
    """Symbolic document -> list of str | Str(esc|num|var|raw|...) pieces."""
    if isinstance(doc, str):
        return [doc] if doc else []
    if isinstance(doc, Str):
        if doc.kind == "cat":
            out = []
            for p in doc.parts:
                out.extend(flatten(p))
            return out
        return [doc]
    raise DocError("the emitter returned %r, not text" % (doc,))


def tokenize(pieces):
    """-> list of ('s', [content pieces]) | ('n', Lin | int-or-float text) | ('f', name).  Raises DocError when the
    text is not well-formed for *every* value of the variables."""
    toks = []
    i = 0  # piece index
    j = 0  # char index inside a literal piece
    n = len(pieces)

    def at_end():
        return i >= n

    word = []  # pieces of the current free-standing word
    in_str = False
    content = []

    def flush_word():
        nonlocal word
        if not word:
            return
        if len(word) == 1 and isinstance(word[0], Str):
            w = word[0]
            if w.kind == "num":
                toks.append(("n", w.parts[0]))
            elif w.kind == "trunc":
                raise DocError("the number %r is written with '%%d': its fractional part is dropped" % (w.parts[0],))
            elif w.kind in ("opaque", "of"):
                raise DocError("a value is written with a format the analysis cannot read as an exact numeral (%r)" % (w,))
            else:
                raise DocError("payload %r is written outside double quotes: whatever it contains is read as numbers, strings or comment" % (w,))
        elif all(isinstance(x, str) for x in word):
            t = "".join(word)
            if t.startswith("<") and t.endswith(">"):
                toks.append(("f", t[1:-1]))
            else:
                try:
                    float(t)
                    toks.append(("n", t))
                except ValueError:
                    pass  # comment
        else:
            syms = [x for x in word if isinstance(x, Str)]
            if any(x.kind != "num" for x in syms):
                raise DocError("payload %r is written outside double quotes" % (syms[0],))
            lits = "".join(x for x in word if isinstance(x, str))
            raise DocError("the numeral %r is not free-standing (glued to %r): Praat reads it as comment or as another number" % (syms[0], lits))
        word = []

    while not at_end():
        p = pieces[i]
        if isinstance(p, Str):
            if in_str:
                if p.kind == "esc":
                    content.append(p.parts[0])
                elif p.kind == "num":
                    content.append(p)
                else:
                    raise DocError("payload %r is written between quotes without its quotes being doubled: a label containing '\"' ends the string early" % (p,))
            else:
                word.append(p)
            i += 1
            j = 0
            continue
        if j >= len(p):
            i += 1
            j = 0
            continue
        c = p[j]
        if in_str:
            if c == '"':
                # look at the next character
                if j + 1 < len(p):
                    if p[j + 1] == '"':
                        content.append('"')
                        j += 2
                        continue
                    in_str = False
                    toks.append(("s", content))
                    content = []
                    j += 1
                    continue
                # the quote is the last character of this literal piece
                if i + 1 < n and isinstance(pieces[i + 1], Str):
                    raise DocError("a closing quote is immediately followed by the payload %r: if that begins with a quote the string does not end here" % (pieces[i + 1],))
                if i + 1 < n and isinstance(pieces[i + 1], str) and pieces[i + 1][:1] == '"':
                    content.append('"')
                    i += 1
                    j = 1
                    continue
                in_str = False
                toks.append(("s", content))
                content = []
                j += 1
                continue
            content.append(c)
            j += 1
            continue
        # outside a string
        if c == '"':
            if word:
                raise DocError("a quoted string starts immediately after %r with no white space between them" % "".join(x if isinstance(x, str) else repr(x) for x in word))
            in_str = True
            content = []
            j += 1
        elif c.isspace():
            flush_word()
            j += 1
        else:
            word.append(c)
            j += 1
    if in_str:
        raise DocError("the text ends inside a quoted string")
    flush_word()
    return toks


def _merge(content):
    out = []
    for c in content:
        if isinstance(c, str) and out and isinstance(out[-1], str):
            out[-1] += c
        else:
            out.append(c)
    return out


class Reader:
    def __init__(self, toks):
        self.toks = toks
        self.k = 0

    def take(self, kind, what):
        if self.k >= len(self.toks):
            raise DocError("the text ends where %s is expected" % what)
        t = self.toks[self.k]
        if t[0] != kind:
            raise DocError("%s expected, found %s %r (item %d of the file)" % (what, {"s": "the string", "n": "the number", "f": "the flag"}[t[0]], t[1], self.k + 1))
        self.k += 1
        return t[1]

    def count(self, what):
        v = self.take("n", what)
        if isinstance(v, str):
            try:
                return int(v)
            except ValueError:
                pass
        raise DocError("%s is %r, not a literal whole number" % (what, v))


def read_textgrid(toks):
    r = Reader(toks)
    if _merge(r.take("s", "file type")) != ["ooTextFile"]:
        raise DocError("first string is not \"ooTextFile\"")
    if _merge(r.take("s", "object class")) != ["TextGrid"]:
        raise DocError("second string is not \"TextGrid\"")
    tg = {"xmin": r.take("n", "xmin"), "xmax": r.take("n", "xmax"), "tiers": []}
    if r.take("f", "<exists>") != "exists":
        raise DocError("tiers flag is not <exists>")
    ntiers = r.count("number of tiers")
    for ti in range(ntiers):
        cls = _merge(r.take("s", "class of tier %d" % (ti + 1)))
        if cls not in (["IntervalTier"], ["TextTier"]):
            raise DocError("class of tier %d is %r" % (ti + 1, cls))
        tier = {"class": cls[0], "name": _merge(r.take("s", "tier name")), "xmin": r.take("n", "tier xmin"), "xmax": r.take("n", "tier xmax"), "entries": []}
        size = r.count("size of tier %d" % (ti + 1))
        for ei in range(size):
            if cls[0] == "IntervalTier":
                e = (r.take("n", "interval start"), r.take("n", "interval end"), _merge(r.take("s", "interval text")))
            else:
                e = (r.take("n", "point time"), _merge(r.take("s", "point mark")))
            tier["entries"].append(e)
        tg["tiers"].append(tier)
    if r.k != len(r.toks):
        raise DocError("%d item(s) follow the last declared entry (first: %r): a declared size is smaller than the number of items written" % (len(r.toks) - r.k, r.toks[r.k][1]))
    return tg


def same_num(I, got, want):
    from ..tables import num_equal

    if isinstance(got, str):
        return isinstance(want, Lin) and want.is_const() and float(got) == float(want.const)
    return num_equal(I, got, want)


def same_text(got, want):
    """got: merged content pieces; want: str | Str."""
    if isinstance(want, str):
        return got == ([want] if want else [])
    if len(got) != 1 or not isinstance(got[0], Str):
        return False
    return got[0].key() == want.key()


def compare(I, back, d):
    """None if the recovered textgrid equals the dictionary handed to the emitter; else a description."""
    for k in ("xmin", "xmax"):
        if not same_num(I, back[k], d.d[k]):
            return "file %s reads %r, the textgrid has %r" % (k, back[k], d.d[k])
    tiers = I.iterate(d.d["tiers"])
    if len(back["tiers"]) != len(tiers):
        return "%d tiers read, %d in memory" % (len(back["tiers"]), len(tiers))
    for n, (b, t) in enumerate(zip(back["tiers"], tiers)):
        t = t.d
        if b["class"] != t["class"]:
            return "tier %d class reads %s, in memory %s" % (n + 1, b["class"], t["class"])
        if not same_text(b["name"], t["name"]):
            return "tier %d name reads %r, in memory %r" % (n + 1, b["name"], t["name"])
        for k in ("xmin", "xmax"):
            if not same_num(I, b[k], t[k]):
                return "tier %d %s reads %r, in memory %r" % (n + 1, k, b[k], t[k])
        ents = [I.iterate(e) for e in I.iterate(t["entries"])]
        if len(ents) != len(b["entries"]):
            return "tier %d: %d entries read, %d in memory" % (n + 1, len(b["entries"]), len(ents))
        for m, (x, y) in enumerate(zip(b["entries"], ents)):
            if len(x) != len(y):
                return "tier %d entry %d has %d fields, in memory %d" % (n + 1, m + 1, len(x), len(y))
            for a, c in zip(x[:-1], y[:-1]):
                if not same_num(I, a, c):
                    return "tier %d entry %d: time reads %r, in memory %r" % (n + 1, m + 1, a, c)
            if not same_text(x[-1], y[-1]):
                return "tier %d entry %d: label reads %r, in memory %r" % (n + 1, m + 1, x[-1], y[-1])
    return None
