"""C20 -- numeric series helpers: the order-statistic and row-preservation clauses only."""

from ..absint import Interp, Lin, Lst, PyFunc, PyRaise, Tup, label_var
from ..index import Undecided
from ..absint import NeedSplit
from ..tables import default_overrides
from ..tables import Atoms, Outcome, TableRun, compare_outcomes, num_equal, run_code, run_spec, run_states, show
from . import common
from .. import terms


def _env(env):
    return ", ".join("%s=%g" % kv for kv in sorted(env.items()))


def median_table(rep, n, windows):
    """medianFilter on a series of n generic values (every weak order), every window size and padding mode."""
    idx = common.ctx()
    fn = idx.get("utilities.my_math:medianFilter")
    rep.functions.add(fn.qual)
    rep.functions.add(idx.get("utilities.my_math:_stepFilter").qual)
    at = Atoms()
    xs = [at.var("x%d" % i) for i in range(1, n + 1)]
    if not xs:
        at.const(0, "0")
    tr = TableRun(rep, "M-median", fn.short, fn.loc)

    def rows(st):
        out = []
        for w in windows:
            for pad in (True, False):
                got, I = run_code(idx, st, lambda I: I.call_function(fn, [Lst(list(xs)), Lin.num(w), pad], {}))

                def spec(O):
                    """C20: element i is the median of element i and its floor(window/2) neighbours on either side,
                    the series extended by its edge values when padding is on, the element left unchanged near the
                    edges when it is off; the result has the input's length."""
                    off = w // 2
                    res = []
                    for i in range(n):
                        if pad:
                            win = [xs[min(max(i + j, 0), n - 1)] for j in range(-off, off + 1)]
                        elif i - off >= 0 and i + off < n:
                            win = [xs[i + j] for j in range(-off, off + 1)]
                        else:
                            res.append(xs[i])
                            continue
                        srt = []
                        for v in win:
                            pos = len(srt)
                            for k, y in enumerate(srt):
                                if O.lt(v, y):
                                    pos = k
                                    break
                            srt.insert(pos, v)
                        res.append(srt[len(srt) // 2])  # window length 2*off+1 is odd
                    return res
                want = run_spec(idx, st, spec)

                def eq(I, g, wv):
                    gi = g.items
                    if len(gi) != len(wv):
                        return "length %d, expected %d (a list of the input's length)" % (len(gi), len(wv))
                    for k, (a, b) in enumerate(zip(gi, wv)):
                        if not num_equal(I, a, b):
                            return "element %d is %r, expected %r" % (k, a, b)
                    return None
                out.append(compare_outcomes(I, (w, "pad" if pad else "nopad"), got, want, eq=eq))
        return out

    run_states(at, rows, tr)
    tr.done("series of %d generic values x windows %s x padding" % (n, list(windows)))


def measures_table(rep, n):
    """getPitchMeasures on n generic pitch values: (mean, max, min, range, population variance, deviation) are the
    textbook expressions over the values that remain after the optional zero removal and median filtering; an empty
    remainder gives six zeros.  Squares and products are polynomials over the symbols, the root is an uninterpreted
    function of its argument, so the comparison is between expressions, not numbers.  With both options the
    definition is the one the pinned tree implements and every caller relies on: median-filter the whole track with
    edge padding, then drop the unvoiced (zero) frames, then measure."""
    from fractions import Fraction

    idx = common.ctx()
    fn = idx.get("pitch_and_intensity:getPitchMeasures")
    med = idx.get("utilities.my_math:medianFilter")
    rep.functions.add(fn.qual)
    at = Atoms()
    at.const(0, "0")
    at.const(1, "1")
    xs = [at.var("x%d" % i) for i in range(1, n + 1)]
    for i in range(1, n + 1):
        at.rel("0", "<=", "x%d" % i)
    tr = TableRun(rep, "M-measures", fn.short, fn.loc)
    names = ["mean", "max", "min", "range", "variance", "deviation"]
    WINDOWS = (None, 3, 5)  # 5 on three values: the padded and the unpadded filter differ in the middle element

    def rows(st):
        out = []
        unvoiced = {}
        for x in xs:
            if st.signs(x) == frozenset([0]):
                unvoiced[list(x.coef)[0]] = True
            elif st.signs(x - Lin.num(1)) <= frozenset([0, 1]):
                unvoiced[list(x.coef)[0]] = False
            else:
                # 0 < x < 1: not a pitch value (Hz); int(x) != 0 and x != 0 differ there
                return [((w, z), True, "dontcare", None) for w in WINDOWS for z in (False, True)]

        def to_int(I_, a, k):
            v = a[0]
            if isinstance(v, Lin) and len(v.coef) == 1 and v.const == 0 and list(v.coef)[0] in unvoiced and list(v.coef.values())[0] == 1:
                return Lin.num(0) if unvoiced[list(v.coef)[0]] else Lin.num(1)  # only ever compared with 0
            if isinstance(v, Lin) and v.is_const():
                import math as _m
                return Lin.num(_m.trunc(v.const))
            raise Undecided("int(%r)" % (v,))

        def voiced(vals):
            return [v for v in vals if not unvoiced[list(v.coef)[0]]]

        def expected(I, vals):
            if not vals:
                return [Lin.num(0)] * 6
            cnt = Fraction(1, len(vals))
            total = Lin.num(0)
            for v in vals:
                total = total + v
            mean = total.scale(cnt)
            mx = I.num(I._minmax("max", [Lst(list(vals))], {}, None))
            mn = I.num(I._minmax("min", [Lst(list(vals))], {}, None))
            var = Lin.num(0)
            for v in vals:
                d = v - mean
                var = var + d.times(d)
            var = var.scale(cnt)
            return [mean, mx, mn, mx - mn, var, Lin.apply("sqrt", var) if not var.is_const() else Lin.num(0)]

        def judge(I, items, want, vals):
            unknown = None
            for nm, g, w in zip(names, items, want):
                try:
                    gg = I.num(g)
                except Undecided:
                    return ("differ", "%s is %r" % (nm, g))
                verdict = terms.decide(st, xs, gg, w)
                if verdict[0] == "differ":
                    return ("differ", "%s is %r, expected %r (values measured: %s); e.g. with %s it is %.6g, not %.6g" % (nm, gg, w, [repr(v) for v in vals], _env(verdict[1]), verdict[2], verdict[3]))
                if verdict[0] == "unknown" and unknown is None:
                    unknown = "%s: %s" % (nm, verdict[1])
            return ("unknown", unknown) if unknown else ("same", "")

        for window in WINDOWS:
            for drop_zero in (False, True):
                mode = (window, drop_zero)
                I = Interp(idx, st, overrides=default_overrides())
                I.builtin_overrides = {"int": to_int}
                try:
                    got = I.call_function(fn, [Lst(list(xs)), "file", "label", None if window is None else Lin.num(window), drop_zero], {})
                    items = I.iterate(got) if not isinstance(got, Lin) else [got]
                    if len(items) != 6:
                        out.append((mode, False, "returns %d values, expected (mean, max, min, range, variance, deviation)" % len(items), None))
                        continue
                    # the series that may legitimately be measured
                    cands = []
                    if window is None:
                        cands.append(voiced(xs) if drop_zero else list(xs))
                    else:
                        # the pinned pipeline: smooth the whole track (edge padding), then drop the unvoiced frames
                        I2 = Interp(idx, st, overrides=default_overrides())
                        f = [I2.num(v) for v in I2.iterate(I2.call_function(med, [Lst(list(xs)), Lin.num(window), True], {}))]
                        cands.append(voiced(f) if drop_zero else f)
                    verdicts = [judge(I, items, expected(I, c), c) for c in cands]
                except PyRaise as e:
                    out.append((mode, False, "raises %s" % e.name, None))
                    continue
                except Undecided as e:
                    out.append((mode, False, "", e if type(e).__name__ == "NeedSplit" else str(e)))
                    continue
                if any(v[0] == "same" for v in verdicts):
                    out.append((mode, True, "", None))
                elif all(v[0] == "differ" for v in verdicts):
                    out.append((mode, False, verdicts[0][1], None))
                else:
                    out.append((mode, False, "", [v[1] for v in verdicts if v[0] == "unknown"][0]))
        return out

    run_states(at, rows, tr)
    tr.done("%d generic pitch values (0 = unvoiced, otherwise >= 1) x zero removal x median window (none, 3, 5)" % n)


def pitch_errors_table(rep, n=3):
    """detectPitchErrors on n generic (time, pitch) rows with concrete thresholds: a row is reported iff the previous
    pitch is at most threshold x current or at least current / threshold; reported at the row's own time, in order."""
    from fractions import Fraction

    idx = common.ctx()
    fn = idx.get("pitch_and_intensity:detectPitchErrors")
    rep.functions.add(fn.qual)
    at = Atoms()
    at.const(0, "0")
    ps = [at.var("p%d" % i) for i in range(1, n + 1)]
    for i in range(1, n + 1):
        at.rel("0", "<", "p%d" % i)
    ts = [Lin.var("t%d" % i) for i in range(1, n + 1)]
    tr = TableRun(rep, "M-jumps", fn.short, fn.loc)
    thresholds = [Fraction(1, 2), Fraction(7, 10), Fraction(1)]

    def rows(st):
        out = []
        for thr in thresholds:
            I = Interp(idx, st, overrides=default_overrides())
            try:
                rows_ = Lst([Tup([t, p_]) for t, p_ in zip(ts, ps)])
                got = I.call_function(fn, [rows_, Lin.num(thr).as_float()], {})
                errs = I.iterate(I.iterate(got)[0])
                want = []
                edge = False
                for i in range(1, n):
                    last, cur = ps[i - 1], ps[i]
                    lo = I.sign(last, cur.scale(thr))
                    hi = I.sign(last, cur.scale(1 / thr))
                    if lo == 0 or hi == 0:
                        edge = True  # a jump of exactly the ratio: "more than" vs "at least" is not ours to settle
                    if lo <= 0 or hi >= 0:
                        want.append(ts[i])
                if edge:
                    out.append((float(thr), True, "dontcare", None))
                    continue
            except PyRaise as e:
                out.append((float(thr), False, "raises %s" % e.name, None))
                continue
            except Undecided as e:
                out.append((float(thr), False, "", e if type(e).__name__ == "NeedSplit" else str(e)))
                continue
            got_t = [I.iterate(e_)[0] for e_ in errs]
            ok = len(got_t) == len(want) and all(isinstance(g, Lin) and g.same(w) for g, w in zip(got_t, want))
            out.append((float(thr), ok, "" if ok else "jumps reported at %s, expected at %s (previous <= threshold x current, or previous >= current / threshold)" % ([repr(g) for g in got_t], [repr(w) for w in want]), None))
        return out

    run_states(at, rows, tr)
    tr.done("%d generic (time, pitch) rows x thresholds 0.5, 0.7, 1" % n)
    # thresholds outside [0, 1] are rejected
    from ..absint import State
    st0 = State([("0", Lin.num(0))], [0])
    for bad in (Fraction(-1, 10), Fraction(11, 10)):
        I = Interp(idx, st0, overrides=default_overrides())
        try:
            I.call_function(fn, [Lst([]), Lin.num(bad).as_float()], {})
            rep.refuted("M-jumps", fn.short, "threshold %s" % float(bad), "a threshold outside [0, 1] is accepted", loc=fn.loc)
        except PyRaise as e:
            rep.check(e.name in set(idx.module("utilities.errors").classes), "M-jumps", fn.short, "threshold %s" % float(bad), ok="rejected with %s" % e.name, bad="raises %s" % e.name)
        except Undecided as e:
            rep.undecided("M-jumps", fn.short, "threshold %s" % float(bad), str(e))


def _sample_sd(xs):
    from fractions import Fraction

    n = len(xs)
    tot = Lin.num(0)
    for x in xs:
        tot = tot + x
    mean = tot.scale(Fraction(1, n))
    ss = Lin.num(0)
    for x in xs:
        ss = ss + (x - mean).times(x - mean)
    var = ss.scale(Fraction(1, n - 1))
    return mean, var


def znorm_table(rep, n, fn_name="utilities.my_math:znormalizeData", zero_filter=False):
    """z-normalisation of n generic values (every weak order that is not constant): the result has n elements, they
    sum to zero, their sample variance is 1, and differences keep their sign (rank order)."""
    from fractions import Fraction

    idx = common.ctx()
    fn = idx.get(fn_name)
    speaker = fn_name.endswith("znormalizeSpeakerData")
    rep.functions.add(fn.qual)
    at = Atoms()
    xs = [at.var("x%d" % i) for i in range(1, n + 1)]
    if zero_filter:
        # every value positive: there is nothing to filter, the result must be the plain z-normalisation
        at.const(0, "0")
        for i in range(1, n + 1):
            at.rel("0", "<", "x%d" % i)
    tr = TableRun(rep, "M-znorm", fn.short, fn.loc)

    def rows(st):
        if all(st.signs(x - xs[0]) == frozenset([0]) for x in xs):
            return [("z", True, "dontcare", None)]  # constant series: the deviation is 0, nothing is promised
        I = Interp(idx, st, overrides=default_overrides())
        try:
            if speaker:
                rows_ = Lst([Tup([Lin.var("t%d" % i), x, label_var("r%d" % i)]) for i, x in enumerate(xs, 1)])
                got = I.call_function(fn, [rows_, Lin.num(1), zero_filter], {})
                got_rows = [I.iterate(r) for r in I.iterate(got)]
                if len(got_rows) != n or any(len(r) != 3 for r in got_rows):
                    return [("z", False, "%d rows of widths %s returned for %d rows of width 3" % (len(got_rows), [len(r) for r in got_rows], n), None)]
                for i, r in enumerate(got_rows, 1):
                    if not (isinstance(r[0], Lin) and r[0].same(Lin.var("t%d" % i))) or r[2] is not I.iterate(I.iterate(rows_)[i - 1])[2]:
                        return [("z", False, "row %d: the other columns are %r, %r" % (i, r[0], r[2]), None)]
                outs = [I.num(r[1]) for r in got_rows]
            else:
                got = I.call_function(fn, [Lst(list(xs))], {})
                outs = [I.num(v) for v in I.iterate(got)]
        except PyRaise as e:
            return [("z", False, "raises %s" % e.name, None)]
        except Undecided as e:
            return [("z", False, "", e if type(e).__name__ == "NeedSplit" else str(e))]
        if len(outs) != n:
            return [("z", False, "%d values returned for %d" % (len(outs), n), None)]
        mean, var = _sample_sd(xs)
        s = Lin.apply("sqrt", var)
        unknown = None
        # mean 0
        tot = Lin.num(0)
        for o in outs:
            tot = tot + o
        v = terms.decide(st, xs, tot, Lin.num(0))
        if v[0] == "differ":
            return [("z", False, "the normalised values sum to %r, not 0; e.g. with %s their sum is %.6g" % (tot, _env(v[1]), v[2]), None)]
        if v[0] == "unknown":
            unknown = "mean: " + v[1]
        # sample variance 1
        s2 = Lin.num(0)
        for o in outs:
            s2 = s2 + o.times(o)
        s2 = s2.scale(Fraction(1, n - 1))
        v = terms.decide(st, xs, s2, Lin.num(1), scaled=s.times(s))
        if v[0] == "same":
            pass
        else:
            v = terms.decide(st, xs, s2.times(s).times(s), s.times(s))
            if v[0] != "same":
                v = terms.decide(st, xs, s2, Lin.num(1))
            if v[0] == "differ":
                return [("z", False, "the sample variance of the normalised values is %r, not 1; e.g. with %s it is %.6g" % (s2, _env(v[1]), v[2]), None)]
            if v[0] == "unknown":
                unknown = unknown or "deviation: " + v[1]
        # rank order
        for i in range(n):
            for j in range(i):
                d = outs[i] - outs[j]
                want_sign = st.signs(xs[i] - xs[j])
                if terms.canon(st, xs, d.times(s)).same(terms.canon(st, xs, xs[i] - xs[j])):
                    continue
                if len(want_sign) != 1:
                    continue
                ws = next(iter(want_sign))

                def pred(env, d=d, ws=ws):
                    val = d.evaluate(env)
                    sg = 0 if abs(val) < 1e-9 else (1 if val > 0 else -1)
                    return None if sg == ws else "value %d - value %d normalises to %.6g" % (i + 1, j + 1, val)
                r = terms.refute(st, pred)
                if r:
                    return [("z", False, "rank order is not preserved: %s with %s" % (r[0], _env(r[1])), None)]
                unknown = unknown or "rank order of values %d, %d: %r is not (x%d - x%d) / deviation in form" % (i + 1, j + 1, d, i + 1, j + 1)
        if unknown:
            return [("z", False, "", unknown)]
        return [("z", True, "", None)]

    run_states(at, rows, tr)
    tr.done("%d generic values, every non-constant weak order%s" % (n, (" (column 1 of 3-column rows, filterZeroValues=%s%s)" % (zero_filter, ", all values positive" if zero_filter else "")) if speaker else ""))


def znorm_window_table(rep, n, windows=(3,)):
    """znormWindowFilter on n generic values: element i is the z-score of element i within its window (the window of
    the median filter: floor(window/2) neighbours on either side, edge values repeated when padding is on, the element
    left unchanged near the edges when it is off).  With filterZeroValues the non-positive values stay where they are,
    as 0.0, and the windows run over the remaining values only."""
    from fractions import Fraction

    idx = common.ctx()
    fn = idx.get("utilities.my_math:znormWindowFilter")
    rep.functions.add(fn.qual)
    at = Atoms()
    at.const(0, "0")
    xs = [at.var("x%d" % i) for i in range(1, n + 1)]
    tr = TableRun(rep, "M-znorm-window", fn.short, fn.loc)

    def zscores(vals, w, pad):
        """-> list of Lin, or None when some window is constant (deviation 0: nothing is promised)"""
        off = w // 2
        m = len(vals)
        out = []
        for i in range(m):
            if pad:
                win = [vals[min(max(i + j, 0), m - 1)] for j in range(-off, off + 1)]
            elif i - off >= 0 and i + off < m:
                win = [vals[i + j] for j in range(-off, off + 1)]
            else:
                out.append(vals[i])
                continue
            if len(win) < 2:
                return None
            mean, var = _sample_sd(win)
            out.append((win, mean, var))
        return out

    def rows(st):
        out = []
        for w in windows:
            for pad in (True, False):
                for fz in (False, True):
                    mode = (w, pad, fz)
                    pos = [st.signs(x) == frozenset([1]) for x in xs]
                    if fz and not all(len(st.signs(x)) == 1 for x in xs):
                        out.append((mode, False, "", NeedSplit(xs[[len(st.signs(x)) == 1 for x in xs].index(False)], "sign of a value")))
                        continue
                    kept = [x for x, p_ in zip(xs, pos) if p_] if fz else list(xs)
                    spec = zscores(kept, w, pad) if kept else []
                    I = Interp(idx, st, overrides=default_overrides())
                    try:
                        got = I.call_function(fn, [Lst(list(xs)), Lin.num(w), pad, fz], {})
                        items = [I.num(v) for v in I.iterate(got)]
                    except PyRaise as e:
                        # a constant window has deviation 0; fewer than two values have none
                        const_win = spec is None or any(isinstance(z, tuple) and all(st.signs(v - z[0][0]) == frozenset([0]) for v in z[0]) for z in spec)
                        out.append((mode, True, "dontcare", None) if const_win else (mode, False, "raises %s although every window has a positive deviation" % e.name, None))
                        continue
                    except Undecided as e:
                        out.append((mode, False, "", e if type(e).__name__ == "NeedSplit" else str(e)))
                        continue
                    if spec is None or any(isinstance(z, tuple) and all(st.signs(v - z[0][0]) == frozenset([0]) for v in z[0]) for z in spec):
                        out.append((mode, True, "dontcare", None))
                        continue
                    want = []
                    it = iter(spec)
                    for x, p_ in zip(xs, pos):
                        if fz and not p_:
                            want.append(Lin.num(0))
                            continue
                        z = next(it)
                        if isinstance(z, tuple):
                            win, mean, var = z
                            centre = win[len(win) // 2]
                            want.append((centre - mean).over(Lin.apply("sqrt", var)))
                        else:
                            want.append(z)
                    if len(items) != len(want):
                        out.append((mode, False, "%d values returned for %d" % (len(items), len(want)), None))
                        continue
                    problem = unknown = None
                    for k, (g, wv) in enumerate(zip(items, want)):
                        v = terms.decide(st, xs, g, wv)
                        if v[0] == "differ":
                            problem = "element %d is %r, expected %r; e.g. with %s it is %.6g, not %.6g" % (k, g, wv, _env(v[1]), v[2], v[3])
                            break
                        if v[0] == "unknown":
                            unknown = unknown or "element %d: %s" % (k, v[1])
                    if problem:
                        out.append((mode, False, problem, None))
                    elif unknown:
                        out.append((mode, False, "", unknown))
                    else:
                        out.append((mode, True, "", None))
        return out

    run_states(at, rows, tr)
    tr.done("%d generic values around 0 x window %s x padding x filterZeroValues" % (n, "/".join(map(str, windows))))


def rms_table(rep, n):
    """rms of n generic values is the root of the mean of their squares."""
    from fractions import Fraction

    idx = common.ctx()
    fn = idx.get("utilities.my_math:rms")
    rep.functions.add(fn.qual)
    at = Atoms()
    at.const(0, "0")
    xs = [at.var("x%d" % i) for i in range(1, n + 1)]
    tr = TableRun(rep, "M-rms", fn.short, fn.loc)

    def rows(st):
        I = Interp(idx, st, overrides=default_overrides())
        try:
            got = I.num(I.call_function(fn, [Lst(list(xs))], {}))
        except PyRaise as e:
            return [("rms", False, "raises %s" % e.name, None)]
        except Undecided as e:
            return [("rms", False, "", e if type(e).__name__ == "NeedSplit" else str(e))]
        ms = Lin.num(0)
        for x in xs:
            ms = ms + x.times(x)
        ms = ms.scale(Fraction(1, n))
        want = Lin.apply("sqrt", ms)
        v = terms.decide(st, xs, got, want)
        if v[0] == "differ":
            return [("rms", False, "rms is %r, expected %r; e.g. with %s it is %.6g, not %.6g" % (got, want, _env(v[1]), v[2], v[3]), None)]
        if v[0] == "unknown":
            return [("rms", False, "", v[1])]
        return [("rms", True, "", None)]

    run_states(at, rows, tr)
    tr.done("%d generic values, every weak order around 0" % n)


def listing_table(rep):
    """loadTimeSeriesData on exemplar listings held in a virtual file: with and without the header line, undefined
    markers in either value column, every row in first position once, one-row listings, blank lines, LF and CRLF; undefinedValue None (rows with an undefined value are
    skipped), a number, and a symbolic number (substituted).  Every other row comes back, in order, as a tuple of
    the doubles its numerals denote."""
    from fractions import Fraction
    from ..absint import State

    idx = common.ctx()
    fn = idx.get("pitch_and_intensity:loadTimeSeriesData")
    rep.functions.add(fn.qual)
    st = State([("0", Lin.num(0))], [0])
    body = [["0.01", "120.5", "60.25"], ["0.02", "--undefined--", "61"], ["0.03", "130", "--undefined--"], ["0.04", "1e2", "55.5"],
            ["0.05", "--undefined--", "--undefined--"], ["0.06", "0", "7.25"]]
    single = [["0.5", "66.125"], ["0.75", "--undefined--"], ["1", "70"]]
    n_cases = 0
    pending = None
    # every row takes the first place once (a data row with an undefined marker right after / instead of the header)
    shapes = [(rows0[k:] + rows0[:k], header) for rows0, hdrs in ((body, ("time,pitch,intensity", None)), (single, ("time,intensity", None)))
              for header in hdrs for k in range(len(rows0))] + [([], "time,pitch,intensity"), ([body[1]], None), ([body[4]], None), ([single[1]], None)]
    for rows_, header in shapes:
        for nl in ("\n", "\r\n"):
            for blank in (False, True):
                for uv_name, uv in (("None", None), ("-1.5", Lin.num(Fraction(-3, 2)).as_float()), ("0.0", Lin.num(0).as_float()), ("a symbolic number", Lin.var("U"))):
                    lines = ([header] if header else []) + [",".join(r) for r in rows_]
                    if blank:
                        lines = lines[:2] + [""] + lines[2:] + [""]
                    if not lines or lines[0] == "":
                        continue
                    text = nl.join(lines) + nl
                    what = "%d-row listing, %s, %s, %s, undefinedValue=%s" % (len(rows_), "header" if header else "no header", "CRLF" if nl != "\n" else "LF", "blank lines" if blank else "no blank lines", uv_name)
                    if not rows_ and header is None:
                        continue
                    n_cases += 1
                    I = Interp(idx, st, overrides=default_overrides())
                    I.vfs = {"dir/x.txt": text}
                    want = []
                    for r in rows_:
                        if any("--" in v for v in r[1:]) and uv is None:
                            continue
                        want.append([float(r[0])] + [uv if "--" in v else float(v) for v in r[1:]])
                    try:
                        got = I.call_function(fn, ["dir/x.txt", uv], {})
                        got_rows = [I.iterate(r) for r in I.iterate(got)]
                    except PyRaise as e:
                        if not rows_:
                            continue  # a listing with no data rows: nothing is promised
                        rep.refuted("L-listing", fn.short, what, "raises %s" % e.name, loc=fn.loc)
                        return
                    except Undecided as e:
                        pending = pending or (what, str(e))
                        continue

                    def same(g, w):
                        if isinstance(w, Lin):
                            return isinstance(g, Lin) and g.same(w)
                        return isinstance(g, Lin) and g.is_const() and float(g.const) == w
                    ok = len(got_rows) == len(want) and all(len(g) == len(w) and all(same(a, b) for a, b in zip(g, w)) for g, w in zip(got_rows, want))
                    if not ok:
                        rep.refuted("L-listing", fn.short, what, "rows read %s, expected %s" % ([[float(a.const) if isinstance(a, Lin) and a.is_const() else a for a in g] for g in got_rows], want), loc=fn.loc)
                        return
    if pending:
        rep.undecided("L-listing", fn.short, pending[0], pending[1])
        return
    rep.proved("L-listing", fn.short, "%d exemplar listings x undefinedValue" % n_cases, "every row parsed; undefined values skipped or substituted as requested", loc=fn.loc)


def rows_table(rep):
    """filterTimeSeriesData never changes the number or order of rows, nor any column but the filtered one."""
    idx = common.ctx()
    fn = idx.get("utilities.my_math:filterTimeSeriesData")
    mf = idx.get("utilities.my_math:medianFilter")
    rep.functions.add(fn.qual)
    at = Atoms()
    n = 3
    vals = [at.var("v%d" % i) for i in range(1, n + 1)]
    times = [Lin.var("t%d" % i) for i in range(1, n + 1)]
    tr = TableRun(rep, "M-rows", fn.short, fn.loc)

    def rows(st):
        out = []
        for w in (0, 3):
            for col in (1, 2, 3):  # the filtered column first after the time, in the middle, last
                def code(I, col=col):
                    def row(i):
                        r = [times[i], label_var("a%d" % i), label_var("b%d" % i), label_var("c%d" % i)]
                        r[col] = vals[i]
                        return Tup(r)
                    data = Lst([row(i) for i in range(n)])
                    from ..absint import FuncVal
                    res = I.call_function(fn, [FuncVal(mf), data, Lin.num(w), Lin.num(col), True], {})
                    return {"res": res, "input_len": len(data.items)}
                got, I = run_code(idx, st, code)
                if got.kind != "ok":
                    out.append(compare_outcomes(I, (w, col), got, Outcome("ok", None)))
                    continue
                res = got.value["res"].items
                diff = None
                if len(res) != n:
                    diff = "row count %d, expected %d" % (len(res), n)
                else:
                    for i, row in enumerate(res):
                        r = row.items
                        ok = len(r) == 4 and num_equal(I, r[0], times[i])
                        for c, tag in ((1, "a"), (2, "b"), (3, "c")):
                            if ok and c != col and getattr(r[c], "parts", None) != ("%s%d" % (tag, i),):
                                ok = False
                        if not ok:
                            diff = "row %d lost its time or one of its other columns: %s" % (i, show(row))
                            break
                out.append(((w, col), diff is None, diff or "", None))
        return out

    run_states(at, rows, tr)
    tr.done("3 rows of 4 columns, median filter on column 1, 2 or 3")


def run(rep, tier):
    rep.rule("M-median", "abstract interpretation of medianFilter/_stepFilter on series of generic values (every weak order, lengths 0-4, thorough 5) for window sizes 0-8 and both padding modes against the textbook definition; result has the input's length")
    rep.rule("M-rows", "filterTimeSeriesData keeps the number and order of rows and every column except the filtered one")
    rep.rule("M-measures", "abstract interpretation of getPitchMeasures on 0-3 generic pitch values (0 = unvoiced, otherwise >= 1; thorough 4) with and without zero removal, without and with a median window of 3 or 5: the six results are, as polynomials over the values (squares and products expanded, the root an uninterpreted function of its argument), the mean, max, min, max - min, population variance and its root of the kept values; six zeros when none is kept; with both options: median filter (edge padding) over the whole track first, zero removal second")
    rep.rule("M-jumps", "abstract interpretation of detectPitchErrors on 3 generic (time, pitch) rows x thresholds 0.5, 0.7, 1: a row is reported, at its own time and in order, iff the previous pitch is below threshold x current or above current / threshold (jumps of exactly the ratio: either answer); thresholds outside [0, 1] are rejected")
    rep.rule("M-znorm", "abstract interpretation of znormalizeData and znormalizeSpeakerData (filterZeroValues=False; and True on all-positive values, where there is nothing to filter) on 2-3 generic values (thorough 4), every non-constant weak order: n results; their sum is 0 as a polynomial; their sample variance times deviation^2 equals deviation^2 (sqrt and reciprocal are uninterpreted functions with the rewrite rules sqrt(p)*sqrt(p) = p and t*(1/t) = 1); (z_i - z_j) * deviation = x_i - x_j (rank order).  Where the forms differ a refutation is an assignment of the values, consistent with the case, at which the two closed-form expressions differ; forms that differ but agree at every sample are reported as undecided, never as a violation")
    rep.rule("M-rms", "abstract interpretation of rms on 1-3 generic values: the result is sqrt(mean of squares) as an expression")
    rep.rule("M-znorm-window", "abstract interpretation of znormWindowFilter on 3 (thorough 4) generic values around 0, window 3 (thorough also 5), both padding modes, with and without zero filtering: element i is (x_i - mean(window_i)) / deviation(window_i) as a term, windows as for the median filter; with zero filtering the non-positive values come back as 0.0 at their own positions and the windows run over the remaining values (states with a constant window: nothing promised)")
    rep.not_decided.append("znormalizeSpeakerData with filterZeroValues=True on series containing non-positive values (docstring and code disagree on whether zeros enter the mean; the property does not say)")
    rep.rule("L-listing", "interpretation of loadTimeSeriesData on exemplar listings in a virtual file (header / no header, undefined markers in each column, blank lines, LF / CRLF) x undefinedValue None, -1.5, 0.0, a symbolic number: every row comes back in order as the doubles its numerals denote, rows with an undefined value skipped or substituted as requested (exemplar-based: a finite sample of listings, not every listing)")
    for n in ([0, 1, 2, 3, 4] if tier == "quick" else [0, 1, 2, 3, 4, 5]):
        median_table(rep, n, range(0, 9))
    rows_table(rep)
    for n in ([0, 1, 2, 3] if tier == "quick" else [0, 1, 2, 3, 4]):
        measures_table(rep, n)
    pitch_errors_table(rep, 3 if tier == "quick" else 4)
    for n in ([2, 3] if tier == "quick" else [2, 3, 4]):
        znorm_table(rep, n)
        znorm_table(rep, n, "utilities.my_math:znormalizeSpeakerData")
        znorm_table(rep, n, "utilities.my_math:znormalizeSpeakerData", zero_filter=True)
    for n in (1, 2, 3):
        rms_table(rep, n)
    for n in ([3] if tier == "quick" else [3, 4]):
        znorm_window_table(rep, n, (3,) if n == 3 else (3, 5))
    listing_table(rep)
