"""C20 -- numeric series helpers: the order-statistic and row-preservation clauses only."""

from ..absint import Lin, Lst, PyFunc, Tup, label_var
from ..tables import Atoms, Outcome, TableRun, compare_outcomes, num_equal, run_code, run_spec, run_states, show
from . import common


def median_table(rep, n, windows):
    """medianFilter on a series of n generic values (every weak order), every window size and padding mode."""
    idx = common.ctx()
    fn = idx.get("utilities.my_math:medianFilter")
    rep.functions.add(fn.qual)
    rep.functions.add(idx.get("utilities.my_math:_stepFilter").qual)
    at = Atoms()
    xs = [at.var("x%d" % i) for i in range(1, n + 1)]
    if not xs:
        at.const(0, "0")
    tr = TableRun(rep, "M-median", fn.short, fn.loc)

    def rows(st):
        out = []
        for w in windows:
            for pad in (True, False):
                got, I = run_code(idx, st, lambda I: I.call_function(fn, [Lst(list(xs)), Lin.num(w), pad], {}))

                def spec(O):
                    """C20: element i is the median of element i and its floor(window/2) neighbours on either side,
                    the series extended by its edge values when padding is on, the element left unchanged near the
                    edges when it is off; the result has the input's length."""
                    off = w // 2
                    res = []
                    for i in range(n):
                        if pad:
                            win = [xs[min(max(i + j, 0), n - 1)] for j in range(-off, off + 1)]
                        elif i - off >= 0 and i + off < n:
                            win = [xs[i + j] for j in range(-off, off + 1)]
                        else:
                            res.append(xs[i])
                            continue
                        srt = []
                        for v in win:
                            pos = len(srt)
                            for k, y in enumerate(srt):
                                if O.lt(v, y):
                                    pos = k
                                    break
                            srt.insert(pos, v)
                        res.append(srt[len(srt) // 2])  # window length 2*off+1 is odd
                    return res
                want = run_spec(idx, st, spec)

                def eq(I, g, wv):
                    gi = g.items
                    if len(gi) != len(wv):
                        return "length %d, expected %d (a list of the input's length)" % (len(gi), len(wv))
                    for k, (a, b) in enumerate(zip(gi, wv)):
                        if not num_equal(I, a, b):
                            return "element %d is %r, expected %r" % (k, a, b)
                    return None
                out.append(compare_outcomes(I, (w, "pad" if pad else "nopad"), got, want, eq=eq))
        return out

    run_states(at, rows, tr)
    tr.done("series of %d generic values x windows %s x padding" % (n, list(windows)))


def rows_table(rep):
    """filterTimeSeriesData never changes the number or order of rows, nor any column but the filtered one."""
    idx = common.ctx()
    fn = idx.get("utilities.my_math:filterTimeSeriesData")
    mf = idx.get("utilities.my_math:medianFilter")
    rep.functions.add(fn.qual)
    at = Atoms()
    n = 3
    vals = [at.var("v%d" % i) for i in range(1, n + 1)]
    times = [Lin.var("t%d" % i) for i in range(1, n + 1)]
    tr = TableRun(rep, "M-rows", fn.short, fn.loc)

    def rows(st):
        out = []
        for w in (0, 3):
            def code(I):
                data = Lst([Tup([times[i], label_var("tag%d" % i), vals[i]]) for i in range(n)])
                from ..absint import FuncVal
                res = I.call_function(fn, [FuncVal(mf), data, Lin.num(w), Lin.num(2), True], {})
                return {"res": res, "input_len": len(data.items)}
            got, I = run_code(idx, st, code)
            if got.kind != "ok":
                out.append(compare_outcomes(I, w, got, Outcome("ok", None)))
                continue
            res = got.value["res"].items
            diff = None
            if len(res) != n:
                diff = "row count %d, expected %d" % (len(res), n)
            else:
                for i, row in enumerate(res):
                    r = row.items
                    if len(r) != 3 or not num_equal(I, r[0], times[i]) or getattr(r[1], "parts", None) != ("tag%d" % i,):
                        diff = "row %d lost its time or its other columns: %s" % (i, show(row))
                        break
            out.append((w, diff is None, diff or "", None))
        return out

    run_states(at, rows, tr)
    tr.done("3 rows (time, tag, value), median filter on the value column")


def run(rep, tier):
    rep.rule("M-median", "abstract interpretation of medianFilter/_stepFilter on series of generic values (every weak order, lengths 0-4, thorough 5) for window sizes 0-8 and both padding modes against the textbook definition; result has the input's length")
    rep.rule("M-rows", "filterTimeSeriesData keeps the number and order of rows and every column except the filtered one")
    rep.not_decided.append("z-normalisation (mean 0, sd 1, rank order), rms, getPitchMeasures (mean, range, variance, deviation), detectPitchErrors (ratio jumps): numerical definitions outside the linear order-type domain")
    rep.not_decided.append("loadTimeSeriesData (file parsing of Praat listings)")
    for n in ([0, 1, 2, 3, 4] if tier == "quick" else [0, 1, 2, 3, 4, 5]):
        median_table(rep, n, range(0, 9))
    rows_table(rep)
