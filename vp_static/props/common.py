"""Shared context for property checkers (one index / effect analysis per process)."""

import ast

from ..effects import Effects, FuncAnalysis
from ..index import Index, Vanished, norm
from ..ordering import Ordering

_CTX = {}


def ctx():
    if "idx" not in _CTX:
        idx = Index()
        _CTX["idx"] = idx
    return _CTX["idx"]


def effects():
    if "eff" not in _CTX:
        _CTX["eff"] = Effects(ctx())
    return _CTX["eff"]


def ordering():
    if "ord" not in _CTX:
        _CTX["ord"] = Ordering(ctx(), effects())
    return _CTX["ord"]


PURE_SET = [
    # tier level
    "TextgridTier.__len__", "TextgridTier.__iter__", "TextgridTier.__eq__", "TextgridTier.entries",
    "TextgridTier.appendTier", "TextgridTier.find", "TextgridTier.new", "TextgridTier.union",
    "IntervalTier.timestamps", "IntervalTier.crop", "IntervalTier.dejitter", "IntervalTier.difference",
    "IntervalTier.editTimestamps", "IntervalTier.eraseRegion", "IntervalTier.getValuesInIntervals",
    "IntervalTier.getNonEntries", "IntervalTier.insertSpace", "IntervalTier.intersection",
    "IntervalTier.mergeLabels", "IntervalTier.morph", "IntervalTier.validate", "IntervalTier._validate",
    "PointTier.timestamps", "PointTier.crop", "PointTier.dejitter", "PointTier.editTimestamps",
    "PointTier.getValuesAtPoints", "PointTier.eraseRegion", "PointTier.insertSpace", "PointTier.validate",
    # textgrid level
    "Textgrid.__len__", "Textgrid.__iter__", "Textgrid.__eq__", "Textgrid.tierNames", "Textgrid.tiers",
    "Textgrid.appendTextgrid", "Textgrid.crop", "Textgrid.eraseRegion", "Textgrid.editTimestamps",
    "Textgrid.getTier", "Textgrid.insertSpace", "Textgrid.mergeTiers", "Textgrid.new", "Textgrid.save",
    "Textgrid.validate",
    "data_classes.textgrid:_tgToDictionary",
]

MUTATORS = [
    "IntervalTier.insertEntry", "IntervalTier.deleteEntry", "PointTier.insertEntry", "PointTier.deleteEntry",
    "Textgrid.addTier", "Textgrid.removeTier", "Textgrid.renameTier", "Textgrid.replaceTier",
]


def write_records(fn):
    """Writes of fn (own and through callees) that target the receiver or a parameter."""
    eff = effects()
    fa = FuncAnalysis(eff, fn)
    s = fa.run()
    bad = [w for w in s.writes if any(r == "self" or r == "self*" or r.startswith("p:") for r in w.roots)]
    return s, bad


def rule_purity(rep, specs, rule="A1-purity"):
    """A1: the listed functions reach no write to their receiver or to an argument."""
    idx = ctx()
    for spec in specs:
        try:
            fn = idx.get(spec)
        except Exception as e:
            rep.vanished(rule, spec, "", str(e))
            continue
        rep.functions.add(fn.qual)
        s, bad = write_records(fn)
        if not bad and not s.unknown_writes:
            rep.proved(rule, fn.short, "no reachable write to receiver/arguments",
                       "effect summary: mutates=%s" % sorted(s.mutates), nontrivial=any(isinstance(n, (ast.Call, ast.Assign)) for n in ast.walk(fn.node)))
        for w in bad:
            tgt = ", ".join(sorted(r for r in w.roots if r not in ("fresh", "imm")))
            chain = (" through " + "; ".join(w.chain)) if w.chain else ""
            rep.refuted(rule, fn.short, w.text,
                        "write targets %s%s (function is documented as leaving receiver and arguments unchanged)" % (tgt, chain),
                        loc=fn.where(w.node))
        for w in s.unknown_writes:
            if w in bad:
                continue
            rep.undecided(rule, fn.short, w.text, "write through a value of unknown origin", loc=fn.where(w.node))


def tables_clean(rep, where: str) -> bool:
    """True if the interpretive tables already run for function `where` recorded at least one obligation and no
    refuted / undecided one (they include the failure-injection rows: receiver unchanged after every raise)."""
    obs = [o for o in rep.obligations if o.where == where and o.rule != "B1-atomic"]
    return bool(obs) and all(o.verdict == "PROVED" for o in obs)


def rule_atomic(rep, specs, rule="B1-atomic", semantic=False):
    """B1: in the listed mutators no may-raise site follows a write to receiver state.

    The structural argument (ordering walk with rollback / provenance idioms) is a *proof* when it succeeds.  When
    it cannot be established for a site -- typically because a refactoring moved the rollback or the lookup into a
    helper the walk does not see through -- and semantic=True, the verdict is taken from the failure-injection
    tables of the same mutator (interpretation: after every raise, in every abstract state and mode, the receiver
    is exactly as before).  A site is reported only if neither argument holds."""
    idx, o = ctx(), ordering()
    for spec in specs:
        try:
            fn = idx.get(spec)
        except Exception as e:
            rep.vanished(rule, spec, "", str(e))
            continue
        rep.functions.add(fn.qual)
        w = o.analyse(fn, {})
        if not w.self_writes:
            rep.refuted(rule + "/writes", fn.short, "no receiver write found", "a mutator that writes nothing cannot be analysed for atomicity (anchor changed?)")
        seen = set()
        after = {id(ev.site) for ev in w.events}
        for s in w.sites:
            if id(s) in after:
                continue
            k = (s.kind, s.text, tuple(sorted(s.exc)))
            if k in seen:
                continue
            seen.add(k)
            rep.proved(rule, fn.short, s.text, "may-raise site [%s] is reached before any receiver write" % s.kind, loc=fn.where(s.node))
        for ev in w.events:
            s = ev.site
            if ev.exempt:
                rep.proved(rule, fn.short, s.text, "after write '%s' but exempt: %s" % (str(ev.written)[:60], ev.exempt), loc=fn.where(s.node))
                continue
            gap = getattr(s, "rollback_gap", None)
            detail = getattr(s, "detail", "")
            wit = "may raise %s AFTER the receiver was written by '%s'%s%s" % (
                "/".join(sorted(s.exc)), str(ev.written)[:70],
                (" -- " + gap) if gap else "",
                (" -- raise sites: " + detail) if detail else (" via " + " -> ".join(s.via) if s.via else ""),
            )
            if semantic and tables_clean(rep, fn.short):
                rep.proved(rule, fn.short, s.text, "not established structurally (%s); decided by the failure-injection tables of %s: in no abstract state and mode does a raising call leave the receiver changed" % (wit[:160], fn.short), loc=fn.where(s.node))
            elif s.kind == "lookup" and not gap:
                rep.undecided(rule, fn.short, s.text, "lookup after write, provenance of the key not established: " + wit, loc=fn.where(s.node))
            else:
                rep.refuted(rule, fn.short, s.text, wit, loc=fn.where(s.node))


def find_open_for_write(fn):
    """Return list of (with_stmt, item) where item opens a path for writing."""
    out = []
    for n in ast.walk(fn.node):
        if isinstance(n, ast.With):
            for it in n.items:
                c = it.context_expr
                if isinstance(c, ast.Call) and norm(c.func) in ("io.open", "open", "wave.open"):
                    mode = None
                    if len(c.args) > 1 and isinstance(c.args[1], ast.Constant):
                        mode = c.args[1].value
                    for k in c.keywords:
                        if k.arg == "mode" and isinstance(k.value, ast.Constant):
                            mode = k.value.value
                    if isinstance(mode, str) and ("w" in mode or "a" in mode or "+" in mode):
                        out.append((n, it))
    return out


def rule_save_order(rep, specs, rule="B2-save-order"):
    """B2: everything that can fail precedes the open-for-write; the with-body only writes a ready string."""
    idx = ctx()
    for spec in specs:
        try:
            fn = idx.get(spec)
        except Exception as e:
            rep.vanished(rule, spec, "", str(e))
            continue
        rep.functions.add(fn.qual)
        opens = find_open_for_write(fn)
        raw_opens = [n for n in ast.walk(fn.node) if isinstance(n, ast.Call) and norm(n.func) in ("io.open", "open") and n not in [it.context_expr for _, it in opens]
                     and any(isinstance(a, ast.Constant) and isinstance(a.value, str) and "w" in a.value for a in n.args[1:2])]
        if raw_opens:
            for c in raw_opens:
                rep.refuted(rule, fn.short, norm(c), "destination opened for writing outside a with-statement whose body is only fd.write(<ready string>)", loc=fn.where(c))
        if len(opens) != 1:
            if not raw_opens:
                rep.vanished(rule, fn.short, "with open(fn, 'w')", "expected exactly one open-for-write with-statement, found %d" % len(opens))
            continue
        w, item = opens[0]
        fd = item.optional_vars.id if isinstance(item.optional_vars, ast.Name) else None
        # the with must be a top-level statement of the function, and the last one that does anything
        body = fn.node.body
        if w not in body:
            rep.refuted(rule, fn.short, norm(item.context_expr), "open-for-write is nested inside another statement; cannot establish that all failing work precedes it", loc=fn.where(w))
            continue
        pos = body.index(w)
        bound_before = set(fn.all_params)
        for st in body[:pos]:
            for n in ast.walk(st):
                if isinstance(n, ast.Name) and isinstance(n.ctx, ast.Store):
                    bound_before.add(n.id)
        ok = True
        for st in w.body:
            good = (
                isinstance(st, ast.Expr) and isinstance(st.value, ast.Call) and isinstance(st.value.func, ast.Attribute)
                and isinstance(st.value.func.value, ast.Name) and st.value.func.value.id == fd and st.value.func.attr == "write"
                and len(st.value.args) == 1 and isinstance(st.value.args[0], (ast.Name, ast.Constant))
                and (not isinstance(st.value.args[0], ast.Name) or st.value.args[0].id in bound_before)
            )
            if good:
                rep.proved(rule, fn.short, norm(st), "with-body statement only writes a value computed before the open")
            else:
                ok = False
                rep.refuted(rule, fn.short, norm(st)[:120], "work is done while the destination is already open (and truncated): if it raises, an existing file is lost", loc=fn.where(st))
        for st in body[pos + 1:]:
            if any(isinstance(n, (ast.Call, ast.Raise)) for n in ast.walk(st)):
                rep.refuted(rule, fn.short, norm(st)[:120], "call after the file was written", loc=fn.where(st))
        # the open's own arguments must be plain
        c = item.context_expr
        for a in list(c.args) + [k.value for k in c.keywords]:
            if any(isinstance(n, ast.Call) for n in ast.walk(a)):
                rep.refuted(rule, fn.short, norm(c), "argument of open() contains a call", loc=fn.where(w))
        calls_before = sum(1 for st in body[:pos] for n in ast.walk(st) if isinstance(n, ast.Call))
        rep.proved(rule, fn.short, norm(c), "%d call(s) (validation, conversion, serialisation) all precede the open-for-write" % calls_before)


MEMO_DECORATORS = ("cached_property", "lru_cache", "cache", "functools.cached_property", "functools.lru_cache", "functools.cache")


def rule_no_memo(rep, rule="V-fresh"):
    """Derived views (timestamps, entries, tierNames, ...) are recomputed from the current state at every access:
    no method or property of a data class carries a memoising decorator.  Tiers and textgrids are mutable in place
    (insertEntry, deleteEntry, addTier, ...), so a cached view goes stale after the first mutation."""
    idx = ctx()
    n = 0
    for fn in idx.all_functions():
        if fn.cls is None:
            continue
        n += 1
        decos = [norm(d.func) if isinstance(d, ast.Call) else norm(d) for d in fn.node.decorator_list]
        memo = [d for d in decos if d in MEMO_DECORATORS]
        if memo:
            rep.refuted(rule, fn.short, "@" + memo[0], "a memoised view of a mutable object: after insertEntry/deleteEntry/addTier the cached value no longer reflects the current entries (e.g. a reference tier's timestamps used by dejitter)", loc=fn.loc)
    rep.check(n >= 60, rule, "data classes", "%d methods and properties inspected" % n, ok="none is memoised", bad="fewer methods than expected were found (%d)" % n)
