"""C09 -- time shifting and concatenation move every entry by exactly the stated amount."""

from .. import specs
from ..absint import Lin
from . import common
from .tierops import tier_table

REPORTING = ["silence", "warning", "error"]


def shift(kind, k):
    def f(at, ents):
        off = Lin.var("off")
        at.const(0, "0")
        # the quantities the operation compares: off+start / off+end of every entry against 0 and the old span
        for i in range(1, k + 1):
            if kind == "interval":
                at.derived_atom("off+s%d" % i, off + Lin.var("s%d" % i))
                at.derived_atom("off+e%d" % i, off + Lin.var("e%d" % i))
            else:
                at.derived_atom("off+t%d" % i, off + Lin.var("t%d" % i))
        return {"off": off}
    return f


def run(rep, tier):
    rep.rule("T7-editTimestamps", "abstract interpretation of IntervalTier/PointTier.editTimestamps over every weak order of the shifted boundaries against 0 and the old span, for the three reporting modes, against the spec table (entries, span, raised error, printed warning)")
    ks = [0, 1, 2] if tier == "quick" else [0, 1, 2, 3]
    for kind in ("interval", "point"):
        for k in ks:
            tier_table(rep, "T7-editTimestamps-" + kind, "editTimestamps", kind, k, shift(kind, k), REPORTING,
                       lambda I, t, sy, mode: I.call_value(I.getattr(t, "editTimestamps"), [sy["off"], mode], {}),
                       lambda O, ents, m, M, sy, mode, kind=kind: specs.edit_timestamps(O, kind, ents, m, M, sy["off"], mode),
                       "%d generic entries x offset" % k, seams=(kind == "interval"), as_atoms=False)
