"""C09 -- time shifting and concatenation move every entry by exactly the stated amount."""

from .. import specs
from ..absint import Lin
from . import common
from .tierops import tier_table

REPORTING = ["silence", "warning", "error"]


def shift(kind, k):
    def f(at, ents):
        off = Lin.var("off")
        at.const(0, "0")
        # the quantities the operation compares: off+start / off+end of every entry against 0 and the old span
        for i in range(1, k + 1):
            if kind == "interval":
                at.derived_atom("off+s%d" % i, off + Lin.var("s%d" % i))
                at.derived_atom("off+e%d" % i, off + Lin.var("e%d" % i))
            else:
                at.derived_atom("off+t%d" % i, off + Lin.var("t%d" % i))
        return {"off": off}
    return f


def run(rep, tier):
    rep.rule("T7-editTimestamps", "abstract interpretation of IntervalTier/PointTier.editTimestamps over every weak order of the shifted boundaries against 0 and the old span, for the three reporting modes, against the spec table (entries, span, raised error, printed warning)")
    ks = [0, 1, 2] if tier == "quick" else [0, 1, 2, 3]
    for kind in ("interval", "point"):
        for k in ks:
            tier_table(rep, "T7-editTimestamps-" + kind, "editTimestamps", kind, k, shift(kind, k), REPORTING,
                       lambda I, t, sy, mode: I.call_value(I.getattr(t, "editTimestamps"), [sy["off"], mode], {}),
                       lambda O, ents, m, M, sy, mode, kind=kind: specs.edit_timestamps(O, kind, ents, m, M, sy["off"], mode),
                       "%d generic entries x offset" % k, seams=(kind == "interval"), as_atoms=False)


# ------------------------------------------------------------------------------- concatenation
from ..absint import Lst, PyRaise, Tup, label_var  # noqa: E402
from ..tables import (Atoms, Outcome, TableRun, build_tier, compare_outcomes, declare_tier, num_equal, read_tier,  # noqa: E402
                      run_code, run_spec, run_states, tier_equal)
from .tgops import build_tg, read_tg  # noqa: E402


def append_tier_table(rep, kindA, kindB, ka, kb):
    """C09: appending tier B to A yields A's entries unchanged followed by B's entries shifted by A's end time,
    a span ending at the sum of both end times."""
    idx = common.ctx()
    fn = idx.get("TextgridTier.appendTier")
    rep.functions.add(fn.qual)
    at = Atoms()
    A, am, aM = declare_tier(at, ka, kindA, prefix="a", as_atoms=False, span_atoms=False)
    B, bm, bM = declare_tier(at, kb, kindB, prefix="b", as_atoms=False, span_atoms=False)
    at.fact_le(Lin.num(0), am)  # timestamps are non-negative
    at.fact_le(Lin.num(0), bm)
    # appendTier shifts B with reporting silenced, but still compares the shifted ends with B's old span
    at.var("bM")
    for i in range(1, kb + 1):
        nm = ("be%d" % i) if kindB == "interval" else ("bt%d" % i)
        at.derived_atom("aM+" + nm, aM + Lin.var(nm))
    tr = TableRun(rep, "T7-appendTier", fn.short, fn.loc)

    def rows(st):
        def code(I):
            ta = build_tier(I, kindA, "A", A, am, aM)
            tb = build_tier(I, kindB, "B", B, bm, bM)
            res = I.call_value(I.getattr(ta, "appendTier"), [tb], {})
            d = read_tier(I, res)
            d["printed"] = I.prints > 0
            return d
        got, I = run_code(idx, st, code)

        def spec(O):
            if kindA != kindB:
                O.raise_("ANY")
            if kindA == "interval":
                shifted = [(aM + s, aM + e, l) for s, e, l in B]
            else:
                shifted = [(aM + t, l) for t, l in B]
            return {"class": "IntervalTier" if kindA == "interval" else "PointTier", "entries": list(A) + shifted,
                    "min": am, "max": aM + bM, "name": "A"}
        want = run_spec(idx, st, spec)
        row = compare_outcomes(I, "appendTier", got, want)
        if row[1] and got.kind == "ok" and got.value.get("printed"):
            row = ("appendTier", False, "appendTier printed a warning (reporting must be silenced while shifting)", None)
        return [row]

    run_states(at, rows, tr)
    tr.done("A (%s, %d entries) . B (%s, %d entries)" % (kindA, ka, kindB, kb))


def append_textgrid_table(rep):
    """C09: '... and the tier set documented for onlyMatchingNames'."""
    idx = common.ctx()
    fn = idx.get("Textgrid.appendTextgrid")
    rep.functions.add(fn.qual)
    at = Atoms()
    am, aM = Lin.var("am"), Lin.var("aM")
    bm, bM = Lin.var("bm"), Lin.var("bM")
    at.fact_le(Lin.num(0), am)
    at.fact_le(am, aM)
    at.fact_le(Lin.num(0), bm)
    at.fact_le(bm, bM)
    at.var("aM")  # one atom so that the (single) abstract state exists; everything else follows from the facts
    spec_a = [("interval", "X", 1), ("point", "Y", 1), ("interval", "W", 0), ("interval", "U", 1)]
    spec_b = [("interval", "X", 1), ("point", "Z", 1), ("point", "V", 0), ("interval", "U", 0)]  # V: empty, only in B; U: empty in B, filled in A

    def mk(prefix, spec, lo, hi):
        out = []
        for kind, name, k in spec:
            ents, _, _ = declare_tier(at, k, kind, prefix=prefix + name, span=False, as_atoms=False)
            if ents:
                first = prefix + name + ("s1" if kind == "interval" else "t1")
                last = prefix + name + ("e%d" % k if kind == "interval" else "t%d" % k)
                at.fact_le(lo, Lin.var(first))
                at.fact_le(Lin.var(last), hi)
            out.append((kind, name, ents))
        return out
    TA = mk("a", spec_a, am, aM)
    TB = mk("b", spec_b, bm, bM)
    tr = TableRun(rep, "T7-appendTextgrid", fn.short, fn.loc)

    def rows(st):
        out = []
        for only in (True, False):
            def code(I):
                tga, _ = build_tg(I, TA, am, aM)
                tgb, _ = build_tg(I, TB, bm, bM)
                I.prints = 0
                res = I.call_value(I.getattr(tga, "appendTextgrid"), [tgb, only], {})
                d = read_tg(I, res)
                d["printed"] = I.prints > 0
                after = read_tg(I, tga)
                d["unchangedA"] = [str(n) for n in after["names"]] == [n for _, n, _ in TA] and all(
                    tier_equal(I, t, {"entries": list(e)}, check_span=False) is None for t, (_, _, e) in zip(after["tiers"], TA))
                return d
            got, I = run_code(idx, st, code)
            if got.kind != "ok":
                out.append(compare_outcomes(I, only, got, Outcome("ok", None)))
                continue
            v = got.value
            namesA = [n for _, n, _ in TA]
            namesB = [n for _, n, _ in TB]
            if only:
                exp_names = [n for n in namesA if n in namesB]
            else:
                exp_names = namesA + [n for n in namesB if n not in namesA]
            diff = None
            if not v["unchangedA"]:
                diff = "the receiver textgrid was modified by appendTextgrid"
            elif [str(n) for n in v["names"]] != exp_names:
                diff = "tier names %s, expected %s" % (v["names"], exp_names)
            elif not (num_equal(I, v["min"], am) and num_equal(I, v["max"], aM + bM)):
                diff = "span (%r, %r), expected (%r, %r): a span ending at the sum of both end times" % (v["min"], v["max"], am, aM + bM)
            else:
                ea = {n: e for _, n, e in TA}
                eb = {n: (k, e) for k, n, e in TB}
                for t in v["tiers"]:
                    n = str(t["name"])
                    exp = list(ea.get(n, []))
                    if n in eb:
                        k, e = eb[n]
                        exp += [((aM + x[0], aM + x[1], x[2]) if k == "interval" else (aM + x[0], x[1])) for x in e]
                    d = tier_equal(I, t, {"entries": exp}, check_span=False)
                    if d:
                        diff = "tier %s: %s (expected A's entries unchanged followed by B's entries shifted by A's end time)" % (n, d)
                        break
            out.append((only, diff is None, diff or "", None))
        return out

    run_states(at, rows, tr)
    tr.done("A{X,Y,W(empty),U} . B{X,Z,V(empty),U(empty)}, onlyMatchingNames in {True, False}")


_run_shift = run


def run(rep, tier):  # noqa: F811
    _run_shift(rep, tier)
    rep.rule("T7-appendTier", "abstract interpretation of appendTier on two generic tiers: A's entries then B's shifted by A's end, span (A.min, A.max + B.max); type mismatch -> ArgumentError; no warning")
    rep.rule("T7-appendTextgrid", "abstract interpretation of appendTextgrid on two generic textgrids with equal, A-only and B-only tier names: tier set per onlyMatchingNames, entries concatenated with B shifted by A's end, span ending at the sum of both ends")
    rep.not_decided.append("'+x then -x restores every entry to within rounding' (a numeric closeness claim)")
    for ka, kb in ([(0, 0), (1, 0), (0, 1), (1, 1), (2, 1), (1, 2)] if tier == "quick" else [(0, 0), (1, 0), (0, 1), (1, 1), (2, 1), (1, 2), (2, 2)]):
        append_tier_table(rep, "interval", "interval", ka, kb)
        append_tier_table(rep, "point", "point", ka, kb)
    append_tier_table(rep, "interval", "point", 1, 1)
    append_tier_table(rep, "point", "interval", 1, 1)
    append_textgrid_table(rep)
    from .c12 import lifting
    rep.rule("L-lifting-editTimestamps", "Textgrid.editTimestamps on a generic textgrid (including an empty tier): per-tier result equals the tier-level editTimestamps; errors as for the tiers; something is reported (printed) iff a tier-level operation reports it -- nothing in 'silence' mode")
    for shape in ([("interval", "I", 1), ("point", "E", 0)], [("interval", "E", 0), ("point", "P", 1)]):
        lifting(rep, shape, only="editTimestamps")
