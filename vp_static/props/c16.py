"""C16 -- in-memory audio edits are sample-exact and sample-aligned (R-F)."""

import ast
from fractions import Fraction

from ..index import norm
from . import common


def index_time(cls, m, e, depth=0):
    """The time expression (text, in terms of m's parameters) a byte index was computed from by _getIndexAtTime,
    following locals, tuple unpacking and private helpers of the same class; None if it is not such an index."""
    if depth > 5 or e is None:
        return None
    if isinstance(e, ast.Call) and norm(e.func) == "self._getIndexAtTime" and e.args:
        return norm(e.args[0])
    if isinstance(e, ast.Name):
        for n in ast.walk(m.node):
            if isinstance(n, ast.Assign) and len(n.targets) == 1:
                t = n.targets[0]
                if isinstance(t, ast.Name) and t.id == e.id:
                    return index_time(cls, m, n.value, depth + 1)
                if isinstance(t, ast.Tuple):
                    for k, el in enumerate(t.elts):
                        if isinstance(el, ast.Name) and el.id == e.id:
                            return _tuple_elt_time(cls, m, n.value, k, depth + 1)
        return None
    return None


def _tuple_elt_time(cls, m, value, k, depth):
    if isinstance(value, ast.Tuple) and k < len(value.elts):
        return index_time(cls, m, value.elts[k], depth)
    if isinstance(value, ast.Call) and isinstance(value.func, ast.Attribute) and norm(value.func.value) == "self":
        h = cls.lookup(value.func.attr)
        if h is None:
            return None
        rets = [n for n in ast.walk(h.node) if isinstance(n, ast.Return) and isinstance(n.value, ast.Tuple)]
        if len(rets) != 1 or k >= len(rets[0].value.elts):
            return None
        t = index_time(cls, h, rets[0].value.elts[k], depth)
        if t is None:
            return None
        # map the helper's parameter back to the call's argument
        if t in h.params:
            i = h.params.index(t)
            if i < len(value.args):
                return norm(value.args[i])
            for kw in value.keywords:
                if kw.arg == t:
                    return norm(kw.value)
            return None
        return t
    return None


def strip_float(e):
    """float(x) -> x (a no-op wrapper for this purpose)."""
    while isinstance(e, ast.Call) and norm(e.func) == "float" and len(e.args) == 1:
        e = e.args[0]
    return e


def factors(e):
    e = strip_float(e)
    if isinstance(e, ast.BinOp) and isinstance(e.op, ast.Mult):
        return factors(e.left) + factors(e.right)
    return [norm(e)]


def is_sample_count(e, rate_names, time_names=None):
    """round(<time> * <frame rate>) -- the nearest sample index / count for a time in seconds."""
    e = strip_float(e)
    if not (isinstance(e, ast.Call) and norm(e.func) == "round" and len(e.args) == 1):
        return False, "not round(...)"
    fs = factors(e.args[0])
    rates = [f for f in fs if f in rate_names]
    if len(rates) != 1:
        return False, "round() of %s: exactly one frame-rate factor expected" % " * ".join(fs)
    rest = [f for f in fs if f not in rate_names]
    if len(rest) != 1:
        return False, "round() of %s: a factor other than time and frame rate is inside the rounding" % " * ".join(fs)
    return True, rest[0]


def run(rep, tier):
    from . import audiobuf

    rep.rule("W-buf", "Wav.getFrames / deleteSegment / insert / replaceSegment / concatenate / getSubwav / duration interpreted over an abstract byte buffer (n samples of a concrete exemplar width, sample indices symbolic): the result is exactly the addressed samples, every cut is a whole number of samples, every time becomes a sample index through round(time * frameRate) and nothing else, queries leave the frames alone")
    rep.rule("F-file", "readFramesAtTime interpreted on a recording file handle: positioned unconditionally at round(frameRate * start) before the single read")
    rep.rule("F3-pack", "convertToBytes / convertFromBytes interpreted with struct.pack/unpack as recorders: little-endian, one code of the sample's width per sample, samples passed through unchanged")
    rep.not_decided.append("what the wave module reads and writes (file round trip); banker's rounding at exact half samples; the number of frames read is round(frameRate*(end-start)), which may differ by one from the in-memory cut for times off the sample grid")
    audiobuf.wav_table(rep)
    audiobuf.file_reads(rep)
    audiobuf.pack_unpack(rep)
    idx = common.ctx()
    audio = idx.module("audio")
    tbl = audio.const_nodes.get("sampleWidthDict")
    rep.check(tbl is not None, "F3-pack", "audio.sampleWidthDict", "width table present", ok="sampleWidthDict is defined (its codes are exercised per width above)", bad="sampleWidthDict vanished")
    q = audio.classes.get("QueryWav")
    if q is not None and "duration" in q.methods:
        from ..absint import Interp, Lin, MockObj, PyFunc, PyRaise, State, Tup
        from ..index import Undecided
        from ..tables import default_overrides

        qd = q.methods["duration"]
        st = State([("0", Lin.num(0))], [0])
        I = Interp(idx, st, overrides=default_overrides())
        handle = MockObj({"getparams": PyFunc(lambda I_: Tup([Lin.num(1), Lin.num(2), Lin.num(8), Lin.var("n"), "NONE", "x"]))}, "wave handle")
        I.builtin_overrides = {"wave.open": lambda I_, a, k: handle}
        try:
            obj = I.instantiate(q, ["f.wav"], {})
            d = I.getattr(obj, "duration")
            rep.check(isinstance(d, Lin) and d.same(Lin.var("n").scale(Fraction(1, 8))), "F-file", qd.short, "QueryWav.duration", ok="frames / rate", bad="QueryWav.duration is %r, not nframes / frameRate" % (d,))
        except (PyRaise, Undecided) as e:
            rep.undecided("F-file", qd.short, "QueryWav.duration", str(e))


def run_syntactic(rep, tier):
    idx = common.ctx()
    rep.rule("F1-aligned", "every slice bound applied to Wav.frames is k*sampleWidth with k a rounded sample index (abstract value ALIGNED), computed by _getIndexAtTime only")
    rep.rule("F1-nearest", "every time->sample conversion is round(time * frameRate) (nearest sample), with nothing else inside the rounding")
    rep.rule("F2-partition", "deleteSegment = frames[:i] + frames[j:], insert = frames[:i] + new + frames[i:] with the same i, getFrames = frames[i:j], replaceSegment = deleteSegment ; insert at the same start, concatenate = +=")
    rep.rule("F3-pack", "convertFromBytes / convertToBytes use the same width->code table and the same byte-order prefix")
    rep.rule("F4-seek", "readFramesAtTime always positions the file (setpos) before it reads; duration formulas are bytes/width/rate and frames/rate")
    rep.not_decided.append("what the wave module reads and writes (file round trip); banker's rounding at exact half samples")
    audio = idx.module("audio")
    wav = audio.classes.get("Wav")
    if wav is None:
        rep.vanished("F1-aligned", "audio.Wav", "class Wav")
        return

    # ---- _getIndexAtTime : ALIGNED
    gi = wav.methods.get("_getIndexAtTime")
    if gi is None:
        rep.vanished("F1-aligned", "Wav._getIndexAtTime")
        return
    rep.functions.add(gi.qual)
    rets = [n for n in ast.walk(gi.node) if isinstance(n, ast.Return)]
    ok = False
    why = "unexpected shape"
    if len(rets) == 1 and isinstance(rets[0].value, ast.BinOp) and isinstance(rets[0].value.op, ast.Mult):
        l, r = rets[0].value.left, rets[0].value.right
        w = "self.sampleWidth"
        cnt = r if norm(l) == w else (l if norm(r) == w else None)
        if cnt is not None:
            ok, why = is_sample_count(cnt, {"self.frameRate"})
            if ok and why != gi.params[0]:
                ok, why = False, "rounds %s, not the requested time" % why
        else:
            why = "not <rounded sample index> * self.sampleWidth"
    elif len(rets) == 1:
        why = "the byte index is %s: rounding happens after the multiplication by the sample width, so the index can fall inside a sample" % norm(rets[0].value)
    rep.check(ok, "F1-aligned", gi.short, norm(rets[0].value) if rets else "return", ok="round(time * frameRate) * sampleWidth: a whole number of samples", bad=why, loc=gi.loc)

    # ---- every slice of self.frames in Wav uses indices derived from _getIndexAtTime
    nslices = 0
    for m in wav.methods.values():
        for n in ast.walk(m.node):
            if isinstance(n, ast.Subscript) and norm(n.value) == "self.frames" and isinstance(n.slice, ast.Slice):
                nslices += 1
                rep.functions.add(m.qual)
                bounds = [b for b in (n.slice.lower, n.slice.upper) if b is not None]
                bad = [norm(b) for b in bounds if index_time(wav, m, b) is None and not (isinstance(b, ast.Constant) and b.value == 0) and norm(b) != "len(self.frames)"]
                rep.check(not bad and n.slice.step is None, "F1-aligned", m.short, norm(n), ok="bounds come from _getIndexAtTime", bad="slice bound %s is not a whole-sample byte index from _getIndexAtTime" % bad, loc=m.where(n))
    rep.floor("F1-aligned", 6, "_getIndexAtTime + 5 slices of self.frames")

    # ---- F2 shapes (semantic: which time each slice bound comes from)
    def prov(m, e):
        """the time argument a slice bound was computed from, or None."""
        return index_time(wav, m, e)

    def frames_slice(m, e, depth=0):
        """(lower provenance, upper provenance) of self.frames[lo:hi] or None."""
        if isinstance(e, ast.Name) and depth < 4:
            defs = [n.value for n in ast.walk(m.node) if isinstance(n, ast.Assign) and len(n.targets) == 1 and norm(n.targets[0]) == e.id]
            if len(defs) == 1:
                return frames_slice(m, defs[0], depth + 1)
            return None
        if isinstance(e, ast.Subscript) and norm(e.value) == "self.frames" and isinstance(e.slice, ast.Slice) and e.slice.step is None:
            lo = prov(m, e.slice.lower) if e.slice.lower is not None else "START"
            hi = prov(m, e.slice.upper) if e.slice.upper is not None else "END"
            return (lo, hi)
        return None

    def frame_writes(m):
        return [n for n in ast.walk(m.node) if isinstance(n, (ast.Assign, ast.AugAssign)) and any(norm(t) == "self.frames" for t in (n.targets if isinstance(n, ast.Assign) else [n.target]))]

    def flat_add(e):
        if isinstance(e, ast.BinOp) and isinstance(e.op, ast.Add):
            return flat_add(e.left) + flat_add(e.right)
        return [e]

    def check_shape(name, verdict, expected):
        m = wav.methods.get(name)
        if m is None:
            rep.vanished("F2-partition", "Wav." + name)
            return
        rep.functions.add(m.qual)
        ok, got = verdict(m)
        rep.check(ok, "F2-partition", m.short, got[:160], ok="slices partition the original frames; every other sample keeps its value and order",
                  bad="%s is '%s'; expected %s" % (name, got, expected), loc=m.loc)

    def v_delete(m):
        w = frame_writes(m)
        if len(w) != 1 or not isinstance(w[0], ast.Assign):
            return False, "; ".join(norm(x) for x in w) or "no assignment to self.frames"
        parts = flat_add(w[0].value)
        sl = [frames_slice(m, p) for p in parts]
        t0, t1 = m.params[0], m.params[1]
        return sl == [("START", t0), (t1, "END")], norm(w[0])

    def v_insert(m):
        w = frame_writes(m)
        if len(w) != 1 or not isinstance(w[0], ast.Assign):
            return False, "; ".join(norm(x) for x in w) or "no assignment to self.frames"
        parts = flat_add(w[0].value)
        t0, new = m.params[0], m.params[1]
        ok = len(parts) == 3 and frames_slice(m, parts[0]) == ("START", t0) and norm(parts[1]) == new and frames_slice(m, parts[2]) == (t0, "END")
        return ok, norm(w[0])

    def v_get(m):
        r = [n for n in ast.walk(m.node) if isinstance(n, ast.Return)]
        if len(r) != 1 or frame_writes(m):
            return False, "; ".join(norm(x) for x in r)
        return frames_slice(m, r[0].value) == (m.params[0], m.params[1]), norm(r[0])

    def v_concat(m):
        w = frame_writes(m)
        if len(w) != 1:
            return False, "; ".join(norm(x) for x in w)
        x = w[0]
        ok = (isinstance(x, ast.AugAssign) and isinstance(x.op, ast.Add) and norm(x.value) == m.params[0]) or (isinstance(x, ast.Assign) and norm(x.value) == "self.frames + " + m.params[0])
        return ok, norm(x)

    def v_replace(m):
        calls = [n for n in ast.walk(m.node) if isinstance(n, ast.Call) and norm(n.func) in ("self.deleteSegment", "self.insert")]
        calls.sort(key=lambda n: (n.lineno, n.col_offset))
        t0, t1, new = m.params[0], m.params[1], m.params[2]
        ok = [norm(c) for c in calls] == ["self.deleteSegment(%s, %s)" % (t0, t1), "self.insert(%s, %s)" % (t0, new)] and not frame_writes(m)
        return ok, "; ".join(norm(c) for c in calls)

    check_shape("deleteSegment", v_delete, "self.frames = self.frames[:index(startTime)] + self.frames[index(endTime):]")
    check_shape("insert", v_insert, "self.frames = self.frames[:index(startTime)] + frames + self.frames[index(startTime):]")
    check_shape("getFrames", v_get, "return self.frames[index(startTime):index(endTime)]")
    check_shape("concatenate", v_concat, "self.frames += frames")
    check_shape("replaceSegment", v_replace, "deleteSegment(startTime, endTime) then insert(startTime, frames)")
    rep.floor("F2-partition", 5)

    # ---- F3 pack / unpack
    cf, ct = audio.functions.get("convertFromBytes"), audio.functions.get("convertToBytes")
    if cf is None or ct is None:
        rep.vanished("F3-pack", "audio.convertFromBytes/convertToBytes")
    else:
        def fmt_expr(fn, fname):
            for n in ast.walk(fn.node):
                if isinstance(n, ast.Call) and norm(n.func) == fname:
                    return n
            return None
        u, p = fmt_expr(cf, "struct.unpack"), fmt_expr(ct, "struct.pack")
        tab_f = [norm(n.value) for n in ast.walk(cf.node) if isinstance(n, ast.Assign) and norm(n.targets[0]) == "byteCode"]
        tab_t = [norm(n.value) for n in ast.walk(ct.node) if isinstance(n, ast.Assign) and norm(n.targets[0]) == "byteCode"]
        ok = u is not None and p is not None and tab_f == tab_t and len(tab_f) == 1 and "sampleWidthDict" in tab_f[0]
        if ok:
            # sibling agreement: (byte-order prefix, code variable, repeat count) of the two format expressions
            def parts(e):
                if isinstance(e, ast.BinOp) and isinstance(e.op, ast.Add) and isinstance(e.left, ast.Constant) and isinstance(e.right, ast.BinOp) and isinstance(e.right.op, ast.Mult):
                    return e.left.value, norm(e.right.left), norm(e.right.right)
                if isinstance(e, ast.JoinedStr) and len(e.values) == 2 and isinstance(e.values[0], ast.Constant) and isinstance(e.values[1], ast.FormattedValue):
                    v = e.values[1].value
                    if isinstance(v, ast.BinOp) and isinstance(v.op, ast.Mult) and e.values[1].format_spec is None:
                        return e.values[0].value, norm(v.left), norm(v.right)
                return None
            pu, pp = parts(u.args[0]), parts(p.args[0])
            ok = pu is not None and pp is not None and pu[0] == pp[0] and pu[1] == pp[1] == "byteCode"
            if ok:
                cnt = pu[2]
                cdef = [norm(n.value) for n in ast.walk(cf.node) if isinstance(n, ast.Assign) and norm(n.targets[0]) == cnt] or [cnt]
                ok = "len(byteStr)" in cdef[0] and "sampleWidth" in cdef[0] and "/" in cdef[0] and pp[2] == "len(numList)"
                ok = ok and norm(p.args[1]) == "*numList" and norm(u.args[1]) == "byteStr"
        rep.check(ok, "F3-pack", "audio.convertFromBytes/convertToBytes", (norm(u.args[0]) if u else "?") + " | " + (norm(p.args[0]) if p else "?"),
                  ok="same byte-order prefix and width->code table on both sides, one code per sample (bytes/width codes when unpacking, len(samples) when packing)", bad="pack and unpack formats differ: converting samples to bytes and back is no longer the identity")
        # the values packed / unpacked are the argument's, untransformed
        for fn, par in ((ct, "numList"), (cf, "byteStr")):
            rebinds = []
            for n in ast.walk(fn.node):
                tgts = n.targets if isinstance(n, ast.Assign) else [n.target] if isinstance(n, (ast.AugAssign, ast.AnnAssign)) else []
                for t in tgts:
                    if any(isinstance(x, ast.Name) and x.id == par for x in ast.walk(t)):
                        v = getattr(n, "value", None)
                        if not (isinstance(n, ast.Assign) and isinstance(v, ast.Call) and norm(v.func) in ("tuple", "list", "bytes") and len(v.args) == 1 and norm(v.args[0]) == par):
                            rebinds.append(norm(n))
            rep.check(par in fn.params and not rebinds, "F3-pack", fn.short, "%s reaches struct unchanged" % par, ok="the argument is packed/unpacked as given (never rebound to a transformed copy)",
                      bad="the samples are transformed before conversion (%s): values are no longer carried over exactly" % "; ".join(rebinds)[:160])
        tbl = audio.const_nodes.get("sampleWidthDict")
        rep.check(tbl is not None and norm(tbl) == "{1: 'b', 2: 'h', 4: 'i', 8: 'q'}", "F3-pack", "audio.sampleWidthDict", norm(tbl) if tbl is not None else "?",
                  ok="struct codes have exactly the stated byte widths (b=1, h=2, i=4, q=8)", bad="width->struct code table changed: a code whose size differs from the sample width misaligns every sample")
    rep.floor("F3-pack", 4)

    rule_nearest(rep)
    rule_seek(rep)
    d = wav.methods.get("duration")
    if d is not None:
        r = [n for n in ast.walk(d.node) if isinstance(n, ast.Return)]
        rep.check(len(r) == 1 and norm(r[0].value) in ("len(self.frames) / self.frameRate / self.sampleWidth", "len(self.frames) / self.sampleWidth / self.frameRate", "len(self.frames) / (self.frameRate * self.sampleWidth)", "len(self.frames) / (self.sampleWidth * self.frameRate)"),
                  "F4-seek", d.short, norm(r[0].value) if r else "?", ok="bytes / width / rate = sample count / frame rate", bad="Wav.duration is not sample count / frame rate")
    q = audio.classes.get("QueryWav")
    if q is not None and "duration" in q.methods:
        qd = q.methods["duration"]
        txt = " ".join(norm(s) for s in qd.node.body)
        rep.check("float(self.nframes) / self.frameRate" in txt or "self.nframes / self.frameRate" in txt, "F4-seek", qd.short, txt[:80], ok="frames / rate", bad="QueryWav.duration is not nframes / frameRate")
    rep.floor("F4-seek", 4)




def rule_nearest(rep):
    """F1-nearest: every time->sample conversion in audio.py is round(time * frameRate)."""
    idx = common.ctx()
    audio = idx.module("audio")
    # ---- F1-nearest: every time->sample conversion in the module
    sites = []
    for fn in list(audio.functions.values()) + [m for c in audio.classes.values() for m in c.methods.values()]:
        for n in ast.walk(fn.node):
            if isinstance(n, ast.Call) and norm(n.func) in ("round", "int", "math.floor", "math.ceil") and n.args:
                fs = factors(n.args[0])
                if any(f in ("frameRate", "self.frameRate") for f in fs) and fn.name not in ("generateSineWave",) or (fn.name == "generateSineWave" and "duration" in " ".join(fs)):
                    sites.append((fn, n))
    for fn, n in sites:
        rep.functions.add(fn.qual)
        ok, why = is_sample_count(n, {"frameRate", "self.frameRate"})
        rep.check(ok, "F1-nearest", fn.short, norm(n), ok="nearest sample to %s" % why, bad="time->sample conversion %s is not round(time * frameRate): %s (a time on sample k whose product is k-epsilon in floating point lands on sample k-1)" % (norm(n), why), loc=fn.where(n))
    rep.floor("F1-nearest", 5, "_getIndexAtTime, readFramesAtTime x2, generateSineWave, generateSilence")



def rule_seek(rep):
    """F4-seek: readFramesAtTime positions the file unconditionally before reading."""
    idx = common.ctx()
    audio = idx.module("audio")
    # ---- F4: readFramesAtTime always seeks, durations
    rf = audio.functions.get("readFramesAtTime")
    if rf is None:
        rep.vanished("F4-seek", "audio.readFramesAtTime")
    else:
        rep.functions.add(rf.qual)
        top = [s for s in rf.node.body]
        seek = [i for i, s in enumerate(top) if isinstance(s, ast.Expr) and isinstance(s.value, ast.Call) and norm(s.value.func).endswith(".setpos")]
        read = [i for i, s in enumerate(top) if any(isinstance(n, ast.Call) and norm(n.func).endswith(".readframes") for n in ast.walk(s))]
        anyseek = [n for n in ast.walk(rf.node) if isinstance(n, ast.Call) and norm(n.func).endswith(".setpos")]
        ok = len(seek) == 1 and len(read) == 1 and seek[0] < read[0] and len(anyseek) == 1
        rep.check(ok, "F4-seek", rf.short, "setpos ... readframes", ok="setpos is an unconditional statement that precedes readframes", bad="the file is not always positioned before reading (setpos is conditional, missing or after the read): a second query on the same handle continues from where the previous one stopped", loc=rf.loc)
        if anyseek:
            arg = anyseek[0].args[0]
            if isinstance(arg, ast.Name):
                from ..textfmt import single_def
                arg = single_def(rf, arg.id) or arg
            ok, why = is_sample_count(arg, {"frameRate"})
            rep.check(ok and why == "startTime", "F4-seek", rf.short, "setpos(%s)" % norm(arg), ok="seeks to the sample nearest to startTime", bad="seek position is not round(frameRate * startTime): %s" % why)
