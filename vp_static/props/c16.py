"""C16 -- in-memory audio edits are sample-exact and sample-aligned (R-F)."""

import ast
from fractions import Fraction

from ..index import norm
from . import common


def run(rep, tier):
    from . import audiobuf

    rep.rule("W-buf", "Wav.getFrames / deleteSegment / insert / replaceSegment / concatenate / getSubwav / duration interpreted over an abstract byte buffer (n samples of a concrete exemplar width, sample indices symbolic): the result is exactly the addressed samples, every cut is a whole number of samples, every time becomes a sample index through round(time * frameRate) and nothing else, queries leave the frames alone")
    rep.rule("F-file", "readFramesAtTime interpreted on a recording file handle: positioned unconditionally at round(frameRate * start) before the single read")
    rep.rule("F3-pack", "convertToBytes / convertFromBytes interpreted with struct.pack/unpack as recorders: little-endian, one code of the sample's width per sample, samples passed through unchanged")
    rep.not_decided.append("what the wave module reads and writes (file round trip); banker's rounding at exact half samples; the number of frames read is round(frameRate*(end-start)), which may differ by one from the in-memory cut for times off the sample grid")
    audiobuf.wav_table(rep)
    audiobuf.file_reads(rep)
    audiobuf.pack_unpack(rep)
    idx = common.ctx()
    audio = idx.module("audio")
    tbl = audio.const_nodes.get("sampleWidthDict")
    rep.check(tbl is not None, "F3-pack", "audio.sampleWidthDict", "width table present", ok="sampleWidthDict is defined (its codes are exercised per width above)", bad="sampleWidthDict vanished")
    q = audio.classes.get("QueryWav")
    if q is not None and "duration" in q.methods:
        from ..absint import Interp, Lin, MockObj, PyFunc, PyRaise, State, Tup
        from ..index import Undecided
        from ..tables import default_overrides

        qd = q.methods["duration"]
        st = State([("0", Lin.num(0))], [0])
        I = Interp(idx, st, overrides=default_overrides())
        handle = MockObj({"getparams": PyFunc(lambda I_: Tup([Lin.num(1), Lin.num(2), Lin.num(8), Lin.var("n"), "NONE", "x"]))}, "wave handle")
        I.builtin_overrides = {"wave.open": lambda I_, a, k: handle}
        try:
            obj = I.instantiate(q, ["f.wav"], {})
            d = I.getattr(obj, "duration")
            rep.check(isinstance(d, Lin) and d.same(Lin.var("n").scale(Fraction(1, 8))), "F-file", qd.short, "QueryWav.duration", ok="frames / rate", bad="QueryWav.duration is %r, not nframes / frameRate" % (d,))
        except (PyRaise, Undecided) as e:
            rep.undecided("F-file", qd.short, "QueryWav.duration", str(e))

