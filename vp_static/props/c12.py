"""C12 -- a Textgrid is an ordered, uniquely-named tier map and edits act tier-wise."""

import ast

from ..absint import Lin, Lst, PyRaise, Tup
from ..index import norm
from ..tables import Atoms, Outcome, TableRun, build_tier, compare_outcomes, declare_tier, num_equal, read_tier, run_code, run_states, tier_equal
from . import common
from .common import rule_atomic
from .tgops import build_tg, lifted_table, read_tg

SHAPE = [("interval", "I", 1), ("point", "P", 1), ("interval", "E", 0)]


def run(rep, tier):
    idx = common.ctx()
    rep.rule("L-lifting", "abstract interpretation of Textgrid.crop / eraseRegion / insertSpace / editTimestamps on a generic textgrid (an interval tier, a point tier and an empty tier sharing the span): same names in the same order, each tier equal to the same tier-level operation, shared span and validate() True where the property says so; in lax mode (with and without rebasing) the textgrid span is the hull of the window and of the cropped tiers' spans (widened just enough)")
    rep.rule("S-addTier", "addTier on a generic textgrid: duplicate name rejected with nothing written, position = list.insert(index) for every index from -2 to len+2, span only widens (table over the weak orders of the two spans), reporting per mode")
    rep.rule("S-rename-replace", "renameTier / replaceTier keep the index and every other tier (interpreted on a generic 3-tier textgrid)")
    rep.rule("M-mergeTiers", "mergeTiers fuses the selected interval tiers and point tiers via union folded in selection order, other tiers preserved")
    rep.rule("B1-atomic", "no may-raise site after a receiver write in addTier/removeTier/renameTier/replaceTier (shared with C13)")
    rep.not_decided.append("equivalence with the ordered-list model over operation sequences to depth 5 (only the per-operation contracts are decided)")

    shapes = [SHAPE] if tier == "thorough" else [[("interval", "I", 1), ("point", "E", 0)], [("interval", "E", 0), ("point", "P", 1)]]
    for shape in shapes:
        lifting(rep, shape)
    lifting(rep, [("interval", "I", 1), ("point", "P", 1)], only="crop", own=True)
    lifting(rep, [("interval", "I", 1), ("point", "P", 1)], only="insertSpace", own=True)
    lifting(rep, [("interval", "I", 2)], only="eraseRegion", own=True)

    add_tier_table(rep, tier)
    rename_replace_table(rep)
    merge_tiers_table(rep)
    rule_atomic(rep, ["Textgrid.addTier", "Textgrid.removeTier", "Textgrid.renameTier", "Textgrid.replaceTier"], semantic=True)


def lifting(rep, shape, only=None, own=False):
    """own=True: tiers span only their own entries (narrower than the textgrid); the textgrid's resulting span is checked."""
    sfx = "-ownspans" if own else ""
    # --- crop
    def win(at):
        return {"a": at.var("a"), "b": at.var("b")}
    if only in (None, "crop"):
      lifted_table(rep, "L-lifting-crop" + sfx, "crop", shape, win,
                 [(m, r) for m in ("strict", "lax", "truncated") for r in (True, False)],
                 lambda I, tg, sy, mode: I.call_value(I.getattr(tg, "crop"), [sy["a"], sy["b"], mode[0], mode[1]], {}),
                 lambda I, t, sy, mode: I.call_value(I.getattr(t, "crop"), [sy["a"], sy["b"], mode[0], mode[1]], {}),
                 "crop window (a,b)", shared_span=lambda mode: mode[0] != "lax", check_valid=(lambda mode: mode[0] != "lax") if not own else None, own_spans=own,
                 tg_span=(lambda I, sy, mode, m, M: None if mode[0] == "lax" else ((Lin.num(0), sy["b"] - sy["a"]) if mode[1] else (sy["a"], sy["b"]))) if own else None,
                 hull_span=lambda I, sy, mode: (((Lin.num(0), sy["b"] - sy["a"]) if mode[1] else (sy["a"], sy["b"])) if mode[0] == "lax" else None))

    # --- eraseRegion (region inside the span)
    def reg(at):
        a, b = at.var("a"), at.var("b")
        at.rel("m", "<=", "a")
        at.rel("b", "<=", "M")
        if own:  # the region lies inside every tier's own span (the tier-level operation's domain)
            for kind, name, k in shape:
                at.rel(name + ("s1" if kind == "interval" else "t1"), "<=", "a")
                at.rel("b", "<=", name + ("e%d" % k if kind == "interval" else "t%d" % k))
        return {"a": a, "b": b}
    if only in (None, "eraseRegion"):
      lifted_table(rep, "L-lifting-eraseRegion" + sfx, "eraseRegion", shape, reg, [True, False],
                 lambda I, tg, sy, mode: I.call_value(I.getattr(tg, "eraseRegion"), [sy["a"], sy["b"], mode], {}),
                 lambda I, t, sy, mode: I.call_value(I.getattr(t, "eraseRegion"), [sy["a"], sy["b"], "truncate", mode], {}),
                 "region (a,b) inside span", shared_span=(lambda mode: True) if not own else None, check_valid=(lambda mode: True) if not own else None, own_spans=own,
                 tg_span=(lambda I, sy, mode, m, M: (m, M - (sy["b"] - sy["a"]) if mode else M)) if own else None)

    # --- insertSpace
    def gap(at):
        p, d = at.var("p"), Lin.var("d")
        at.fact_lt(Lin.num(0), d)
        at.rel("m", "<=", "p")
        at.rel("p", "<=", "M")
        return {"p": p, "d": d}
    if only in (None, "insertSpace"):
      lifted_table(rep, "L-lifting-insertSpace" + sfx, "insertSpace", shape, gap, ["stretch", "split", "no_change", "error"],
                 lambda I, tg, sy, mode: I.call_value(I.getattr(tg, "insertSpace"), [sy["p"], sy["d"], mode], {}),
                 lambda I, t, sy, mode: I.call_value(I.getattr(t, "insertSpace"), [sy["p"], sy["d"], mode], {}),
                 "insertion point p, duration d>0", shared_span=(lambda mode: True) if not own else None, check_valid=(lambda mode: True) if not own else None, own_spans=own,
                 tg_span=(lambda I, sy, mode, m, M: (m, M + sy["d"])) if own else None)

    # --- editTimestamps
    def off(at):
        o = Lin.var("off")
        at.const(0, "0")
        for kind, name, k in shape:
            for i in range(1, k + 1):
                if kind == "interval":
                    at.derived_atom("off+%ss%d" % (name, i), o + Lin.var("%ss%d" % (name, i)))
                    at.derived_atom("off+%se%d" % (name, i), o + Lin.var("%se%d" % (name, i)))
                else:
                    at.derived_atom("off+%st%d" % (name, i), o + Lin.var("%st%d" % (name, i)))
        return {"off": o}
    if only in (None, "editTimestamps") and not own:
        lifted_table(rep, "L-lifting-editTimestamps", "editTimestamps", shape, off, ["silence", "warning", "error"],
                     lambda I, tg, sy, mode: I.call_value(I.getattr(tg, "editTimestamps"), [sy["off"], mode], {}),
                     lambda I, t, sy, mode: I.call_value(I.getattr(t, "editTimestamps"), [sy["off"], mode], {}),
                     "offset", check_prints=True)



def add_tier_table(rep, tier):
    """addTier(tier, index, reportingMode) on a textgrid holding A, B, C."""
    idx = common.ctx()
    fn = idx.get("Textgrid.addTier")
    at = Atoms()
    m, M = at.var("m"), at.var("M")
    at.rel("m", "<=", "M")
    tm, tM = at.var("tm"), at.var("tM")
    at.rel("tm", "<=", "tM")
    tr = TableRun(rep, "S-addTier", fn.short, fn.loc)
    names = ["A", "B", "C"]
    indices = [None] + list(range(-2, len(names) + 3))

    def rows(st):
        out = []
        for newname in ("N", "B"):
            for index in indices:
                for mode in ("silence", "warning", "error", "cats"):
                    def code(I):
                        tg, objs = build_tg(I, [("interval", n, []) for n in names], m, M)
                        t = build_tier(I, "point", newname, [], tm, tM)
                        I.prints = 0
                        args = [t] + ([Lin.num(index)] if index is not None else [None]) + [mode]
                        try:
                            I.call_value(I.getattr(tg, "addTier"), args, {})
                            raised = None
                        except PyRaise as e:
                            raised = e.name
                        after = [str(n) for n in I.iterate(I.getattr(tg, "tierNames"))]
                        same_obj = raised is None and I.call_value(I.getattr(tg, "getTier"), [newname], {}) is t
                        return {"raised": raised, "names": after, "min": I.getattr(tg, "minTimestamp"), "max": I.getattr(tg, "maxTimestamp"), "printed": I.prints > 0, "same": same_obj}
                    got, I = run_code(idx, st, code)
                    mlabel = (newname, index, mode)
                    if got.kind != "ok":
                        out.append(compare_outcomes(I, mlabel, got, Outcome("ok", None)))
                        continue
                    v = got.value
                    O = I
                    widens = O.state.signs(tm - m) == frozenset([-1]) or O.state.signs(tM - M) == frozenset([1])
                    exp_names = list(names)
                    exp_raise = None
                    if mode == "cats":
                        exp_raise = "WrongOption"  # any praatio error; nothing may change
                    elif newname in names:
                        exp_raise = "TierNameExistsError"
                    elif widens and mode == "error":
                        exp_raise = "TextgridStateAutoModified"
                    if exp_raise is None:
                        if index is None:
                            exp_names.append(newname)
                        else:
                            exp_names.insert(index, newname)  # the property's model *is* list.insert
                    diff = None
                    pe = set(idx.module("utilities.errors").classes)
                    if (v["raised"] is None) != (exp_raise is None) or (v["raised"] is not None and v["raised"] not in pe):
                        diff = "raises %s, expected %s" % (v["raised"], exp_raise or "no error")
                    elif v["names"] != exp_names:
                        diff = "tier names %s, expected %s%s" % (v["names"], exp_names, " (a failed addTier must change nothing)" if exp_raise else "")
                    else:
                        emin = m if exp_raise or O.state.signs(tm - m) <= frozenset([0, 1]) else tm
                        emax = M if exp_raise or O.state.signs(tM - M) <= frozenset([0, -1]) else tM
                        if not (num_equal(I, v["min"], emin) and num_equal(I, v["max"], emax)):
                            diff = "span (%r, %r), expected (%r, %r): the span only ever widens to cover added tiers" % (v["min"], v["max"], emin, emax)
                        elif exp_raise is None and not v["same"]:
                            diff = "the name does not map to the added tier"
                        elif exp_raise is None and v["printed"] != (widens and mode == "warning"):
                            diff = "warning printed=%s, expected %s" % (v["printed"], widens and mode == "warning")
                    out.append((mlabel, diff is None, diff or "", None))
        return out

    run_states(at, rows, tr)
    tr.done("addTier(new|duplicate name, index None/-2..len+2, 3 reporting modes) x weak orders of the two spans")


def rename_replace_table(rep):
    idx = common.ctx()
    at = Atoms()
    m, M = at.var("m"), at.var("M")
    at.rel("m", "<=", "M")
    tm, tM = at.var("tm"), at.var("tM")
    at.rel("tm", "<=", "tM")
    names = ["A", "B", "C"]
    for method in ("renameTier", "replaceTier"):
        fn = idx.get("Textgrid." + method)
        rep.functions.add(fn.qual)
        tr = TableRun(rep, "S-rename-replace", fn.short, fn.loc)

        def rows(st, method=method):
            out = []
            for target in names + ["Z"]:
                for newname in ("N", "C", target):
                    for mode in (("silence", "error", "cats") if method == "replaceTier" else ("silence",)):
                        def code(I):
                            tg, objs = build_tg(I, [("interval", n, []) for n in names], m, M)
                            I.prints = 0
                            try:
                                if method == "renameTier":
                                    I.call_value(I.getattr(tg, "renameTier"), [target, newname], {})
                                else:
                                    t = build_tier(I, "point", newname, [], tm, tM)
                                    I.call_value(I.getattr(tg, "replaceTier"), [target, t, mode], {})
                                raised = None
                            except PyRaise as e:
                                raised = e.name
                            after = [str(n) for n in I.iterate(I.getattr(tg, "tierNames"))]
                            kept = all(I.call_value(I.getattr(tg, "getTier"), [n], {}) is o for n, o in zip(names, objs) if n in after and n != (newname if raised is None else None) and not (raised is None and n == target))
                            return {"raised": raised, "names": after, "kept": kept, "min": I.getattr(tg, "minTimestamp"), "max": I.getattr(tg, "maxTimestamp")}
                        got, I = run_code(idx, st, code)
                        mlabel = (method, target, newname, mode)
                        if got.kind != "ok":
                            out.append(compare_outcomes(I, mlabel, got, Outcome("ok", None)))
                            continue
                        v = got.value
                        widens = method == "replaceTier" and (I.state.signs(tm - m) == frozenset([-1]) or I.state.signs(tM - M) == frozenset([1]))
                        exp_raise = None
                        if target not in names:
                            exp_raise = "KeyError" if method == "renameTier" else "ValueError"
                        elif mode == "cats":
                            exp_raise = "WrongOption"
                        elif newname in names and newname != target:
                            exp_raise = "TierNameExistsError"
                        elif widens and mode == "error":
                            exp_raise = "TextgridStateAutoModified"
                        exp_names = list(names) if exp_raise else [newname if n == target else n for n in names]
                        diff = None
                        if (v["raised"] is None) != (exp_raise is None):
                            diff = "raises %s, expected %s" % (v["raised"], exp_raise)
                        elif v["names"] != exp_names:
                            diff = "tier names %s, expected %s%s" % (v["names"], exp_names, " (a failed call must change nothing)" if exp_raise else " (same index)")
                        elif not v["kept"]:
                            diff = "another tier was replaced or lost"
                        out.append((mlabel, diff is None, diff or "", None))
            return out

        run_states(at, rows, tr)
        tr.done("%s(target in A,B,C,absent; new name fresh/clashing/same) x weak orders of the spans" % method)


def merge_tiers_table(rep):
    _merge_table(rep, "interval", [("interval", "I1", 1, True), ("point", "P1", 1, False), ("interval", "I2", 1, True), ("interval", "X", 0, True)],
                 [None, ["I1", "I2"], ["I2", "I1"], ["I2", "P1", "I1"]])
    _merge_table(rep, "point", [("point", "P1", 1, True), ("interval", "I1", 1, False), ("point", "P2", 1, True), ("interval", "X", 0, True)],
                 [None, ["P1", "P2"], ["P2", "P1"], ["P2", "I1", "P1"]])


def _merge_table(rep, what, spec, selections):
    idx = common.ctx()
    fn = idx.get("Textgrid.mergeTiers")
    rep.functions.add(fn.qual)
    at = Atoms()
    m, M = at.var("m"), at.var("M")
    at.rel("m", "<=", "M")
    tiers = []
    kinds = {}
    for kind, name, k, as_atoms in spec:
        ents, _, _ = declare_tier(at, k, kind, prefix=name, span=False, as_atoms=as_atoms)
        kinds[name] = kind
        if ents:
            first = name + ("s1" if kind == "interval" else "t1")
            last = name + ("e1" if kind == "interval" else "t1")
            if as_atoms:
                at.rel("m", "<=", first)
                at.rel(last, "<=", "M")
            else:
                at.fact_le(m, Lin.var(first))
                at.fact_le(Lin.var(last), M)
        tiers.append((kind, name, ents))
    tr = TableRun(rep, "M-mergeTiers", fn.short, fn.loc)

    def rows(st):
        out = []
        for sel in selections:
            for preserve in (True, False):
                def code(I):
                    tg, objs = build_tg(I, tiers, m, M)
                    byname = {n: o for (_, n, _), o in zip(tiers, objs)}
                    order = sel if sel is not None else [n for _, n, _ in tiers]
                    exp = {}
                    for kind in ("interval", "point"):
                        chosen = [n for n in order if kinds[n] == kind]
                        if chosen:
                            acc = byname[chosen[0]]
                            for n in chosen[1:]:
                                acc = I.call_value(I.getattr(acc, "union"), [byname[n]], {})
                            exp[kind] = read_tier(I, acc)
                    args = [Lst(list(sel)) if sel is not None else None, preserve]
                    res = I.call_value(I.getattr(tg, "mergeTiers"), args, {})
                    got = read_tg(I, res)
                    got["exp"] = exp
                    got["others"] = [n for _, n, _ in tiers if n not in order] if preserve else []
                    return got
                got, I = run_code(idx, st, code)
                mlabel = (tuple(sel) if sel else None, preserve)
                if got.kind != "ok":
                    out.append(compare_outcomes(I, mlabel, got, Outcome("ok", None)))
                    continue
                v = got.value
                exp_names = list(v["others"]) + [str(v["exp"][k]["name"]) for k in ("interval", "point") if k in v["exp"]]
                diff = None
                if [str(n) for n in v["names"]] != exp_names:
                    diff = "tier names %s, expected %s (other tiers, then the fused interval tier, then the fused point tier; a fused tier keeps the name of the first selected tier)" % (v["names"], exp_names)
                else:
                    gt = {str(t["name"]): t for t in v["tiers"]}
                    for k in ("interval", "point"):
                        if k in v["exp"]:
                            d = tier_equal(I, gt[str(v["exp"][k]["name"])], v["exp"][k])
                            if d:
                                diff = "fused %s tier differs from union folded in selection order: %s" % (k, d)
                out.append((mlabel, diff is None, diff or "", None))
        return out

    run_states(at, rows, tr)
    tr.done("mergeTiers fusing %s tiers (selection orders x preserveOtherTiers)" % what)
