"""C17 -- interval-driven audio extraction keeps and drops exactly the marked samples."""

import ast

from ..absint import Lin, Lst, MockObj, PyFunc, PyRaise, Tup
from ..index import norm
from ..tables import Atoms, Outcome, TableRun, compare_outcomes, num_equal, run_code, run_spec, run_states, show
from . import common


def marked_table(rep, k, which):
    """readFramesAtTimes with keep- or delete-intervals: which stretches are read, generated or skipped, in order."""
    idx = common.ctx()
    fn = idx.get("audio:readFramesAtTimes")
    rf = idx.get("audio:readFramesAtTime")
    rep.functions.add(fn.qual)
    rep.functions.add(idx.get("audio:_computeKeepDeleteIntervals").qual)
    rep.functions.add(idx.get("utilities.utils:invertIntervalList").qual)
    at = Atoms()
    zero = at.const(0, "0")
    dur = at.var("dur")
    at.rel("0", "<", "dur")
    ivs = []
    prev = "0"
    for i in range(1, k + 1):
        s, e = at.var("s%d" % i), at.var("e%d" % i)
        at.rel(prev, "<=", "s%d" % i)
        at.rel("s%d" % i, "<", "e%d" % i)
        prev = "e%d" % i
        ivs.append((s, e))
    tr = TableRun(rep, "K-marked", fn.short, fn.loc)

    def rows(st):
        out = []
        for replace, both, rev in [(r, b, v) for r in (False, True) for b in ((False, True) if k else (False,)) for v in ((False, True) if k >= 2 else (False,)) if not (b and v)]:
            if True:
                def code(I):
                    params = Tup([Lin.num(1), Lin.num(2), Lin.num(1), dur, "NONE", "not compressed"])
                    af = MockObj({"getparams": PyFunc(lambda I_: params)})
                    # the caller's list need not be in temporal order ("all lists of disjoint intervals"): the kept stretches
                    # still come back in temporal order
                    lst = Lst([Tup([s, e]) for s, e in (ivs[::-1] if rev else ivs)])
                    kw = {}
                    if which == "keep" or both:
                        kw["keepIntervals"] = lst
                    if which == "delete" or both:
                        kw["deleteIntervals"] = Lst(list(lst.items))
                    if replace:
                        kw["replaceFunc"] = PyFunc(lambda I_, d: Lst([Tup(["generated", d])]))
                    ov = dict(I.overrides)
                    ov[rf.short] = lambda I_, a, kwa: Lst([Tup(["read", a[1], a[2]])])
                    I.overrides = ov
                    return I.call_function(fn, [af], kw)
                got, I = run_code(idx, st, code)

                def spec(O):
                    if both:
                        O.raise_("ANY")  # 'specifying both lists ... is rejected'
                    if ivs and O.gt(ivs[-1][1], dur):
                        O.raise_("ANY")  # 'times beyond the recording is rejected'
                    marked = list(ivs)
                    gaps = []
                    cur = Lin.num(0)
                    for s, e in marked:
                        if O.lt(cur, s):
                            gaps.append((cur, s))
                        cur = e
                    if O.lt(cur, dur):
                        gaps.append((cur, dur))
                    if not marked:
                        keep, delete = [(Lin.num(0), dur)], []
                    elif which == "keep":
                        keep, delete = marked, gaps
                    else:
                        keep, delete = gaps, marked
                    seq = sorted([(s, e, "keep") for s, e in keep] + [(s, e, "delete") for s, e in delete], key=lambda x: _rank(O, x[0], [y[0] for y in keep + delete]))
                    res = []
                    for s, e, lab in seq:
                        if lab == "keep":
                            res.append(("read", s, e))
                        elif replace:
                            res.append(("generated", e - s))
                    return res
                want = run_spec(idx, st, spec)

                def eq(I, g, w):
                    gi = [x.items for x in g.items]
                    if len(gi) != len(w):
                        return "stretches %s, expected %s" % (show(g), show([Tup(list(x)) for x in w]))
                    for a, b in zip(gi, w):
                        if a[0] != b[0] or len(a) != len(b) or any(not num_equal(I, p, q) for p, q in zip(a[1:], b[1:])):
                            return "stretches %s, expected %s" % (show(g), show([Tup(list(x)) for x in w]))
                    return None
                out.append(compare_outcomes(I, (which, "replace" if replace else "drop", "both lists" if both else ("one list, given in reverse order" if rev else "one list")), got, want, eq=eq))
        return out

    run_states(at, rows, tr)
    tr.done("%d %s-intervals inside/over the end of a recording of duration dur" % (k, which))


def _rank(O, x, allx):
    return sum(1 for y in allx if O.lt(y, x))


def run(rep, tier):
    idx = common.ctx()
    rep.rule("K-marked", "abstract interpretation of readFramesAtTimes (with _computeKeepDeleteIntervals and utils.invertIntervalList inlined, file reads and the generator replaced by tokens) over every weak order of up to 2 marked intervals and the duration, the list given in temporal and in reverse order: the kept stretches are read in order with their own bounds, each dropped stretch is replaced by generated audio of the same duration (or skipped), both lists or times beyond the recording raise ArgumentError")
    rep.rule("K-wiring", "extractSubwav / splitAudioOnTier: one getFrames(start,end)+outputFrames per entry with the entry's own bounds; outputFrames copies the source parameters; cropped textgrids use crop(start,end,mode,True) with mode strict iff noPartialIntervals; generators produce round(rate*duration) samples")
    rep.not_decided.append("sample-exactness of file reads (wave module); the C16 rules cover the time->sample conversion")
    for which in ("keep", "delete"):
        for k in ([0, 1, 2] if tier == "quick" else [0, 1, 2, 3]):
            if k == 0 and which == "delete":
                continue
            marked_table(rep, k, which)

    from . import audiobuf
    rep.rule("F-file", "shared with C16: readFramesAtTime positions the file unconditionally at round(frameRate * start) before the single read")
    audiobuf.file_reads(rep)
    audiobuf.wiring(rep)
    audiobuf.generators(rep)
    rep.floor("K-wiring", 4)
    # splitAudioOnTier crops the whole textgrid to every entry: a secondary tier with nothing under the window
    # must come out empty, spanning [0, end - start] (shared with C06/C12)
    from .c12 import lifting
    rep.rule("L-lifting-crop", "Textgrid.crop on a generic textgrid with an empty secondary tier: no error, per-tier result equals the tier-level crop, span [0, b-a] when rebased")
    lifting(rep, [("interval", "I", 1), ("point", "E", 0)], only="crop")
