"""C17 -- interval-driven audio extraction keeps and drops exactly the marked samples."""

import ast

from ..absint import Lin, Lst, MockObj, PyFunc, PyRaise, Tup
from ..index import norm
from ..tables import Atoms, Outcome, TableRun, compare_outcomes, num_equal, run_code, run_spec, run_states, show
from . import common


def marked_table(rep, k, which):
    """readFramesAtTimes with keep- or delete-intervals: which stretches are read, generated or skipped, in order."""
    idx = common.ctx()
    fn = idx.get("audio:readFramesAtTimes")
    rf = idx.get("audio:readFramesAtTime")
    rep.functions.add(fn.qual)
    rep.functions.add(idx.get("audio:_computeKeepDeleteIntervals").qual)
    rep.functions.add(idx.get("utilities.utils:invertIntervalList").qual)
    at = Atoms()
    zero = at.const(0, "0")
    dur = at.var("dur")
    at.rel("0", "<", "dur")
    ivs = []
    prev = "0"
    for i in range(1, k + 1):
        s, e = at.var("s%d" % i), at.var("e%d" % i)
        at.rel(prev, "<=", "s%d" % i)
        at.rel("s%d" % i, "<", "e%d" % i)
        prev = "e%d" % i
        ivs.append((s, e))
    tr = TableRun(rep, "K-marked", fn.short, fn.loc)

    def rows(st):
        out = []
        for replace in (False, True):
            for both in ((False, True) if k else (False,)):
                def code(I):
                    params = Tup([Lin.num(1), Lin.num(2), Lin.num(1), dur, "NONE", "not compressed"])
                    af = MockObj({"getparams": PyFunc(lambda I_: params)})
                    lst = Lst([Tup([s, e]) for s, e in ivs])
                    kw = {}
                    if which == "keep" or both:
                        kw["keepIntervals"] = lst
                    if which == "delete" or both:
                        kw["deleteIntervals"] = Lst(list(lst.items))
                    if replace:
                        kw["replaceFunc"] = PyFunc(lambda I_, d: Lst([Tup(["generated", d])]))
                    ov = dict(I.overrides)
                    ov[rf.short] = lambda I_, a, kwa: Lst([Tup(["read", a[1], a[2]])])
                    I.overrides = ov
                    return I.call_function(fn, [af], kw)
                got, I = run_code(idx, st, code)

                def spec(O):
                    if both:
                        O.raise_("ANY")  # 'specifying both lists ... is rejected'
                    if ivs and O.gt(ivs[-1][1], dur):
                        O.raise_("ANY")  # 'times beyond the recording is rejected'
                    marked = list(ivs)
                    gaps = []
                    cur = Lin.num(0)
                    for s, e in marked:
                        if O.lt(cur, s):
                            gaps.append((cur, s))
                        cur = e
                    if O.lt(cur, dur):
                        gaps.append((cur, dur))
                    if not marked:
                        keep, delete = [(Lin.num(0), dur)], []
                    elif which == "keep":
                        keep, delete = marked, gaps
                    else:
                        keep, delete = gaps, marked
                    seq = sorted([(s, e, "keep") for s, e in keep] + [(s, e, "delete") for s, e in delete], key=lambda x: _rank(O, x[0], [y[0] for y in keep + delete]))
                    res = []
                    for s, e, lab in seq:
                        if lab == "keep":
                            res.append(("read", s, e))
                        elif replace:
                            res.append(("generated", e - s))
                    return res
                want = run_spec(idx, st, spec)

                def eq(I, g, w):
                    gi = [x.items for x in g.items]
                    if len(gi) != len(w):
                        return "stretches %s, expected %s" % (show(g), show([Tup(list(x)) for x in w]))
                    for a, b in zip(gi, w):
                        if a[0] != b[0] or len(a) != len(b) or any(not num_equal(I, p, q) for p, q in zip(a[1:], b[1:])):
                            return "stretches %s, expected %s" % (show(g), show([Tup(list(x)) for x in w]))
                    return None
                out.append(compare_outcomes(I, (which, "replace" if replace else "drop", "both lists" if both else "one list"), got, want, eq=eq))
        return out

    run_states(at, rows, tr)
    tr.done("%d %s-intervals inside/over the end of a recording of duration dur" % (k, which))


def _rank(O, x, allx):
    return sum(1 for y in allx if O.lt(y, x))


def run(rep, tier):
    idx = common.ctx()
    rep.rule("K-marked", "abstract interpretation of readFramesAtTimes (with _computeKeepDeleteIntervals and utils.invertIntervalList inlined, file reads and the generator replaced by tokens) over every weak order of up to 2 marked intervals and the duration: the kept stretches are read in order with their own bounds, each dropped stretch is replaced by generated audio of the same duration (or skipped), both lists or times beyond the recording raise ArgumentError")
    rep.rule("K-wiring", "extractSubwav / splitAudioOnTier: one getFrames(start,end)+outputFrames per entry with the entry's own bounds; outputFrames copies the source parameters; cropped textgrids use crop(start,end,mode,True) with mode strict iff noPartialIntervals; generators produce round(rate*duration) samples")
    rep.not_decided.append("sample-exactness of file reads (wave module); the C16 rules cover the time->sample conversion")
    for which in ("keep", "delete"):
        for k in ([0, 1, 2] if tier == "quick" else [0, 1, 2, 3]):
            if k == 0 and which == "delete":
                continue
            marked_table(rep, k, which)

    from .c16 import rule_nearest, rule_seek
    rep.rule("F1-nearest / F4-seek", "shared with C16: every time->sample conversion is round(time * frameRate); readFramesAtTime always seeks before it reads")
    rule_nearest(rep)
    rule_seek(rep)
    audio = idx.module("audio")
    # extractSubwav
    ex = idx.get("audio:extractSubwav")
    body = [norm(s) for s in ex.node.body if not isinstance(s, ast.Expr) or not isinstance(s.value, ast.Constant)]
    calls = [norm(n) for n in ast.walk(ex.node) if isinstance(n, ast.Call)]
    ok = any(c.endswith(".getFrames(startTime, endTime)") for c in calls) and any(".outputFrames(" in c and c.endswith(", outputFN)") for c in calls)
    rep.check(ok, "K-wiring", ex.short, "; ".join(body)[:120], ok="getFrames(startTime, endTime) then outputFrames(frames, outputFN)", bad="extractSubwav no longer writes exactly getFrames(startTime, endTime)")
    # outputFrames copies parameters
    of = idx.get("AbstractWav.outputFrames")
    cands = [of] + [m for m in of.cls.mro()[0].methods.values() if m.name.startswith("_") and any(isinstance(c, ast.Call) and norm(c.func) == "self." + m.name for c in ast.walk(of.node))]
    lists = [n for f_ in cands for n in ast.walk(f_.node) if isinstance(n, ast.List) and len(n.elts) == 6]
    want = ["self.nchannels", "self.sampleWidth", "self.frameRate", None, "self.comptype", "self.compname"]
    ok = len(lists) == 1 and all(w is None or norm(e) == w for e, w in zip(lists[0].elts, want)) and any(isinstance(n, ast.Call) and norm(n.func).endswith(".writeframes") and norm(n.args[0]) == of.params[0] for n in ast.walk(of.node))
    rep.check(ok, "K-wiring", of.short, norm(lists[0]) if lists else "setparams", ok="channels, sample width, frame rate and compression copied from the source; the given frames written", bad="outputFrames does not copy the source's parameters / write the given frames")
    # splitAudioOnTier
    sp = idx.get("praatio_scripts:splitAudioOnTier")
    rep.functions.add(sp.qual)
    loops = [n for n in ast.walk(sp.node) if isinstance(n, ast.For) and "enumerate(entries)" in norm(n.iter)]
    if len(loops) != 1:
        rep.vanished("K-wiring", sp.short, "for i, entry in enumerate(entries)")
    else:
        lp = loops[0]
        unpack = [s for s in lp.body if isinstance(s, ast.Assign) and norm(s.value) == "entry" and isinstance(s.targets[0], ast.Tuple)]
        names = [norm(e) for e in unpack[0].targets[0].elts] if unpack else []
        direct = [s for s in lp.body]
        gf = [s for s in direct if isinstance(s, ast.Assign) and isinstance(s.value, ast.Call) and norm(s.value.func).endswith(".getFrames")]
        ofs = [s for s in direct if isinstance(s, ast.Expr) and isinstance(s.value, ast.Call) and norm(s.value.func).endswith(".outputFrames")]
        skips = [n for s in lp.body for n in ast.walk(s) if isinstance(n, (ast.Continue, ast.Break))]
        ok = len(names) == 3 and len(gf) == 1 and len(ofs) == 1 and [norm(a) for a in gf[0].value.args] == names[:2] and norm(ofs[0].value.args[0]) == norm(gf[0].targets[0]) and not skips
        rep.check(ok, "K-wiring", sp.short, "getFrames(%s) / outputFrames" % ", ".join(names[:2]), ok="one file per entry, holding the source frames between the entry's own bounds, no entry skipped",
                  bad="the per-entry loop does not write exactly getFrames(start, end) for every entry", loc=sp.where(lp))
        crops = [n for n in ast.walk(lp) if isinstance(n, ast.Call) and norm(n.func).endswith(".crop")]
        ok = len(crops) == 1 and [norm(a) for a in crops[0].args] == names[:2] + ["mode", "True"]
        rep.check(ok, "K-wiring", sp.short, norm(crops[0]) if crops else "tg.crop(...)", ok="cropped TextGrid = crop(start, end, mode, rebaseToZero=True): spans exactly [0, end-start] (C06)", bad="the cropped TextGrid is not crop(start, end, mode, True) with the entry's own bounds")
        gv = [n for n in ast.walk(sp.node) if isinstance(n, ast.FunctionDef) and n.name == "getValue"]
        ok = False
        if gv:
            ifs = [s for s in gv[0].body if isinstance(s, ast.If)]
            if ifs:
                t = idx.const_value(sp.module, ifs[0].body[0].value) if isinstance(ifs[0].body[0], ast.Return) else None
                f = idx.const_value(sp.module, ifs[0].orelse[0].value) if ifs[0].orelse and isinstance(ifs[0].orelse[0], ast.Return) else None
                ok = (t, f) == ("strict", "truncated") and any(isinstance(n, ast.Call) and norm(n) == "getValue(noPartialIntervals)" for n in ast.walk(sp.node))
        rep.check(ok, "K-wiring", sp.short, "mode = getValue(noPartialIntervals)", ok="strict iff noPartialIntervals, else truncated", bad="crop mode is no longer strict iff noPartialIntervals")
        filt = [n for n in ast.walk(sp.node) if isinstance(n, ast.ListComp) and "silenceLabel" in norm(n)]
        ok = len(filt) == 1 and norm(filt[0].generators[0].ifs[0]) == "entry.label != silenceLabel" and filt[0].lineno < lp.lineno
        rep.check(ok, "K-wiring", sp.short, norm(filt[0]) if filt else "silence filter", ok="the silence filter is applied before numbering", bad="silence filtering changed")
    # generators
    gen = audio.classes.get("AudioGenerator")
    sil, sine = gen.methods.get("generateSilence"), gen.methods.get("generateSineWave")
    rounds = []
    for m in (sil, sine):
        rs = [n for n in ast.walk(m.node) if isinstance(n, ast.Call) and norm(n.func) == "round" and "frameRate" in norm(n)]
        rounds.append(sorted(f for r in rs for f in norm(r.args[0]).replace(" ", "").split("*")))
    ok = rounds[0] == rounds[1] == ["duration", "self.frameRate"]
    rep.check(ok, "K-wiring", "AudioGenerator", "sample counts: %s" % rounds, ok="both generators produce round(frameRate * duration) samples", bad="the two generators disagree on the number of samples: %s" % rounds)
    r = [n for n in ast.walk(sine.node) if isinstance(n, ast.Call) and norm(n.func) == "range"]
    ok = len(r) == 1 and isinstance(r[0].args[0], ast.Name) and any(isinstance(n, ast.Assign) and norm(n.targets[0]) == r[0].args[0].id and norm(n.value).startswith("round(") for n in ast.walk(sine.node))
    rep.check(ok, "K-wiring", sine.short, "range(nSamples)", ok="one value per sample index", bad="sine generator does not produce one value per sample")
    z = [n for n in ast.walk(sil.node) if isinstance(n, ast.Return)]
    ok = len(z) == 1 and isinstance(z[0].value, ast.BinOp) and isinstance(z[0].value.op, ast.Mult) and "round(" in norm(z[0].value)
    rep.check(ok, "K-wiring", sil.short, norm(z[0].value) if z else "?", ok="one packed zero sample repeated round(rate*duration) times", bad="silence generator shape changed")
    rep.floor("K-wiring", 9)
    # splitAudioOnTier crops the whole textgrid to every entry: a secondary tier with nothing under the window
    # must come out empty, spanning [0, end - start] (shared with C06/C12)
    from .c12 import lifting
    rep.rule("L-lifting-crop", "Textgrid.crop on a generic textgrid with an empty secondary tier: no error, per-tier result equals the tier-level crop, span [0, b-a] when rebased")
    lifting(rep, [("interval", "I", 1), ("point", "E", 0)], only="crop")
