"""R-B -- raise-after-write ordering (failure atomicity) and open-for-write ordering.

Walks a function's statements in evaluation order with one bit of state
("a write to receiver state has happened on some path to here") and reports
every may-raise site reached with that bit set.  Branches on option parameters
are pruned with the constants known at the call site (one level of context).
"""

import ast
from typing import Dict, List, Optional, Set, Tuple

from .effects import Effects, FuncAnalysis
from .index import ClassInfo, FuncInfo, Index, ModuleInfo, TypeEnv, norm, resolve_call

UNKNOWN = object()


class Reporter:
    """Abstract value of a variable bound from utils.getErrorReporter(mode)."""

    def __init__(self, mode):
        self.mode = mode  # python constant or UNKNOWN

    def __repr__(self):
        return "Reporter(%r)" % (self.mode if self.mode is not UNKNOWN else "?")


class OwnEntries:
    """Abstract value of a parameter bound (at the call site) to entries drawn from the receiver's own entry list."""

    def __repr__(self):
        return "OwnEntries"


class RaiseSite:
    def __init__(self, fn, node, kind, exc, text, via=()):
        self.fn = fn
        self.node = node
        self.kind = kind  # raise | reporter | option | lookup | reraise
        self.exc = set(exc)
        self.text = text
        self.via = tuple(via)

    def describe(self):
        s = "%s [%s %s]" % (self.text, self.kind, "/".join(sorted(self.exc)) or "?")
        if self.via:
            s += " via " + " -> ".join(self.via)
        return s


class Event:
    """A may-raise site reached while `written` (a receiver write) is set."""

    def __init__(self, site: RaiseSite, written, exempt: Optional[str], in_try=None):
        self.site = site
        self.written = written  # description of the earlier write, or None
        self.exempt = exempt  # reason, or None
        self.in_try = in_try


class Ordering:
    def __init__(self, idx: Index, eff: Effects):
        self.idx = idx
        self.eff = eff
        self._raising_modes = None
        self._exc_bases = None
        self._memo_sites: Dict[Tuple, List[RaiseSite]] = {}
        self._memo_atomic: Dict[Tuple, List[Event]] = {}
        self._in_progress: Set[Tuple] = set()

    # ------------------------------------------------------------- derived facts
    def raising_modes(self) -> Set[str]:
        """Keys of getErrorReporter's table that map to a function containing `raise`."""
        if self._raising_modes is None:
            fn = self.idx.get("utilities.utils:getErrorReporter")
            out = set()
            table = None
            for n in ast.walk(fn.node):
                if isinstance(n, ast.Dict):
                    table = n
                    break
            if table is None:
                raise_ = self.idx  # pragma: no cover
            for k, v in zip(table.keys, table.values):
                key = self.idx.const_value(fn.module, k)
                target = self.idx.resolve_symbol(fn.module, v)
                if isinstance(target, FuncInfo) and any(isinstance(x, ast.Raise) for x in ast.walk(target.node)):
                    out.add(key)
            self._raising_modes = out
            self.reporter_table = {
                self.idx.const_value(fn.module, k): (self.idx.resolve_symbol(fn.module, v)) for k, v in zip(table.keys, table.values)
            }
        return self._raising_modes

    def exc_ancestors(self, name: str) -> Set[str]:
        if self._exc_bases is None:
            self._exc_bases = {}
            try:
                mod = self.idx.module("utilities.errors")
                for c in mod.classes.values():
                    self._exc_bases[c.name] = [b.split(".")[-1] for b in c.base_exprs]
            except Exception:
                pass
        out, todo = set(), [name]
        builtin_parents = {
            "KeyError": ["LookupError"], "IndexError": ["LookupError"], "LookupError": ["Exception"],
            "ValueError": ["Exception"], "TypeError": ["Exception"], "Exception": ["BaseException"],
            "NotImplementedError": ["RuntimeError"], "RuntimeError": ["Exception"], "UnicodeError": ["ValueError"],
            "OSError": ["Exception"], "AttributeError": ["Exception"], "StopIteration": ["Exception"],
        }
        while todo:
            n = todo.pop()
            if n in out:
                continue
            out.add(n)
            todo.extend(self._exc_bases.get(n, builtin_parents.get(n, ["Exception"] if n not in ("BaseException",) else [])))
        return out

    # --------------------------------------------------------------- condition eval
    def eval_const(self, fn: FuncInfo, node, consts: Dict[str, object]):
        if isinstance(node, ast.Name) and node.id in consts:
            return consts[node.id]
        if isinstance(node, ast.Constant):
            return node.value
        v = self.idx.const_value(fn.module, node)
        if v is not None:
            return v
        return UNKNOWN

    def eval_test(self, fn: FuncInfo, test, consts) -> Optional[bool]:
        if isinstance(test, ast.UnaryOp) and isinstance(test.op, ast.Not):
            v = self.eval_test(fn, test.operand, consts)
            return None if v is None else (not v)
        if isinstance(test, ast.BoolOp):
            vals = [self.eval_test(fn, v, consts) for v in test.values]
            if isinstance(test.op, ast.And):
                if any(v is False for v in vals):
                    return False
                if all(v is True for v in vals):
                    return True
                return None
            if any(v is True for v in vals):
                return True
            if all(v is False for v in vals):
                return False
            return None
        if isinstance(test, ast.Compare) and len(test.ops) == 1:
            l = self.eval_const(fn, test.left, consts)
            r = self.eval_const(fn, test.comparators[0], consts)
            op = test.ops[0]
            if l is UNKNOWN or r is UNKNOWN or isinstance(l, (Reporter, OwnEntries)) or isinstance(r, (Reporter, OwnEntries)):
                return None
            if isinstance(op, (ast.Eq, ast.Is)):
                return l == r if not isinstance(op, ast.Is) else (l is r or (l == r and isinstance(l, (bool, type(None), str))))
            if isinstance(op, (ast.NotEq, ast.IsNot)):
                return not (l == r)
            return None
        if isinstance(test, ast.Name) and test.id in consts:
            v = consts[test.id]
            if v is UNKNOWN or isinstance(v, (Reporter, OwnEntries)):
                return None
            return bool(v)
        return None

    # ------------------------------------------------------------------ binding
    def bind_consts(self, caller: FuncInfo, callee: FuncInfo, call: ast.Call, caller_consts) -> Dict[str, object]:
        out: Dict[str, object] = {}
        params = list(callee.params)
        for p in params + callee.kwonly:
            if p in callee.defaults:
                v = self.eval_const(callee, callee.defaults[p], {})
                out[p] = v
            else:
                out[p] = UNKNOWN
        i = 0
        for a in call.args:
            if isinstance(a, ast.Starred):
                for p in params[i:]:
                    out[p] = UNKNOWN
                break
            if i < len(params):
                out[params[i]] = self.eval_const(caller, a, caller_consts)
            i += 1
        for k in call.keywords:
            if k.arg is None:
                for p in params:
                    out[p] = UNKNOWN
            else:
                out[k.arg] = self.eval_const(caller, k.value, caller_consts)
        return out

    @staticmethod
    def ctx_key(consts):
        items = []
        for k in sorted(consts):
            v = consts[k]
            if v is UNKNOWN:
                continue
            if isinstance(v, OwnEntries):
                items.append((k, "OwnEntries"))
                continue
            if isinstance(v, Reporter):
                items.append((k, "R:%r" % (v.mode if v.mode is not UNKNOWN else "?")))
            else:
                try:
                    hash(v)
                    items.append((k, v))
                except TypeError:
                    items.append((k, repr(v)))
        return tuple(items)

    # --------------------------------------------------------------- the walker
    def analyse(self, fn: FuncInfo, consts=None, depth=0) -> "Walk":
        consts = dict(consts or {})
        for p in fn.params + fn.kwonly:
            consts.setdefault(p, UNKNOWN)
        key = (fn, self.ctx_key(consts))
        if key in self._memo_atomic:
            return self._memo_atomic[key]
        if key in self._in_progress or depth > 6:
            w = Walk(self, fn, consts, depth)
            w.truncated = True
            return w
        self._in_progress.add(key)
        try:
            w = Walk(self, fn, consts, depth)
            w.run()
        finally:
            self._in_progress.discard(key)
        self._memo_atomic[key] = w
        return w


class Walk:
    """One evaluation-order walk of a function under a constant context."""

    def __init__(self, o: Ordering, fn: FuncInfo, consts, depth):
        self.o = o
        self.idx = o.idx
        self.fn = fn
        self.consts = consts
        self.depth = depth
        self.tenv = o.eff.tenv(fn)
        self.truncated = False
        self.sites: List[RaiseSite] = []  # every may-raise site reachable (any state)
        self.events: List[Event] = []  # sites reached after a receiver write
        self.self_writes: List[Tuple[ast.AST, str]] = []
        self.first_write_unconditional = False
        # nodes that write receiver state, from the effect analysis
        fa = FuncAnalysis(o.eff, fn)
        fa.run()
        self.write_nodes: Dict[int, str] = {}
        for w in fa.sum.writes:
            if w.roots & {"self", "self*"}:
                self.write_nodes[id(w.node)] = w.text
        self.try_stack: List[ast.Try] = []
        self.handler_stack: List[Tuple[ast.Try, ast.ExceptHandler]] = []
        self.provenance: Dict[str, ast.AST] = {}  # local var -> defining expr (single assignment)
        self.loopvars: Dict[str, ast.AST] = {}  # loop var -> iter expr
        self._collect_defs()

    # ---- local definitions (flow-insensitive; used only for provenance exemptions)
    def _collect_defs(self):
        counts: Dict[str, int] = {}
        for n in ast.walk(self.fn.node):
            if isinstance(n, ast.Assign) and len(n.targets) == 1 and isinstance(n.targets[0], ast.Name):
                v = n.targets[0].id
                counts[v] = counts.get(v, 0) + 1
                self.provenance[v] = n.value
            elif isinstance(n, ast.For):
                tg = n.target
                names = [tg] if isinstance(tg, ast.Name) else [x for x in ast.walk(tg) if isinstance(x, ast.Name)]
                for x in names:
                    self.loopvars[x.id] = n.iter
        for v, c in counts.items():
            if c > 1:
                self.provenance.pop(v, None)

    # ---- state helpers
    def run(self):
        self.block(self.fn.node.body, None)

    def site(self, node, kind, exc, text, state, via=()):
        s = RaiseSite(self.fn, node, kind, exc, text, via)
        self.sites.append(s)
        if state is not None:
            exempt = self.exemption(s, state)
            self.events.append(Event(s, state, exempt, self.try_stack[-1] if self.try_stack else None))
        return s

    # ---- statements: return new state (None = nothing written, else description), or "STOP"
    def block(self, stmts, state):
        for s in stmts:
            state = self.stmt(s, state)
            if state == "STOP":
                return "STOP"
        return state

    @staticmethod
    def join(a, b):
        if a == "STOP":
            return b
        if b == "STOP":
            return a
        return a if a is not None else b

    def stmt(self, s, state):
        o = self.o
        if isinstance(s, ast.Expr):
            return self.expr(s.value, state)
        if isinstance(s, (ast.Assign, ast.AnnAssign, ast.AugAssign)):
            if getattr(s, "value", None) is not None:
                state = self.expr(s.value, state)
                if isinstance(s, ast.Assign) and len(s.targets) == 1 and isinstance(s.targets[0], ast.Name):
                    self._bind_local(s.targets[0].id, s.value)
            tgts = s.targets if isinstance(s, ast.Assign) else [s.target]
            for t in tgts:
                if isinstance(t, ast.Subscript):
                    state = self.expr(t.value, state)
                    state = self.expr(t.slice, state)
                elif isinstance(t, ast.Attribute):
                    state = self.expr(t.value, state)
            if id(s) in self.write_nodes:
                state = self.mark_write(s, state)
            return state
        if isinstance(s, ast.Return):
            if s.value is not None:
                state = self.expr(s.value, state)
            return "STOP"
        if isinstance(s, ast.Raise):
            if s.exc is None:
                self.site(s, "reraise", {"*"}, "raise", state)
            else:
                exc = self._exc_name(s.exc)
                state = self.expr(s.exc, state) if not isinstance(s.exc, ast.Call) else self._args_only(s.exc, state)
                self.site(s, "raise", {exc}, norm(s)[:80], state)
            return "STOP"
        if isinstance(s, ast.If):
            v = o.eval_test(self.fn, s.test, self.consts)
            state = self.expr(s.test, state)
            if v is True:
                return self.block(s.body, state)
            if v is False:
                return self.block(s.orelse, state)
            a = self.block(s.body, state)
            b = self.block(s.orelse, state)
            if a == "STOP" and b == "STOP":
                return "STOP"
            return self.join(a, b)
        if isinstance(s, (ast.For, ast.While)):
            if isinstance(s, ast.For):
                state = self.expr(s.iter, state)
            else:
                state = self.expr(s.test, state)
            first = self.block(s.body, state)
            st2 = self.join(state, first)
            if st2 != state and st2 != "STOP":
                # a second iteration starts after the first one's writes
                n_before = len(self.events)
                second = self.block(s.body, st2)
                # keep only new (site, written) combinations
                seen = {(id(e.site.node), e.site.text) for e in self.events[:n_before]}
                kept = self.events[:n_before]
                for e in self.events[n_before:]:
                    if (id(e.site.node), e.site.text) not in seen:
                        kept.append(e)
                        seen.add((id(e.site.node), e.site.text))
                self.events = kept
                st2 = self.join(st2, second)
            if s.orelse:
                st2 = self.join(st2, self.block(s.orelse, st2))
            return st2 if st2 != "STOP" else state
        if isinstance(s, ast.Try):
            self.try_stack.append(s)
            body_state = self.block(s.body, state)
            self.try_stack.pop()
            # handlers may start from any point of the body: written if the body wrote
            h_entry = self.join(state, body_state if body_state != "STOP" else self._body_wrote(s, state))
            outs = []
            for h in s.handlers:
                self.handler_stack.append((s, h))
                outs.append(self.block(h.body, h_entry))
                self.handler_stack.pop()
            res = body_state
            if s.orelse and body_state != "STOP":
                res = self.block(s.orelse, body_state)
            for x in outs:
                if res == "STOP":
                    res = x
                elif x != "STOP":
                    res = self.join(res, x)
            if s.finalbody:
                res2 = self.block(s.finalbody, res if res != "STOP" else h_entry)
                if res != "STOP":
                    res = res2
            return res
        if isinstance(s, ast.With):
            for it in s.items:
                state = self.expr(it.context_expr, state)
            return self.block(s.body, state)
        if isinstance(s, (ast.Pass, ast.Import, ast.ImportFrom, ast.Global, ast.Nonlocal, ast.FunctionDef, ast.ClassDef)):
            return state
        if isinstance(s, (ast.Break, ast.Continue)):
            return state
        if isinstance(s, ast.Delete):
            if id(s) in self.write_nodes:
                state = self.mark_write(s, state)
            return state
        if isinstance(s, ast.Assert):
            return self.expr(s.test, state)
        return state

    def _body_wrote(self, t: ast.Try, state):
        for n in ast.walk(ast.Module(body=t.body, type_ignores=[])):
            if id(n) in self.write_nodes:
                return self.write_nodes[id(n)]
        return state

    def mark_write(self, node, state):
        text = self.write_nodes.get(id(node), norm(node))
        self.self_writes.append((node, text))
        return state if state is not None else text

    def _bind_local(self, name, value):
        # reporter variables
        if isinstance(value, ast.Call):
            tgt = self.idx.resolve_symbol(self.fn.module, value.func) if isinstance(value.func, (ast.Name, ast.Attribute)) else None
            if isinstance(tgt, FuncInfo) and tgt.name == "getErrorReporter" and value.args:
                self.consts[name] = Reporter(self.o.eval_const(self.fn, value.args[0], self.consts))
                return
        v = self.o.eval_const(self.fn, value, self.consts)
        if name in self.consts and self.consts.get(name) is not UNKNOWN and v is UNKNOWN:
            self.consts[name] = UNKNOWN
        elif v is not UNKNOWN and name not in self.fn.params:
            self.consts[name] = v

    def _exc_name(self, e) -> str:
        if isinstance(e, ast.Call):
            e = e.func
        while isinstance(e, ast.Call):
            e = e.func
        t = norm(e)
        return t.split(".")[-1].strip("()")

    def _args_only(self, call: ast.Call, state):
        for a in call.args:
            state = self.expr(a, state)
        for k in call.keywords:
            state = self.expr(k.value, state)
        return state

    # ---- expressions in evaluation order
    def expr(self, e, state):
        if e is None:
            return state
        if isinstance(e, ast.Call):
            return self.call(e, state)
        if isinstance(e, (ast.Lambda,)):
            return state
        if isinstance(e, ast.Subscript):
            state = self.expr(e.value, state)
            state = self.expr(e.slice, state)
            if isinstance(e.ctx, ast.Load) and self._is_keyed_lookup(e):
                self.site(e, "lookup", {"KeyError"}, norm(e), state)
            return state
        if isinstance(e, (ast.ListComp, ast.SetComp, ast.GeneratorExp, ast.DictComp)):
            for g in e.generators:
                state = self.expr(g.iter, state)
                for c in g.ifs:
                    state = self.expr(c, state)
            if isinstance(e, ast.DictComp):
                state = self.expr(e.key, state)
                state = self.expr(e.value, state)
            else:
                state = self.expr(e.elt, state)
            return state
        if isinstance(e, ast.IfExp):
            state = self.expr(e.test, state)
            a = self.expr(e.body, state)
            b = self.expr(e.orelse, state)
            return self.join(a, b)
        for ch in ast.iter_child_nodes(e):
            if isinstance(ch, ast.expr):
                state = self.expr(ch, state)
        return state

    def _is_keyed_lookup(self, e: ast.Subscript) -> bool:
        """d[k] on a dict-valued attribute with a non-constant key."""
        if isinstance(e.slice, (ast.Constant, ast.Slice)):
            return False
        v = e.value
        if isinstance(v, ast.Attribute) and v.attr in ("_tierDict", "tierDict"):
            return True
        return False

    def call(self, e: ast.Call, state):
        o = self.o
        f = e.func
        # evaluation order: callee expression, arguments, then the call itself
        if isinstance(f, ast.Attribute):
            state = self.expr(f.value, state)
        elif not isinstance(f, ast.Name):
            state = self.expr(f, state)
        for a in e.args:
            state = self.expr(a.value if isinstance(a, ast.Starred) else a, state)
        for k in e.keywords:
            state = self.expr(k.value, state)

        fname = norm(f)
        # reporter call
        if isinstance(f, ast.Name) and isinstance(self.consts.get(f.id), Reporter):
            rep = self.consts[f.id]
            raising = o.raising_modes()
            if rep.mode is UNKNOWN or rep.mode in raising:
                exc = self._exc_name(e.args[0]) if e.args else "?"
                self.site(e, "reporter", {exc}, norm(e)[:70], state)
            return state
        if isinstance(f, ast.Name) and f.id in self.fn.params and f.id in ("errorReporter", "collisionReporter"):
            exc = self._exc_name(e.args[0]) if e.args else "?"
            self.site(e, "reporter", {exc}, norm(e)[:70], state)
            return state

        targets, kind = resolve_call(self.idx, self.fn, self.tenv, e)
        is_write = id(e) in self.write_nodes
        if targets:
            for t in targets:
                if t.name == "validateOption" and t.module.last == "utils":
                    self._validate_option(e, state)
                    continue
                if t.name == "getErrorReporter":
                    # dict lookup with the mode; invalid modes are rejected by validateOption before
                    continue
                sub_consts = o.bind_consts(self.fn, t, e, self.consts)
                # pass reporter values through
                for p, a in self._bound_args(t, e):
                    if isinstance(a, ast.Name) and isinstance(self.consts.get(a.id), (Reporter, OwnEntries)):
                        sub_consts[p] = self.consts[a.id]
                    elif self._expr_is_own_entries(a) and isinstance(e.func, ast.Attribute) and norm(e.func.value) == (self.fn.self_name or "self"):
                        # a list of the receiver's own entries handed to a private method of the same object
                        sub_consts[p] = OwnEntries()
                w = o.analyse(t, sub_consts, self.depth + 1)
                via = (t.short,)
                excs = set()
                for s in w.sites:
                    excs |= s.exc
                if w.sites:
                    # one site per callee (summarised) + keep the underlying sites for diagnostics
                    kinds = {s.kind for s in w.sites}
                    k = "lookup" if kinds <= {"lookup"} else "call"
                    detail = "; ".join(sorted({s.describe() for s in w.sites}))[:300]
                    site = RaiseSite(self.fn, e, k, excs, norm(e)[:80], via)
                    site.detail = detail
                    site.callee_walk = w
                    self.sites.append(site)
                    if state is not None:
                        self.events.append(Event(site, state, self.exemption(site, state), self.try_stack[-1] if self.try_stack else None))
                    elif is_write and kind != "ctor":
                        # same call writes and may raise: the callee itself must be atomic
                        bad = [ev for ev in w.events if ev.exempt is None]
                        if bad:
                            for ev in bad:
                                nested = RaiseSite(self.fn, e, ev.site.kind, ev.site.exc, norm(e)[:80], via + ev.site.via + (ev.site.text,))
                                self.sites.append(nested)
                                self.events.append(Event(nested, "inside %s: %s" % (t.short, ev.written), None))
        else:
            # not a repository function: vocabulary of raising primitives
            if isinstance(f, ast.Attribute):
                if f.attr == "index" and not self._is_module(f.value):
                    self.site(e, "lookup", {"ValueError"}, norm(e)[:70], state)
                elif f.attr == "pop" and isinstance(f.value, ast.Attribute) and f.value.attr in ("_tierDict", "tierDict") and e.args and not isinstance(e.args[0], ast.Constant) and len(e.args) == 1:
                    # atomic primitive: raises (KeyError) or writes, never both
                    self.site(e, "lookup", {"KeyError"}, norm(e)[:70], state)
                elif f.attr == "remove" and not self._is_module(f.value):
                    self.site(e, "lookup", {"ValueError"}, norm(e)[:70], state)
        if is_write:
            state = self.mark_write(e, state)
        return state

    def _is_module(self, node) -> bool:
        r = self.idx.resolve_symbol(self.fn.module, node) if isinstance(node, (ast.Name, ast.Attribute)) else None
        return isinstance(r, ModuleInfo) or (isinstance(node, ast.Name) and node.id in self.fn.module.aliases)

    def _bound_args(self, t: FuncInfo, e: ast.Call):
        out = []
        for i, a in enumerate(e.args):
            if i < len(t.params):
                out.append((t.params[i], a))
        for k in e.keywords:
            if k.arg:
                out.append((k.arg, k.value))
        return out

    def _validate_option(self, e: ast.Call, state):
        if len(e.args) < 3:
            return
        v = self.o.eval_const(self.fn, e.args[1], self.consts)
        klass = self.idx.resolve_symbol(self.fn.module, e.args[2])
        valid = None
        if isinstance(klass, ClassInfo):
            valid = klass.consts.get("validOptions")
        if v is not UNKNOWN and valid is not None and v in valid:
            return
        self.site(e, "option", {"WrongOption"}, norm(e)[:70], state)

    # ---------------------------------------------------------------- exemptions
    def exemption(self, site: RaiseSite, state) -> Optional[str]:
        # (b) rollback idiom: inside a try whose handler restores and re-raises
        for t in reversed(self.try_stack):
            r = self.rollback_reason(t, site)
            if r:
                return r
        # restore call / final re-raise inside a rollback handler
        if self.handler_stack:
            t, h = self.handler_stack[-1]
            info = self.rollback_info(t)
            if info and info["handler"] is h:
                if site.kind == "reraise":
                    return "re-raise at the end of a rollback handler (state restored by %s)" % norm(info["restore"])[:60]
                if site.node is info["restore"]:
                    return "restore call of the rollback idiom: re-adds the saved tier under its own (just removed) name at the saved index with reporting silenced; cannot clash"
        # (c) provenance
        p = self.provenance_reason(site)
        if p:
            return p
        return None

    def rollback_info(self, t: ast.Try):
        """Recognise: handler body = [restore-call..., bare raise]."""
        for h in t.handlers:
            if not h.body or not (isinstance(h.body[-1], ast.Raise) and h.body[-1].exc is None):
                continue
            for st in h.body[:-1]:
                if isinstance(st, ast.Expr) and isinstance(st.value, ast.Call):
                    c = st.value
                    tg, kind = resolve_call(self.idx, self.fn, self.tenv, c)
                    if tg and any(x.name == "addTier" for x in tg) and c.args:
                        return {"handler": h, "restore": c, "type": h.type}
        return None

    def rollback_reason(self, t: ast.Try, site: RaiseSite) -> Optional[str]:
        info = self.rollback_info(t)
        if not info:
            return None
        c = info["restore"]
        # the restored object must be a name bound before the try from the removed tier
        saved = c.args[0]
        if not isinstance(saved, ast.Name):
            return None
        src = self.provenance.get(saved.id)
        ok_src = False
        if isinstance(src, ast.Call):
            tg, _ = resolve_call(self.idx, self.fn, self.tenv, src)
            if tg and any(x.name in ("getTier", "removeTier") for x in tg):
                ok_src = True
            if norm(src.func).endswith("_tierDict.pop"):
                ok_src = True
        if isinstance(src, ast.Subscript) and norm(src.value).endswith("_tierDict"):
            ok_src = True
        if not ok_src:
            return None
        # saved index
        idx_ok = False
        if len(c.args) > 1 and isinstance(c.args[1], ast.Name):
            isrc = self.provenance.get(c.args[1].id)
            if isrc is not None and "tierNames" in norm(isrc) and ".index(" in norm(isrc):
                idx_ok = True
        for k in c.keywords:
            if k.arg == "tierIndex" and isinstance(k.value, ast.Name):
                isrc = self.provenance.get(k.value.id)
                if isrc is not None and "tierNames" in norm(isrc) and ".index(" in norm(isrc):
                    idx_ok = True
        if not idx_ok:
            cand = c.args[1] if len(c.args) > 1 else next((k.value for k in c.keywords if k.arg == "tierIndex"), None)
            if isinstance(cand, ast.Name) and cand.id in self.fn.params and self._callers_pass_saved_index(cand.id):
                idx_ok = True
        if not idx_ok:
            return None
        # restore must not report: reportingMode constant not raising
        callee = self.idx.get("Textgrid.addTier")
        sub = self.o.bind_consts(self.fn, callee, c, self.consts)
        mode = sub.get("reportingMode", UNKNOWN)
        if mode is UNKNOWN or mode in self.o.raising_modes():
            return None
        # the handler must catch everything the guarded call can raise
        htype = info["type"]
        if htype is None:
            covered_all = True
            hnames = ["<bare>"]
        else:
            hnames = [norm(x).split(".")[-1] for x in (htype.elts if isinstance(htype, ast.Tuple) else [htype])]
            covered_all = any(n in ("Exception", "BaseException") for n in hnames)
        if not covered_all:
            missing = []
            for ex in sorted(site.exc):
                if ex in ("*", "?"):
                    missing.append(ex)
                    continue
                anc = self.o.exc_ancestors(ex)
                if not any(n in anc for n in hnames):
                    missing.append(ex)
            if missing:
                site.rollback_gap = "rollback handler catches only %s; %s propagates with the old tier already removed" % ("/".join(hnames), "/".join(missing))
                return None
        return "inside try whose handler (%s) restores the removed tier at its saved index and re-raises" % "/".join(hnames)

    def _callers_pass_saved_index(self, pname: str) -> bool:
        """Every call of this (private) function passes, for `pname`, a name bound from <x>.tierNames.index(...)."""
        pi = self.fn.params.index(pname)
        found = 0
        for g in self.idx.all_functions():
            if g is self.fn:
                continue
            te = None
            for call in ast.walk(g.node):
                if not (isinstance(call, ast.Call) and isinstance(call.func, ast.Attribute) and call.func.attr == self.fn.name):
                    continue
                arg = call.args[pi] if pi < len(call.args) else next((k.value for k in call.keywords if k.arg == pname), None)
                if not isinstance(arg, ast.Name):
                    return False
                defs = [n.value for n in ast.walk(g.node) if isinstance(n, ast.Assign) and len(n.targets) == 1 and norm(n.targets[0]) == arg.id]
                if len(defs) != 1 or "tierNames" not in norm(defs[0]) or ".index(" not in norm(defs[0]):
                    return False
                found += 1
        return found > 0

    def provenance_reason(self, site: RaiseSite) -> Optional[str]:
        n = site.node
        if not isinstance(n, ast.Call):
            if isinstance(n, ast.Subscript):
                return self._key_provenance(n.slice)
            return None
        f = n.func
        # (c)(i) self.deleteEntry(m), m drawn from self.crop(...)._entries / self.entries[...]
        tg, _ = resolve_call(self.idx, self.fn, self.tenv, n)
        if tg and all(t.name == "deleteEntry" for t in tg) and n.args and isinstance(f, ast.Attribute) and norm(f.value) == (self.fn.self_name or "self"):
            a = n.args[0]
            if isinstance(a, ast.Name) and a.id in self.loopvars:
                it = self.loopvars[a.id]
                base = it
                if isinstance(base, ast.Subscript):
                    base = base.value  # matchList[::-1]
                if isinstance(base, ast.Name) and not isinstance(self.consts.get(base.id), OwnEntries):
                    base = self.provenance.get(base.id)
                if base is not None and self._is_own_entries(base):
                    return "argument is drawn from the receiver's own entries (%s): every such entry is found by index()" % norm(base)[:60]
            if self._is_own_entries_elem(a):
                return "argument is an element of the receiver's own entry list"
        # (c)(ii) self.getTier(n) with n drawn from self.tierNames (+ a name stored on the same path)
        if tg and all(t.name == "getTier" for t in tg) and n.args:
            return self._key_provenance(n.args[0])
        return None

    def _expr_is_own_entries(self, a) -> bool:
        base = a
        if isinstance(base, ast.Subscript) and isinstance(base.slice, ast.Slice):
            base = base.value
        if isinstance(base, ast.Name):
            if isinstance(self.consts.get(base.id), OwnEntries):
                return True
            d = self.provenance.get(base.id)
            return d is not None and self._is_own_entries(d)
        return self._is_own_entries(base)

    def _is_own_entries(self, e) -> bool:
        s = self.fn.self_name or "self"
        if isinstance(e, ast.Name) and isinstance(self.consts.get(e.id), OwnEntries):
            return True
        t = norm(e)
        if t in (s + ".entries", s + "._entries"):
            return True
        if isinstance(e, ast.Attribute) and e.attr in ("entries", "_entries") and isinstance(e.value, ast.Call):
            c = e.value
            if isinstance(c.func, ast.Attribute) and norm(c.func.value) == s and c.func.attr == "crop":
                return True
        if isinstance(e, ast.Call) and norm(e.func) in ("list", "tuple") and e.args:
            return self._is_own_entries(e.args[0])
        return False

    def _is_own_entries_elem(self, a) -> bool:
        return isinstance(a, ast.Subscript) and self._is_own_entries(a.value)

    def _key_provenance(self, key) -> Optional[str]:
        s = self.fn.self_name or "self"
        if isinstance(key, ast.Name) and key.id in self.loopvars:
            it = self.loopvars[key.id]
            if norm(it) in (s + ".tierNames", s + "._tierDict", s + "._tierDict.keys()"):
                return "key iterates the receiver's own tier names"
            if isinstance(it, ast.Name):
                src = self.provenance.get(it.id)
                if src is not None and norm(src) in ("list(%s.tierNames)" % s, "list(%s._tierDict.keys())" % s, "list(%s._tierDict)" % s):
                    # names added to that list must have been stored into _tierDict in this function
                    added = []
                    for n in ast.walk(self.fn.node):
                        if isinstance(n, ast.Call) and isinstance(n.func, ast.Attribute) and norm(n.func.value) == it.id and n.func.attr in ("insert", "append"):
                            added.append(norm(n.args[-1]))
                    stored = set()
                    for n in ast.walk(self.fn.node):
                        if isinstance(n, ast.Assign) and len(n.targets) == 1 and isinstance(n.targets[0], ast.Subscript):
                            if norm(n.targets[0].value) == s + "._tierDict":
                                stored.add(norm(n.targets[0].slice))
                    if all(a in stored for a in added):
                        return "key iterates a copy of the receiver's tier names plus %s, which is stored into _tierDict in this function" % (", ".join(added) or "nothing")
        return None
