"""vp_static -- repository-specific static analysis for the praatIO properties C01-C19.

Every deciding step parses the working tree under $VP_REPO (default /repo) with
``ast``; nothing here imports praatio or executes repository code.
"""

import os

REPO = os.environ.get("VP_REPO", "/repo")
VERIF = os.path.dirname(os.path.dirname(os.path.abspath(__file__)))
