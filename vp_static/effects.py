"""E3 -- effect / alias analysis (rule family R-A).

Abstract value of an expression: AV(obj, elem)
  obj  = set of *roots* the object itself may alias or be owned by
  elem = set of roots of the objects stored inside it (all deeper levels folded in)
Roots: 'self', 'self*', 'p:<name>', 'p:<name>*', 'fresh', 'imm', 'unk'.
('x*' = objects stored inside container-valued root x.)

A *write* through a value targets its obj roots.  Method summaries
(mutates / returns / captures) are computed to a global fixpoint over the
resolved call graph and mapped to the caller's roots at every call site.
"""

import ast
from typing import Dict, List, Optional, Set

from .index import FuncInfo, Index, TypeEnv, ClassInfo, ModuleInfo, norm, resolve_call

IMM = frozenset(["imm"])
FRESH = frozenset(["fresh"])
UNK = frozenset(["unk"])

MUTATING_METHODS = {
    # list / dict / set / OrderedDict
    "append": "list.append", "extend": "list.extend", "insert": "list.insert", "pop": "pop",
    "remove": "remove", "clear": "clear", "sort": "list.sort", "reverse": "list.reverse",
    "update": "dict.update", "setdefault": "dict.setdefault", "popitem": "dict.popitem",
    "move_to_end": "OrderedDict.move_to_end", "add": "set.add", "discard": "set.discard",
}
STORING_METHODS = {"append", "extend", "insert", "update", "setdefault", "add"}
# non-mutating container methods that hand out elements
ELEMENT_METHODS = {"get", "values", "items", "copy", "__getitem__"}
IMM_RESULT_METHODS = {
    "keys", "index", "count", "join", "split", "strip", "rstrip", "lstrip", "replace", "format",
    "startswith", "endswith", "lower", "upper", "rfind", "find", "encode", "decode", "splitlines",
    "groups", "group", "read", "isdigit",
}
PURE_BUILTINS_IMM = {
    "len", "float", "int", "str", "repr", "abs", "round", "isinstance", "bool", "sum", "any", "all",
    "print", "type", "range", "hasattr", "id", "hash", "ord", "chr", "callable", "issubclass", "format",
}
ELEM_BUILTINS = {"min", "max", "next"}  # return an element of their argument
CONTAINER_BUILTINS = {"list", "tuple", "sorted", "set", "reversed", "enumerate", "zip", "filter", "map", "dict", "frozenset", "iter", "OrderedDict"}
SCALAR_ANN = {"float", "int", "str", "bool", "bytes", "Literal", "complex"}


class AV:
    __slots__ = ("obj", "elem")

    def __init__(self, obj=IMM, elem=None):
        self.obj = frozenset(obj)
        self.elem = frozenset(elem) if elem is not None else self.obj

    def join(self, other: "AV") -> "AV":
        return AV(self.obj | other.obj, self.elem | other.elem)

    def __eq__(self, o):
        return isinstance(o, AV) and self.obj == o.obj and self.elem == o.elem

    def __hash__(self):
        return hash((self.obj, self.elem))

    def is_imm(self):
        return self.obj <= IMM and self.elem <= IMM

    def all_roots(self):
        return self.obj | self.elem

    def __repr__(self):
        return "AV(%s|%s)" % (",".join(sorted(self.obj)), ",".join(sorted(self.elem)))


AV_IMM = AV(IMM, IMM)
AV_FRESH = AV(FRESH, FRESH)
AV_UNK = AV(UNK, UNK)


def drop_imm(roots):
    r = frozenset(roots) - IMM
    return r


class WriteRec:
    __slots__ = ("fn", "node", "roots", "text", "chain", "kind")

    def __init__(self, fn, node, roots, text, chain=(), kind="write"):
        self.fn = fn
        self.node = node
        self.roots = frozenset(roots)
        self.text = text
        self.chain = tuple(chain)
        self.kind = kind


class Summary:
    def __init__(self):
        self.mutates: Set[str] = set()  # callee tokens
        self.returns: AV = AV(frozenset(), frozenset())
        self.captures: Set[str] = set()  # param tokens stored as internal containers of self
        self.stores: Set[str] = set()  # param tokens stored somewhere inside self
        self.writes: List[WriteRec] = []
        self.unknown_writes: List[WriteRec] = []
        self.unresolved_calls: List[str] = []

    def sig(self):
        return (frozenset(self.mutates), self.returns, frozenset(self.captures), frozenset(self.stores), len(self.unknown_writes))


class Effects:
    def __init__(self, idx: Index):
        self.idx = idx
        self.summaries: Dict[FuncInfo, Summary] = {}
        self.tenvs: Dict[FuncInfo, TypeEnv] = {}
        self.mutable_attrs: Set[str] = set()
        self.elem_mutable_attrs: Set[str] = set()
        self.object_attrs: Set[str] = set()
        self._classify_attrs()
        self._fixpoint()

    # ------------------------------------------------------------------
    def tenv(self, fn: FuncInfo) -> TypeEnv:
        if fn not in self.tenvs:
            self.tenvs[fn] = TypeEnv(self.idx, fn)
        return self.tenvs[fn]

    def _classify_attrs(self):
        idx = self.idx
        for fn in idx.all_functions():
            for node in ast.walk(fn.node):
                tgt = val = ann = None
                if isinstance(node, ast.Assign) and len(node.targets) == 1:
                    tgt, val = node.targets[0], node.value
                elif isinstance(node, ast.AnnAssign):
                    tgt, val, ann = node.target, node.value, node.annotation
                if isinstance(tgt, ast.Attribute):
                    a = tgt.attr
                    if ann is not None:
                        txt = norm(ann)
                        if any(k in txt for k in ("List", "Dict", "list", "dict", "OrderedDict", "Set")):
                            self.mutable_attrs.add(a)
                            if idx.ann_classes(fn.module, ann):
                                self.elem_mutable_attrs.add(a)
                        elif idx.ann_classes(fn.module, ann):
                            self.object_attrs.add(a)
                    if val is not None:
                        if isinstance(val, (ast.List, ast.Dict, ast.ListComp, ast.DictComp, ast.Set, ast.SetComp)):
                            self.mutable_attrs.add(a)
                        elif isinstance(val, ast.Call) and norm(val.func).split(".")[-1] in ("list", "dict", "OrderedDict", "set", "defaultdict"):
                            self.mutable_attrs.add(a)
                        elif isinstance(val, ast.Name) and val.id in fn.annotations:
                            txt = norm(fn.annotations[val.id])
                            if txt.startswith(("List", "Dict", "list", "dict")):
                                self.mutable_attrs.add(a)
                            elif idx.ann_classes(fn.module, fn.annotations[val.id]) and not txt.startswith(("Type", "Optional[Type")):
                                self.object_attrs.add(a)
                        elif isinstance(val, ast.Call):
                            r = idx.resolve_symbol(fn.module, val.func) if isinstance(val.func, (ast.Name, ast.Attribute)) else None
                            if isinstance(r, ClassInfo):
                                self.object_attrs.add(a)
                # X.attr.append(..) / X.attr[k] = v
                if isinstance(node, ast.Call) and isinstance(node.func, ast.Attribute) and node.func.attr in MUTATING_METHODS:
                    recv = node.func.value
                    if isinstance(recv, ast.Attribute):
                        self.mutable_attrs.add(recv.attr)
                if isinstance(node, (ast.Assign, ast.AugAssign)):
                    tgts = node.targets if isinstance(node, ast.Assign) else [node.target]
                    for t in tgts:
                        if isinstance(t, ast.Subscript) and isinstance(t.value, ast.Attribute):
                            self.mutable_attrs.add(t.value.attr)
                            if isinstance(node, ast.Assign) and isinstance(node.value, ast.Name):
                                te = self.tenv(fn)
                                if te.type_of(node.value):
                                    self.elem_mutable_attrs.add(t.value.attr)

    def _fixpoint(self):
        fns = self.idx.all_functions()
        for fn in fns:
            self.summaries[fn] = Summary()
        for it in range(12):
            changed = False
            for fn in fns:
                new = FuncAnalysis(self, fn).run()
                if new.sig() != self.summaries[fn].sig():
                    changed = True
                self.summaries[fn] = new
            if not changed:
                break
        self.iterations = it + 1

    def summary(self, fn: FuncInfo) -> Summary:
        return self.summaries[fn]


class FuncAnalysis:
    def __init__(self, eff: Effects, fn: FuncInfo):
        self.eff = eff
        self.idx = eff.idx
        self.fn = fn
        self.tenv = eff.tenv(fn)
        self.sum = Summary()
        self.local_funcs: Set[str] = set()
        self._seen_writes = set()

    # -- helpers -----------------------------------------------------------
    def param_av(self, p: str) -> AV:
        ann = self.fn.annotations.get(p)
        if ann is not None:
            txt = norm(ann)
            if txt.startswith("Optional["):
                txt = txt[len("Optional["):-1]
            head = txt.split("[")[0].split(".")[-1].strip("'\"")
            if head in SCALAR_ANN:
                return AV_IMM
            if head in ("Callable", "Type"):
                return AV_IMM
        return AV(["p:" + p], ["p:" + p + "*"])

    def record_write(self, node, av: AV, text: str, chain=(), deep=False):
        roots = drop_imm(av.elem if deep else av.obj)
        if not roots:
            return
        key = (id(node), text, roots, tuple(chain))
        if key in self._seen_writes:
            return
        self._seen_writes.add(key)
        rec = WriteRec(self.fn, node, roots, text, chain)
        if "unk" in roots:
            self.sum.unknown_writes.append(rec)
        if roots - FRESH - UNK:
            self.sum.writes.append(rec)
            for r in roots:
                if r not in ("fresh", "unk"):
                    self.sum.mutates.add(r)

    # -- run -----------------------------------------------------------------
    def run(self) -> Summary:
        fn = self.fn
        env: Dict[str, AV] = {}
        if fn.has_self:
            if fn.is_classmethod:
                env[fn.self_name] = AV_IMM
            else:
                env[fn.self_name] = AV(["self"], ["self*"])
        for p in fn.params + fn.kwonly:
            env[p] = self.param_av(p)
        a = fn.node.args
        if a.vararg:
            env[a.vararg.arg] = AV(FRESH, ["p:" + a.vararg.arg + "*"])
        if a.kwarg:
            env[a.kwarg.arg] = AV(FRESH, ["p:" + a.kwarg.arg + "*"])
        for node in fn.node.body:
            if isinstance(node, (ast.FunctionDef, ast.AsyncFunctionDef)):
                self.local_funcs.add(node.name)
        self.nested_fresh = self._nested_fresh_locals()
        self.block(fn.node.body, env)
        if not self.sum.returns.obj:
            self.sum.returns = AV_IMM  # returns None
        return self.sum

    def _nested_fresh_locals(self):
        """Locals that only ever hold a container created here whose *values* are containers created here
        (groups = {A: [], B: []}; buckets = [[] for _ in ...]).  Indexing such a local yields one of those inner,
        locally created containers -- an object of this function -- whatever has been put inside it meanwhile.
        Conditions (syntactic, conservative): one binding by such a display/comprehension; never aliased, never
        passed to a call as a whole, item stores only of locally created containers."""
        fn = self.fn

        def fresh_container(e):
            if isinstance(e, (ast.List, ast.Dict, ast.Set, ast.ListComp, ast.DictComp, ast.SetComp)):
                return True
            return isinstance(e, ast.Call) and isinstance(e.func, ast.Name) and e.func.id in ("list", "dict", "set", "OrderedDict", "deque", "defaultdict") and len(e.args) <= 1

        def nested_display(e):
            if isinstance(e, ast.Dict):
                return bool(e.values) and all(k is not None and fresh_container(v) for k, v in zip(e.keys, e.values))
            if isinstance(e, (ast.List, ast.Tuple)):
                return bool(e.elts) and all(fresh_container(v) for v in e.elts)
            if isinstance(e, ast.DictComp):
                return fresh_container(e.value)
            if isinstance(e, ast.ListComp):
                return fresh_container(e.elt)
            if isinstance(e, ast.Call) and isinstance(e.func, ast.Name) and e.func.id == "defaultdict" and len(e.args) == 1 and isinstance(e.args[0], ast.Name) and e.args[0].id in ("list", "dict", "set"):
                return True
            return False
        binds, bad = {}, set()
        parent = {}
        for n in ast.walk(fn.node):
            for c in ast.iter_child_nodes(n):
                parent[id(c)] = n
        for n in ast.walk(fn.node):
            if (isinstance(n, ast.Assign) and len(n.targets) == 1 and isinstance(n.targets[0], ast.Name)) or (isinstance(n, ast.AnnAssign) and isinstance(n.target, ast.Name) and n.value is not None):
                nm = n.targets[0].id if isinstance(n, ast.Assign) else n.target.id
                if nested_display(n.value):
                    binds[nm] = binds.get(nm, 0) + 1
                else:
                    bad.add(nm)
            elif isinstance(n, (ast.AugAssign, ast.For, ast.comprehension, ast.NamedExpr, ast.withitem)):
                tgt = getattr(n, "target", None) or getattr(n, "optional_vars", None)
                for x in (ast.walk(tgt) if tgt is not None else []):
                    if isinstance(x, ast.Name):
                        bad.add(x.id)
        cands = {nm for nm, k in binds.items() if k == 1 and nm not in bad and nm not in fn.all_params}
        for n in ast.walk(fn.node):
            if isinstance(n, ast.Name) and n.id in cands and isinstance(n.ctx, ast.Load):
                p = parent.get(id(n))
                ok = False
                if isinstance(p, ast.Subscript) and p.value is n:
                    gp = parent.get(id(p))
                    if isinstance(p.ctx, ast.Store):
                        ok = isinstance(gp, ast.Assign) and fresh_container(gp.value)
                    else:
                        ok = True
                elif isinstance(p, ast.Attribute) and p.value is n and p.attr in ("values", "items", "keys", "get", "setdefault", "__len__", "__contains__"):
                    gp = parent.get(id(p))
                    if p.attr == "setdefault":
                        ok = isinstance(gp, ast.Call) and len(gp.args) == 2 and fresh_container(gp.args[1])
                    else:
                        ok = True
                elif isinstance(p, ast.Call) and n in p.args and isinstance(p.func, ast.Name) and p.func.id in ("len", "sorted", "list", "iter", "enumerate", "bool"):
                    ok = True
                elif isinstance(p, (ast.For, ast.comprehension)) and p.iter is n:
                    ok = True
                elif isinstance(p, ast.Compare):
                    ok = True
                if not ok:
                    cands.discard(n.id)
        return cands

    # -- statements ----------------------------------------------------------
    def block(self, stmts, env) -> Optional[Dict[str, AV]]:
        for s in stmts:
            if env is None:
                return None
            env = self.stmt(s, env)
        return env

    @staticmethod
    def join_env(a, b):
        if a is None:
            return b
        if b is None:
            return a
        out = dict(a)
        for k, v in b.items():
            out[k] = out[k].join(v) if k in out else v
        return out

    def stmt(self, s, env):
        if isinstance(s, ast.Expr):
            self.ev(s.value, env)
            return env
        if isinstance(s, ast.Assign):
            v = self.ev(s.value, env)
            for t in s.targets:
                self.assign(t, v, env, s)
            return env
        if isinstance(s, ast.AnnAssign):
            if s.value is not None:
                v = self.ev(s.value, env)
                self.assign(s.target, v, env, s)
            return env
        if isinstance(s, ast.AugAssign):
            v = self.ev(s.value, env)
            t = s.target
            if isinstance(t, ast.Name):
                cur = env.get(t.id, AV_UNK)
                if cur.is_imm():
                    env[t.id] = AV_IMM if v.is_imm() else AV(FRESH, cur.elem | v.elem)
                else:
                    # in-place update of a mutable object (list += ...)
                    self.record_write(s, cur, norm(s))
                    env[t.id] = AV(cur.obj, cur.elem | v.elem | drop_imm(v.obj))
            else:
                base = self.ev(t.value, env)
                if isinstance(t, ast.Attribute):
                    self.record_write(s, base, norm(s))
                else:
                    self.record_write(s, base, norm(s))
            return env
        if isinstance(s, ast.Return):
            if s.value is not None:
                v = self.ev(s.value, env)
                self.sum.returns = AV(self.sum.returns.obj | v.obj, self.sum.returns.elem | v.elem)
            else:
                self.sum.returns = AV(self.sum.returns.obj | IMM, self.sum.returns.elem | IMM)
            return None
        if isinstance(s, ast.Raise):
            if s.exc is not None:
                self.ev(s.exc, env)
            return None
        if isinstance(s, (ast.Pass, ast.Import, ast.ImportFrom, ast.Global, ast.Nonlocal)):
            return env
        if isinstance(s, (ast.Break, ast.Continue)):
            return None
        if isinstance(s, ast.If):
            self.ev(s.test, env)
            e1 = self.block(s.body, dict(env))
            e2 = self.block(s.orelse, dict(env))
            return self.join_env(e1, e2)
        if isinstance(s, (ast.For, ast.AsyncFor)):
            it = self.ev(s.iter, env)
            cur = dict(env)
            for _ in range(4):
                body_env = dict(cur)
                self.assign(s.target, AV(it.elem, it.elem), body_env, s, loop=True)
                out = self.block(s.body, body_env)
                nxt = self.join_env(cur, out if out is not None else body_env)
                if nxt == cur:
                    break
                cur = nxt
            # loop variable survives the loop
            self.assign(s.target, AV(it.elem, it.elem), cur, s, loop=True, weak=True)
            e2 = self.block(s.orelse, dict(cur)) if s.orelse else cur
            return self.join_env(cur, e2)
        if isinstance(s, ast.While):
            cur = dict(env)
            for _ in range(4):
                self.ev(s.test, cur)
                out = self.block(s.body, dict(cur))
                nxt = self.join_env(cur, out)
                if nxt == cur:
                    break
                cur = nxt
            return cur
        if isinstance(s, ast.Try):
            e_body = self.block(s.body, dict(env))
            merged = self.join_env(dict(env), e_body)
            outs = []
            for h in s.handlers:
                he = dict(merged)
                if h.name:
                    he[h.name] = AV_FRESH
                outs.append(self.block(h.body, he))
            e_else = self.block(s.orelse, dict(e_body)) if (s.orelse and e_body is not None) else e_body
            res = e_else
            for o in outs:
                res = self.join_env(res, o)
            if s.finalbody:
                res = self.block(s.finalbody, res if res is not None else dict(merged))
            return res
        if isinstance(s, (ast.With, ast.AsyncWith)):
            for item in s.items:
                v = self.ev(item.context_expr, env)
                if item.optional_vars is not None:
                    self.assign(item.optional_vars, v, env, s)
            return self.block(s.body, env)
        if isinstance(s, ast.Delete):
            for t in s.targets:
                if isinstance(t, (ast.Subscript, ast.Attribute)):
                    base = self.ev(t.value, env)
                    self.record_write(s, base, norm(s))
            return env
        if isinstance(s, ast.Assert):
            self.ev(s.test, env)
            return env
        if isinstance(s, (ast.FunctionDef, ast.AsyncFunctionDef, ast.ClassDef)):
            return env
        # unmodelled statement kind: evaluate children conservatively
        for ch in ast.iter_child_nodes(s):
            if isinstance(ch, ast.expr):
                self.ev(ch, env)
        return env

    def assign(self, t, v: AV, env, stmt, loop=False, weak=False):
        if isinstance(t, ast.Name):
            if weak and t.id in env:
                env[t.id] = env[t.id].join(v)
            else:
                env[t.id] = v
        elif isinstance(t, (ast.Tuple, ast.List)):
            for e in t.elts:
                if isinstance(e, ast.Starred):
                    e = e.value
                if loop:
                    self.assign(e, v, env, stmt, loop=True, weak=weak)
                else:
                    self.assign(e, AV(v.elem, v.elem), env, stmt, weak=weak)
        elif isinstance(t, ast.Attribute):
            base = self.ev(t.value, env)
            self.record_write(stmt, base, norm(stmt) if not loop else "for-target " + norm(t))
            self._note_store(t, base, v, env)
        elif isinstance(t, ast.Subscript):
            base = self.ev(t.value, env)
            self.ev(t.slice, env)
            self.record_write(stmt, base, norm(stmt))
            self._taint(t.value, v, env)
            self._note_store(t, base, v, env)
        elif isinstance(t, ast.Starred):
            self.assign(t.value, v, env, stmt, loop, weak)

    def _note_store(self, target, base: AV, v: AV, env):
        """Record which parameters are stored into self (captures / stores)."""
        if "self" not in base.obj:
            return
        for r in drop_imm(v.obj):
            if r.startswith("p:"):
                self.sum.stores.add(r)
                if isinstance(target, ast.Attribute) and target.attr in self.eff.mutable_attrs and not r.endswith("*"):
                    self.sum.captures.add(r)
        for r in drop_imm(v.elem):
            if r.startswith("p:"):
                self.sum.stores.add(r)

    def _taint(self, recv_expr, v: AV, env):
        """A container variable now holds v."""
        add = drop_imm(v.obj | v.elem)
        if not add:
            return
        n = recv_expr
        while isinstance(n, (ast.Attribute, ast.Subscript)):
            n = n.value
        if isinstance(n, ast.Name) and n.id in env:
            cur = env[n.id]
            env[n.id] = AV(cur.obj, cur.elem | add)

    # -- expressions -----------------------------------------------------------
    def ev(self, e, env) -> AV:
        if e is None:
            return AV_IMM
        m = getattr(self, "ev_" + type(e).__name__, None)
        if m is not None:
            return m(e, env)
        # default: evaluate children, result immutable scalar
        for ch in ast.iter_child_nodes(e):
            if isinstance(ch, ast.expr):
                self.ev(ch, env)
        return AV_IMM

    def ev_Constant(self, e, env):
        return AV_IMM

    def ev_Name(self, e, env):
        if e.id in env:
            return env[e.id]
        r = self.idx.resolve_symbol(self.fn.module, e)
        if r is not None:
            return AV_IMM  # module / class / function object
        if e.id in self.fn.module.consts or e.id in self.fn.module.const_nodes:
            node = self.fn.module.const_nodes.get(e.id)
            if isinstance(node, (ast.List, ast.Dict, ast.Set)):
                return AV(["global"], ["imm"])
            return AV_IMM
        if e.id in ("True", "False", "None") or e.id in self.local_funcs:
            return AV_IMM
        if e.id in self.fn.module.aliases:
            return AV_IMM
        import builtins

        if hasattr(builtins, e.id):
            return AV_IMM
        return AV_UNK

    def ev_JoinedStr(self, e, env):
        for v in e.values:
            self.ev(v, env)
        return AV_IMM

    def ev_FormattedValue(self, e, env):
        self.ev(e.value, env)
        return AV_IMM

    def ev_BinOp(self, e, env):
        l = self.ev(e.left, env)
        r = self.ev(e.right, env)
        if l.is_imm() and r.is_imm():
            return AV_IMM
        if isinstance(e.op, (ast.Add, ast.Mult)):
            return AV(FRESH, (l.elem | r.elem))
        return AV_IMM

    def ev_BoolOp(self, e, env):
        out = None
        for v in e.values:
            a = self.ev(v, env)
            out = a if out is None else out.join(a)
        return out

    def ev_IfExp(self, e, env):
        self.ev(e.test, env)
        return self.ev(e.body, env).join(self.ev(e.orelse, env))

    def ev_Lambda(self, e, env):
        return AV_IMM

    def _display(self, elts, env):
        roots = set()
        for x in elts:
            if isinstance(x, ast.Starred):
                a = self.ev(x.value, env)
                roots |= a.elem
            else:
                a = self.ev(x, env)
                roots |= a.obj | a.elem
        return frozenset(roots) or IMM

    def ev_List(self, e, env):
        return AV(FRESH, self._display(e.elts, env))

    def ev_Set(self, e, env):
        return AV(FRESH, self._display(e.elts, env))

    def ev_Tuple(self, e, env):
        el = self._display(e.elts, env)
        return AV(IMM if el <= IMM else FRESH, el)

    def ev_Dict(self, e, env):
        for k in e.keys:
            if k is not None:
                self.ev(k, env)
        return AV(FRESH, self._display([v for v in e.values], env))

    def _comp(self, e, env, elts):
        cenv = dict(env)
        for g in e.generators:
            it = self.ev(g.iter, cenv)
            self.assign(g.target, AV(it.elem, it.elem), cenv, e, loop=True)
            for c in g.ifs:
                self.ev(c, cenv)
        roots = set()
        for x in elts:
            a = self.ev(x, cenv)
            roots |= a.obj | a.elem
        return AV(FRESH, frozenset(roots) or IMM)

    def ev_ListComp(self, e, env):
        return self._comp(e, env, [e.elt])

    def ev_SetComp(self, e, env):
        return self._comp(e, env, [e.elt])

    def ev_GeneratorExp(self, e, env):
        return self._comp(e, env, [e.elt])

    def ev_DictComp(self, e, env):
        return self._comp(e, env, [e.key, e.value])

    def ev_Starred(self, e, env):
        return self.ev(e.value, env)

    def ev_Yield(self, e, env):
        if e.value is not None:
            v = self.ev(e.value, env)
            self.sum.returns = AV(self.sum.returns.obj | FRESH, self.sum.returns.elem | v.obj | v.elem)
        return AV_IMM

    def ev_Subscript(self, e, env):
        base = self.ev(e.value, env)
        self.ev(e.slice, env)
        if base.is_imm():
            return AV_IMM
        if isinstance(e.slice, ast.Slice):
            if base.obj <= IMM:
                return AV(IMM if base.elem <= IMM else FRESH, base.elem)
            return AV(FRESH, base.elem)
        if isinstance(e.value, ast.Name) and e.value.id in getattr(self, "nested_fresh", ()):
            return AV(FRESH, base.elem)  # one of the inner containers created in this function
        return AV(base.elem, base.elem)

    def ev_Slice(self, e, env):
        for x in (e.lower, e.upper, e.step):
            if x is not None:
                self.ev(x, env)
        return AV_IMM

    def ev_Attribute(self, e, env):
        # module / class attribute?
        r = self.idx.resolve_symbol(self.fn.module, e)
        if r is not None and not (isinstance(e.value, ast.Name) and e.value.id in env):
            return AV_IMM
        if isinstance(e.value, ast.Name) and e.value.id not in env:
            rb = self.idx.resolve_symbol(self.fn.module, e.value)
            if rb is not None:
                return AV_IMM  # constants.X.Y etc.
            import builtins

            if not hasattr(builtins, e.value.id) and e.value.id not in self.fn.module.aliases:
                pass
            else:
                return AV_IMM
        base = self.ev(e.value, env)
        if base.is_imm():
            return AV_IMM
        # property?
        props = self._property_targets(e)
        if props:
            out = None
            for p in props:
                s = self.eff.summaries.get(p)
                if s is None:
                    continue
                self._apply_mutations(e, p, s, base, [], {}, env, e.value)
                a = self._map_av(s.returns, base, {}, p)
                out = a if out is None else out.join(a)
            if out is not None:
                return out
        a = e.attr
        if a in self.eff.mutable_attrs:
            # a container of owned objects also holds whatever was stored into its owner
            return AV(base.obj, (base.obj | base.elem) if a in self.eff.elem_mutable_attrs else IMM)
        if a in self.eff.object_attrs:
            return AV(base.obj, base.obj | base.elem)
        return AV_IMM

    def _property_targets(self, e: ast.Attribute) -> List[FuncInfo]:
        types = self.tenv.type_of(e.value)
        out = []
        if types:
            for c in sorted(types):
                ci = self.idx.classes.get(c)
                if not ci:
                    continue
                for k in [ci] + ci.all_subclasses():
                    m = k.lookup(e.attr)
                    if m is not None and m.is_property and m not in out:
                        out.append(m)
            out2 = [m for m in out if not m.is_abstract]
            return out2 or out
        # untyped receiver: all properties of that name in the package
        for ci in self.idx.classes.values():
            m = ci.methods.get(e.attr)
            if m is not None and m.is_property and not m.is_abstract:
                out.append(m)
        return out

    # -- calls -----------------------------------------------------------------
    def ev_Call(self, e: ast.Call, env):
        f = e.func
        fname = norm(f)
        argavs = [self.ev(a, env) for a in e.args]
        kwavs = {k.arg: self.ev(k.value, env) for k in e.keywords}

        # receiver value for attribute calls
        recv = None
        if isinstance(f, ast.Attribute):
            if not self._is_module_ref(f.value, env):
                if not (isinstance(f.value, ast.Call) and norm(f.value.func) == "super"):
                    recv = self.ev(f.value, env)

        targets, kind = resolve_call(self.idx, self.fn, self.tenv, e)
        if targets is not None and (targets or kind == "ctor"):
            return self._apply_call(e, targets, kind, recv, argavs, kwavs, env)

        # ---- not a repository function -----------------------------------
        if isinstance(f, ast.Name):
            n = f.id
            if n in env:  # calling a local callable (parameter / closure)
                self.sum.unresolved_calls.append(fname)
                return AV(UNK, UNK) if False else AV_FRESH
            if n in self.local_funcs:
                return AV_FRESH
            if n in PURE_BUILTINS_IMM:
                return AV_IMM
            if n in ELEM_BUILTINS:
                if argavs:
                    a = argavs[0]
                    if len(argavs) > 1:
                        out = argavs[0]
                        for x in argavs[1:]:
                            out = out.join(x)
                        return out
                    return AV(a.elem, a.elem)
                return AV_IMM
            if n in CONTAINER_BUILTINS:
                el = set()
                for a in argavs:
                    el |= a.elem
                el = frozenset(el) or IMM
                if n == "tuple" or n == "frozenset":
                    return AV(IMM if el <= IMM else FRESH, el)
                return AV(FRESH, el)
            if n in ("getattr",):
                return argavs[0] if argavs else AV_UNK
            if n == "super":
                return env.get(self.fn.self_name, AV_IMM) if self.fn.self_name else AV_IMM
            return AV_FRESH
        if isinstance(f, ast.Attribute):
            # external module function (re.sub, json.loads, copy.deepcopy, math.isclose ...)
            is_ext_module = self._is_module_ref(f.value, env)
            if is_ext_module and recv is None:
                if fname in ("copy.deepcopy",):
                    return AV_FRESH
                if fname in ("copy.copy",):
                    a = argavs[0] if argavs else AV_IMM
                    return AV(FRESH, a.elem)
                if fname.startswith("itertools.") or fname in ("zip_longest",):
                    el = set()
                    for a in argavs:
                        el |= a.elem
                    return AV(FRESH, frozenset(el) or IMM)
                return AV_FRESH
            if recv is None:
                recv = self.ev(f.value, env)
            m = f.attr
            if m in MUTATING_METHODS and not recv.is_imm():
                self.record_write(e, recv, norm(e))
                if m in STORING_METHODS:
                    for a in argavs + list(kwavs.values()):
                        self._taint(f.value, a if m not in ("extend", "update") else AV(a.elem, a.elem), env)
                        if "self" in recv.obj:
                            for r in drop_imm(a.obj | a.elem):
                                if r.startswith("p:"):
                                    self.sum.stores.add(r)
                if m in ("pop", "popitem", "setdefault"):
                    if m == "setdefault" and isinstance(f.value, ast.Name) and f.value.id in getattr(self, "nested_fresh", ()):
                        return AV(FRESH, recv.elem)
                    return AV(recv.elem, recv.elem)
                return AV_IMM
            if recv.is_imm():
                return AV_IMM
            if m in ("values", "items", "copy"):
                return AV(FRESH, recv.elem)
            if m in ("get",):
                out = AV(recv.elem, recv.elem)
                if isinstance(f.value, ast.Name) and f.value.id in getattr(self, "nested_fresh", ()):
                    out = AV(FRESH, recv.elem)
                for a in argavs[1:]:
                    out = out.join(a)
                return out
            if m in IMM_RESULT_METHODS:
                return AV_IMM
            if self._is_class_level_attr(f):
                return AV_FRESH  # e.g. self.entryType(*entry): a class stored on the class
            # unknown method on a non-immutable receiver of unknown class
            self.sum.unresolved_calls.append(fname)
            if "unk" in recv.obj and len(recv.obj) == 1:
                return AV_UNK
            # conservatively: may hand out internals, does not mutate (recorded as unresolved)
            return AV(recv.obj | FRESH, recv.elem | FRESH)
        if isinstance(f, ast.Call):
            self.ev(f, env)
            return AV_FRESH
        return AV_FRESH

    def _is_class_level_attr(self, f: ast.Attribute) -> bool:
        for c in self.tenv.type_of(f.value):
            ci = self.idx.classes.get(c)
            for k in (ci.mro() if ci else []):
                if f.attr in k.const_nodes:
                    return True
                for sub in k.node.body:
                    if isinstance(sub, ast.AnnAssign) and isinstance(sub.target, ast.Name) and sub.target.id == f.attr:
                        return True
        return False

    def _is_module_ref(self, node, env) -> bool:
        """node denotes a module / class object (not a value in the local environment)."""
        n = node
        while isinstance(n, ast.Attribute):
            n = n.value
        if not isinstance(n, ast.Name) or n.id in env:
            return False
        if isinstance(node, ast.Name):
            if node.id in self.fn.module.aliases:
                al = self.fn.module.aliases[node.id]
                if al[0] == "module":
                    return True
                r = self.idx.resolve_symbol(self.fn.module, node)
                return isinstance(r, (ModuleInfo, ClassInfo)) or r is None and al[0] == "symbol" and al[1].split(".")[0] != self.idx.package
            r = self.idx.resolve_symbol(self.fn.module, node)
            return isinstance(r, (ModuleInfo, ClassInfo))
        r = self.idx.resolve_symbol(self.fn.module, node)
        if isinstance(r, (ModuleInfo, ClassInfo)):
            return True
        # os.path, wave.Wave_read ...: attribute chain rooted at an external module alias
        al = self.fn.module.aliases.get(n.id)
        return bool(al and al[0] == "module" and al[1].split(".")[0] != self.idx.package)

    def _bind(self, target: FuncInfo, e: ast.Call, argavs, kwavs, kind):
        """Map callee parameter name -> caller AV."""
        params = list(target.params)
        binding: Dict[str, AV] = {}
        i = 0
        for a, node in zip(argavs, e.args):
            if isinstance(node, ast.Starred):
                # spread over the remaining positional params
                for p in params[i:]:
                    binding[p] = AV(a.elem, a.elem)
                i = len(params)
                break
            if i < len(params):
                binding[params[i]] = a
            elif target.node.args.vararg:
                va = target.node.args.vararg.arg
                binding[va] = binding.get(va, AV(FRESH, IMM)).join(AV(FRESH, a.obj | a.elem))
            i += 1
        for k, a in kwavs.items():
            if k is None:
                continue
            binding[k] = a
        return binding

    def _map_roots(self, roots, recv: Optional[AV], binding: Dict[str, AV], target: FuncInfo):
        out = set()
        for r in roots:
            if r == "self":
                out |= (recv.obj if recv is not None else FRESH)
            elif r == "self*":
                out |= (recv.elem if recv is not None else FRESH)
            elif r.startswith("p:"):
                deep = r.endswith("*")
                name = r[2:-1] if deep else r[2:]
                if name in binding:
                    out |= binding[name].elem if deep else binding[name].obj
                else:
                    out |= IMM  # default value (immutable literal / None)
            else:
                out.add(r)
        return frozenset(out)

    def _map_av(self, av: AV, recv, binding, target) -> AV:
        return AV(self._map_roots(av.obj, recv, binding, target) or IMM, self._map_roots(av.elem, recv, binding, target) or IMM)

    def _apply_mutations(self, e, target: FuncInfo, s: Summary, recv, argavs, binding, env, recv_expr=None):
        for tok in sorted(s.mutates):
            roots = drop_imm(self._map_roots([tok], recv, binding, target))
            if not roots:
                continue
            rec_av = AV(roots, roots)
            self.record_write(e, rec_av, norm(e), chain=(target.short + " mutates " + tok,))

    def _apply_call(self, e, targets, kind, recv, argavs, kwavs, env) -> AV:
        out = None
        if kind == "ctor":
            res = AV_FRESH
            for t in targets:
                s = self.eff.summaries.get(t)
                if s is None:
                    continue
                binding = self._bind(t, e, argavs, kwavs, kind)
                fresh_self = AV_FRESH
                self._apply_mutations(e, t, s, fresh_self, argavs, binding, env)
                held = set()
                for tok in s.stores | s.captures:
                    held |= drop_imm(self._map_roots([tok], fresh_self, binding, t))
                if held:
                    res = AV(res.obj, res.elem | held)
            return res
        for t in targets:
            s = self.eff.summaries.get(t)
            if s is None:
                continue
            r = recv
            if kind == "func" or t.is_static:
                r = None
            if t.is_classmethod:
                r = AV_IMM
            if t.cls is not None and r is None and kind == "method" and isinstance(e.func, ast.Attribute):
                # Class.method(obj, ...) or super().m(...) form: receiver is self
                if isinstance(e.func.value, ast.Call) and norm(e.func.value.func) == "super":
                    r = env.get(self.fn.self_name, AV_FRESH)
            binding = self._bind(t, e, argavs, kwavs, kind)
            self._apply_mutations(e, t, s, r, argavs, binding, env)
            # taint: receiver now holds stored args
            if s.stores and isinstance(e.func, ast.Attribute) and r is not None:
                held = set()
                for tok in s.stores:
                    held |= drop_imm(self._map_roots([tok], r, binding, t))
                if held:
                    self._taint(e.func.value, AV(held, held), env)
            a = self._map_av(s.returns, r, binding, t)
            out = a if out is None else out.join(a)
        return out if out is not None else AV_FRESH
