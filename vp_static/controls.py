"""Positive controls: tiny violating fixtures that every zero-count rule must flag on every run."""

import sys


def run() -> int:
    # filled in as rules are added; each control prints one line
    failures = 0
    for name, fn in CONTROLS:
        try:
            ok = fn()
        except Exception as e:  # pragma: no cover
            ok = False
            print("CONTROL %s raised %r" % (name, e))
        print("CONTROL %s %s" % (name, "flagged (ok)" if ok else "NOT FLAGGED"))
        if not ok:
            failures += 1
    return 0 if failures == 0 else 2


CONTROLS = []
