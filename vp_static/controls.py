"""Positive controls: for rules whose expected number of findings on a healthy tree is zero, a known
violating variant (a seeded change applied to a scratch copy under $TMPDIR) must be flagged on every run."""

import os

from . import VERIF

# (seeded change, property whose check must report it, the zero-count rule it exercises)
CONTROLS = [
    ("C09-m2", "C13", "A1-purity"),
    ("C11-m1", "C13", "B1-atomic"),
    ("C04-m2", "C13", "B2-save-order"),
    ("revert-D12", "C19", "K-layout"),
    ("revert-D11", "C16", "W-buf"),
    ("revert-D1", "C01", "RT-doc"),
    ("C14-r3m2", "C14", "V-fresh"),
]


def run() -> int:
    from .selftest import run_variant

    failures = 0
    for name, prop, rule in CONTROLS:
        patch = os.path.join(VERIF, "seeded", name, "patch.diff")
        if not os.path.isfile(patch):
            print("CONTROL %s missing" % name)
            failures += 1
            continue
        code, first = run_variant(patch, [prop])[prop]
        ok = code == 1
        print("CONTROL %-11s %s %-14s %s" % (name, prop, rule, "flagged (ok)" if ok else "NOT FLAGGED (exit %d) %s" % (code, first[:120])))
        if not ok:
            failures += 1
    return 0 if failures == 0 else 2
