"""E8 -- obligations, verdicts, known findings, evidence, exit codes."""

import json
import os
import sys
import time
import traceback
from typing import Dict, List, Optional

from . import VERIF

PROVED = "PROVED"
REFUTED = "REFUTED"
UNDECIDED = "UNDECIDED"
VANISHED = "VANISHED"
INFO = "INFO"


class Obligation:
    __slots__ = ("rule", "where", "construct", "verdict", "witness", "case", "nontrivial", "loc")

    def __init__(self, rule, where, construct, verdict, witness="", case=None, nontrivial=True, loc=""):
        self.rule = rule  # e.g. "A1-purity"
        self.where = where  # qualified function / site name (no line numbers)
        self.construct = construct  # normalised text of the construct
        self.verdict = verdict
        self.witness = witness  # human readable reason
        self.case = case  # abstract case / path, optional
        self.nontrivial = nontrivial
        self.loc = loc  # file:line (diagnostic only, never part of the key)

    def key(self, prop):
        return "%s|%s|%s|%s" % (prop, self.rule, self.where, self.construct)

    def as_dict(self):
        d = {
            "rule": self.rule,
            "where": self.where,
            "construct": self.construct,
            "verdict": self.verdict,
        }
        if self.witness:
            d["witness"] = self.witness
        if self.case is not None:
            d["case"] = self.case
        if self.loc:
            d["loc"] = self.loc
        return d


class Reporter:
    def __init__(self, prop: str, tier: str):
        self.prop = prop
        self.tier = tier
        self.t0 = time.time()
        self.obligations: List[Obligation] = []
        self.rules: Dict[str, str] = {}
        self.floors: List[tuple] = []
        self.not_decided: List[str] = []
        self.assumptions: List[str] = []
        self.extra: Dict[str, object] = {}
        self.functions = set()
        self.errors: List[str] = []
        self.infos: List[str] = []

    # -- registration -----------------------------------------------------
    def rule(self, name: str, text: str):
        self.rules[name] = text

    def add(self, rule, where, construct, verdict, witness="", case=None, nontrivial=True, loc=""):
        ob = Obligation(rule, where, construct, verdict, witness, case, nontrivial, loc)
        self.obligations.append(ob)
        return ob

    def proved(self, rule, where, construct, witness="", **kw):
        return self.add(rule, where, construct, PROVED, witness, **kw)

    def refuted(self, rule, where, construct, witness="", **kw):
        return self.add(rule, where, construct, REFUTED, witness, **kw)

    def undecided(self, rule, where, construct, witness="", **kw):
        return self.add(rule, where, construct, UNDECIDED, witness, **kw)

    def vanished(self, rule, where, construct="", witness="", **kw):
        return self.add(rule, where, construct, VANISHED, witness, **kw)

    def check(self, cond, rule, where, construct, ok="", bad="", **kw):
        if cond:
            return self.proved(rule, where, construct, ok, **kw)
        return self.refuted(rule, where, construct, bad, **kw)

    def floor(self, rule: str, minimum: int, what: str = ""):
        """Fewer than `minimum` obligations of `rule` => analysis error (vacuous pass guard)."""
        self.floors.append((rule, minimum, what))

    def info(self, text: str):
        self.infos.append(text)

    def count(self, rule_prefix: str) -> int:
        return sum(1 for o in self.obligations if o.rule == rule_prefix or o.rule.startswith(rule_prefix + "/"))

    # -- finish -----------------------------------------------------------
    def finish(self) -> int:
        prop = self.prop
        known = load_known_findings()
        known_keys = {k["key"]: k for k in known.get("known", []) if k.get("property") == prop}

        for rule, minimum, what in self.floors:
            n = self.count(rule)
            if n < minimum:
                self.errors.append(
                    "instance floor: rule %s matched %d site(s), fewer than the %d confirmed by hand (%s)"
                    % (rule, n, minimum, what)
                )

        refuted = [o for o in self.obligations if o.verdict == REFUTED]
        undec = [o for o in self.obligations if o.verdict in (UNDECIDED, VANISHED)]
        new_viol, known_hit = [], []
        for o in refuted:
            if o.key(prop) in known_keys:
                known_hit.append(o)
            else:
                new_viol.append(o)

        out = sys.stdout
        for o in known_hit:
            k = known_keys[o.key(prop)]
            out.write("KNOWN-FINDING: property=%s %s %s -- %s\n" % (prop, o.rule, o.where, k.get("what", o.witness)))
        for o in undec:
            out.write("ANALYSIS-ERROR property=%s %s %s %s :: %s -- %s\n" % (prop, o.verdict, o.rule, o.where, o.construct, o.witness))
        for e in self.errors:
            out.write("ANALYSIS-ERROR property=%s %s\n" % (prop, e))

        replay = None
        if new_viol:
            for o in new_viol:
                out.write(
                    "  %s %s -- %s -- %s%s\n      witness: %s\n"
                    % (o.loc or "-", o.where, o.rule, o.construct, (" -- case " + json.dumps(o.case)) if o.case is not None else "", o.witness)
                )
            replay = os.path.join(os.environ.get("VP_EVIDENCE_DIR") or os.path.join(VERIF, "evidence"), "%s.violation.json" % prop)
            try:
                if os.environ.get("VP_NO_EVIDENCE"):
                    raise OSError
                os.makedirs(os.path.dirname(replay), exist_ok=True)
                with open(replay, "w") as fd:
                    json.dump({"property": prop, "tier": self.tier, "violations": [dict(o.as_dict(), key=o.key(prop)) for o in new_viol]}, fd, indent=1)
            except OSError:
                pass

        if not new_viol and not os.environ.get("VP_NO_EVIDENCE"):
            stale = os.path.join(os.environ.get("VP_EVIDENCE_DIR") or os.path.join(VERIF, "evidence"), "%s.violation.json" % prop)
            if os.path.isfile(stale):
                try:
                    os.remove(stale)  # a replay file describes the last failing run only
                except OSError:
                    pass
        if undec or self.errors:
            code = 2
        elif new_viol:
            code = 1
        else:
            code = 0
        # violations take the VIOLATION line even if something else is undecided
        if new_viol:
            out.write("VIOLATION property=%s replay=%s\n" % (prop, replay))
            if code == 2 and not os.environ.get("VP_STRICT_ERRORS"):
                code = 1

        if not os.environ.get("VP_NO_EVIDENCE"):
            self._write_evidence(len(new_viol), known_hit, undec)
        n = len(self.obligations)
        npr = sum(1 for o in self.obligations if o.verdict == PROVED)
        out.write(
            "%s %s: %d obligations, %d proved, %d refuted (%d known), %d undecided/vanished, %d error(s) -> exit %d [%.2fs]\n"
            % (prop, self.tier, n, npr, len(refuted), len(known_hit), len(undec), len(self.errors), code, time.time() - self.t0)
        )
        return code

    def _write_evidence(self, nviol, known_hit, undec):
        obs = self.obligations
        by_rule: Dict[str, Dict[str, int]] = {}
        for o in obs:
            r = by_rule.setdefault(o.rule.split("/")[0], {"obligations": 0, "proved": 0, "refuted": 0, "other": 0})
            r["obligations"] += 1
            if o.verdict == PROVED:
                r["proved"] += 1
            elif o.verdict == REFUTED:
                r["refuted"] += 1
            else:
                r["other"] += 1
        distinct = len({(o.rule, o.where, o.construct, json.dumps(o.case, sort_keys=True, default=str)) for o in obs if o.nontrivial})
        # samples: up to 14 obligations spread over the rules
        samples, seen_rules = [], {}
        for o in obs:
            c = seen_rules.get(o.rule.split("/")[0], 0)
            if c < 2 and len(samples) < 14:
                samples.append(o.as_dict())
                seen_rules[o.rule.split("/")[0]] = c + 1
        for o in obs:
            if o.verdict != PROVED and len(samples) < 24:
                d = o.as_dict()
                if d not in samples:
                    samples.append(d)
        tables = self.extra.get("tables", {})
        table_cases = sum(t.get("cases", 0) for t in tables.values())
        table_samples = []
        for name, t in tables.items():
            for smp in t.get("samples", [])[:1]:
                if len(table_samples) < 8:
                    table_samples.append(dict(smp, table=name))
        ev = {
            "property_id": self.prop,
            "tier": self.tier,
            "seed": int(os.environ.get("VERIF_SEED", "0") or 0),
            "level": "other",
            "coverage": {
                "explanation": "static analysis (ast) of /repo's working tree; rules: "
                + "; ".join("%s = %s" % (k, v) for k, v in self.rules.items()),
                "obligations": len(obs),
                "discharged": sum(1 for o in obs if o.verdict == PROVED),
                "evaluations": max(1, len(obs) + table_cases),
                "distinct_nontrivial": distinct + table_cases,
                "rule": "structural rules: one obligation per (rule, construct); non-trivial = the construct contains a branch, call, store or comparison relevant to the rule; distinct = distinct (rule, function, construct text, case). Decision tables: one evaluation per (abstract state = weak order of the declared atoms, refined on demand) x mode, each compared with the spec row -- every such case is distinct by construction; 'obligations' counts one per table plus the structural ones, 'abstract_cases_in_tables' counts the cases",
                "abstract_cases_in_tables": table_cases,
                "samples": (samples + table_samples) or [{"note": "no obligations"}],
                "exhaustive": True,
                "per_rule": by_rule,
                "functions_analysed": sorted(self.functions),
                "known_findings_hit": [o.as_dict() for o in known_hit],
                "undecided": [o.as_dict() for o in undec],
                "analysis_errors": self.errors,
                "not_decided": self.not_decided,
                "info": self.infos,
            },
            "assumptions": self.assumptions
            + [
                "trusted base: CPython ast/re._parser, the spec tables in vp_static (each row cites the property sentence), the vocabulary tables (mutating methods, may-raise sites)",
                "ill-typed arguments (TypeError/AttributeError) are outside every property's quantifier",
            ],
            "wall_s": round(time.time() - self.t0, 3),
            "violations": nviol,
        }
        ev["coverage"].update(self.extra)
        path = os.path.join(VERIF, "evidence", "%s.json" % self.prop)
        os.makedirs(os.path.dirname(path), exist_ok=True)
        tmp = path + ".tmp"
        with open(tmp, "w") as fd:
            json.dump(ev, fd, indent=1, default=str)
        os.replace(tmp, path)


_KF_CACHE = None


def load_known_findings():
    global _KF_CACHE
    if _KF_CACHE is None:
        p = os.path.join(VERIF, "known_findings.json")
        try:
            with open(p) as fd:
                _KF_CACHE = json.load(fd)
        except FileNotFoundError:
            _KF_CACHE = {"known": [], "fixed": []}
    return _KF_CACHE


def run_check(prop: str, tier: str, fn) -> int:
    """Run a property check function fn(rep) with all tracebacks caught (exit 2)."""
    rep = Reporter(prop, tier)
    try:
        fn(rep)
    except Exception as e:  # analysis error, never a violation
        from .index import AnalysisError

        kind = "VANISHED" if type(e).__name__ == "Vanished" else ("UNDECIDED" if isinstance(e, AnalysisError) else "INTERNAL")
        rep.errors.append("%s: %s: %s" % (kind, type(e).__name__, e))
        if kind == "INTERNAL":
            tb = traceback.format_exc()
            sys.stdout.write(tb)
    try:
        return rep.finish()
    except Exception:
        sys.stdout.write("ANALYSIS-ERROR property=%s internal error while reporting\n" % prop)
        sys.stdout.write(traceback.format_exc())
        return 2
