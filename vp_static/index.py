"""E1 -- program index: modules, classes, functions, aliases, call resolution.

Everything is derived from the source files under <repo>/praatio on every run.
"""

import ast
import hashlib
import os
from typing import Dict, List, Optional, Set, Tuple

from . import REPO


class AnalysisError(Exception):
    """The analysis cannot see what it needs (vanished anchor, unmodelled form)."""


class Vanished(AnalysisError):
    pass


class Undecided(AnalysisError):
    pass


def unparse(node) -> str:
    try:
        return ast.unparse(node)
    except Exception:  # pragma: no cover
        return "<%s>" % type(node).__name__


def norm(node) -> str:
    """Normalised text of a construct (used in finding keys): one line, no positions."""
    return " ".join(unparse(node).split())


class FuncInfo:
    def __init__(self, module, cls, node):
        self.module = module
        self.cls = cls
        self.node = node
        self.name = node.name
        args = node.args
        self.all_params = [a.arg for a in args.posonlyargs + args.args]
        self.kwonly = [a.arg for a in args.kwonlyargs]
        self.decorators = [norm(d) for d in node.decorator_list]
        self.is_cached_property = any(d in ("cached_property", "functools.cached_property") for d in self.decorators)
        self.is_property = "property" in self.decorators or self.is_cached_property
        self.is_classmethod = "classmethod" in self.decorators
        self.is_static = "staticmethod" in self.decorators
        self.is_abstract = any(d.endswith("abstractmethod") for d in self.decorators)
        self.params = list(self.all_params)
        self.has_self = bool(cls) and not self.is_static
        if self.has_self and self.params:
            self.self_name = self.params[0]
            self.params = self.params[1:]
        else:
            self.self_name = None
        # defaults (AST nodes) by parameter name
        self.defaults: Dict[str, ast.AST] = {}
        pos = args.posonlyargs + args.args
        for a, d in zip(pos[len(pos) - len(args.defaults):], args.defaults):
            self.defaults[a.arg] = d
        for a, d in zip(args.kwonlyargs, args.kw_defaults):
            if d is not None:
                self.defaults[a.arg] = d
        self.annotations: Dict[str, ast.AST] = {
            a.arg: a.annotation
            for a in pos + args.kwonlyargs
            if a.annotation is not None
        }
        self.returns = node.returns

    @property
    def qual(self) -> str:
        if self.cls:
            return "%s:%s.%s" % (self.module.short, self.cls.name, self.name)
        return "%s:%s" % (self.module.short, self.name)

    @property
    def short(self) -> str:
        if self.cls:
            return "%s.%s" % (self.cls.name, self.name)
        return "%s.%s" % (self.module.last, self.name)

    @property
    def loc(self) -> str:
        return "%s:%d" % (self.module.relpath, self.node.lineno)

    def where(self, node) -> str:
        return "%s:%d" % (self.module.relpath, getattr(node, "lineno", self.node.lineno))

    def __repr__(self):
        return "<Func %s>" % self.qual


class ClassInfo:
    def __init__(self, module, node):
        self.module = module
        self.node = node
        self.name = node.name
        self.base_exprs = [norm(b) for b in node.bases]
        self.methods: Dict[str, FuncInfo] = {}
        self.consts: Dict[str, object] = {}
        self.const_nodes: Dict[str, ast.AST] = {}
        self.bases: List["ClassInfo"] = []
        self.subclasses: List["ClassInfo"] = []

    def mro(self) -> List["ClassInfo"]:
        out, seen = [], set()

        def walk(c):
            if c.name in seen:
                return
            seen.add(c.name)
            out.append(c)
            for b in c.bases:
                walk(b)

        walk(self)
        return out

    def lookup(self, name) -> Optional[FuncInfo]:
        for c in self.mro():
            if name in c.methods:
                return c.methods[name]
        return None

    def is_abstract(self) -> bool:
        """Has at least one abstract method that no class in its MRO implements."""
        names = set()
        for c in self.mro():
            names.update(c.methods)
        for n in names:
            m = self.lookup(n)
            if m is not None and m.is_abstract:
                return True
        return False

    def all_subclasses(self) -> List["ClassInfo"]:
        out = []

        def walk(c):
            for s in c.subclasses:
                if s not in out:
                    out.append(s)
                    walk(s)

        walk(self)
        return out

    def __repr__(self):
        return "<Class %s>" % self.name


class ModuleInfo:
    def __init__(self, dotted, path, relpath, src):
        self.dotted = dotted  # praatio.utilities.utils
        self.short = dotted[len("praatio."):] if dotted.startswith("praatio.") else dotted
        self.last = dotted.rsplit(".", 1)[-1]
        self.path = path
        self.relpath = relpath
        self.src = src
        self.tree = ast.parse(src, filename=path)
        self.functions: Dict[str, FuncInfo] = {}
        self.classes: Dict[str, ClassInfo] = {}
        # local name -> ("module", dotted) | ("symbol", dotted_module, name)
        self.aliases: Dict[str, Tuple] = {}
        self.consts: Dict[str, object] = {}
        self.const_nodes: Dict[str, ast.AST] = {}


def _literal(node):
    try:
        return ast.literal_eval(node)
    except Exception:
        return None


class Index:
    def __init__(self, repo: str = None, package: str = "praatio"):
        self.repo = repo or REPO
        self.package = package
        self.modules: Dict[str, ModuleInfo] = {}
        self.classes: Dict[str, ClassInfo] = {}
        self.consulted: Set[str] = set()
        self._load()

    # ------------------------------------------------------------------ load
    def _load(self):
        root = os.path.join(self.repo, self.package)
        if not os.path.isdir(root):
            raise Vanished("package directory %s not found" % root)
        for dirpath, dirnames, filenames in os.walk(root):
            dirnames[:] = sorted(d for d in dirnames if d != "__pycache__")
            for fn in sorted(filenames):
                if not fn.endswith(".py"):
                    continue
                path = os.path.join(dirpath, fn)
                rel = os.path.relpath(path, self.repo)
                dotted = rel[:-3].replace(os.sep, ".")
                if dotted.endswith(".__init__"):
                    dotted = dotted[: -len(".__init__")]
                with open(path, encoding="utf-8") as fd:
                    src = fd.read()
                try:
                    mod = ModuleInfo(dotted, path, rel, src)
                except SyntaxError as e:
                    raise AnalysisError("cannot parse %s: %s" % (rel, e))
                self.modules[dotted] = mod
        for mod in self.modules.values():
            self._index_module(mod)
        # class hierarchy
        for mod in self.modules.values():
            for cls in mod.classes.values():
                for b in cls.base_exprs:
                    bc = self._resolve_class_expr(mod, b)
                    if bc is not None:
                        cls.bases.append(bc)
                        bc.subclasses.append(cls)

    def _index_module(self, mod: ModuleInfo):
        for node in mod.tree.body:
            if isinstance(node, ast.Import):
                for a in node.names:
                    local = a.asname or a.name.split(".")[0]
                    mod.aliases[local] = ("module", a.name if a.asname else a.name.split(".")[0])
            elif isinstance(node, ast.ImportFrom):
                base = node.module or ""
                for a in node.names:
                    local = a.asname or a.name
                    full = base + "." + a.name
                    if full in self.modules or self._is_module_path(full):
                        mod.aliases[local] = ("module", full)
                    else:
                        mod.aliases[local] = ("symbol", base, a.name)
            elif isinstance(node, (ast.FunctionDef, ast.AsyncFunctionDef)):
                mod.functions[node.name] = FuncInfo(mod, None, node)
            elif isinstance(node, ast.ClassDef):
                cls = ClassInfo(mod, node)
                mod.classes[node.name] = cls
                if node.name not in self.classes:
                    self.classes[node.name] = cls
                for sub in node.body:
                    if isinstance(sub, (ast.FunctionDef, ast.AsyncFunctionDef)):
                        cls.methods[sub.name] = FuncInfo(mod, cls, sub)
                    elif isinstance(sub, (ast.Assign, ast.AnnAssign)):
                        tgts = sub.targets if isinstance(sub, ast.Assign) else [sub.target]
                        if sub.value is None:
                            continue
                        for t in tgts:
                            if isinstance(t, ast.Name):
                                cls.const_nodes[t.id] = sub.value
                # resolve class constants (two passes so validOptions sees names)
                for _ in range(2):
                    for k, v in cls.const_nodes.items():
                        val = self._eval_const(v, cls.consts, mod)
                        if val is not None:
                            cls.consts[k] = val
            elif isinstance(node, (ast.Assign, ast.AnnAssign)):
                tgts = node.targets if isinstance(node, ast.Assign) else [node.target]
                if node.value is None:
                    continue
                pairs = []
                for t in tgts:
                    if isinstance(t, ast.Name):
                        pairs.append((t.id, node.value))
                    elif isinstance(t, (ast.Tuple, ast.List)) and isinstance(node.value, (ast.Tuple, ast.List)) and len(t.elts) == len(node.value.elts):
                        pairs += [(e.id, v) for e, v in zip(t.elts, node.value.elts) if isinstance(e, ast.Name)]
                    elif isinstance(t, (ast.Tuple, ast.List)) and isinstance(node.value, ast.Call) and isinstance(node.value.func, ast.Name) and node.value.func.id == "range" \
                            and len(node.value.args) == 1 and isinstance(node.value.args[0], ast.Constant):
                        pairs += [(e.id, ast.Constant(value=i)) for i, e in enumerate(t.elts) if isinstance(e, ast.Name)]
                for name_, value_ in pairs:
                    mod.const_nodes[name_] = value_
                    val = self._eval_const(value_, mod.consts, mod)
                    if val is not None:
                        mod.consts[name_] = val

    def _is_module_path(self, dotted):
        p = os.path.join(self.repo, *dotted.split("."))
        return os.path.isfile(p + ".py") or os.path.isdir(p)

    def _eval_const(self, node, env, mod):
        lit = _literal(node)
        if lit is not None:
            return lit
        if isinstance(node, ast.Name) and node.id in env:
            return env[node.id]
        if isinstance(node, (ast.List, ast.Tuple)):
            vals = [self._eval_const(e, env, mod) for e in node.elts]
            if all(v is not None for v in vals):
                return vals if isinstance(node, ast.List) else tuple(vals)
        if isinstance(node, ast.BinOp) and isinstance(node.op, ast.Mult):
            l = self._eval_const(node.left, env, mod)
            r = self._eval_const(node.right, env, mod)
            if l is not None and r is not None:
                try:
                    return l * r
                except Exception:
                    return None
        return None

    # ------------------------------------------------------------ resolution
    def module_by_last(self, last: str) -> ModuleInfo:
        cands = [m for m in self.modules.values() if m.last == last]
        if len(cands) == 1:
            return cands[0]
        raise Vanished("module '%s' not found or ambiguous (%d)" % (last, len(cands)))

    def module(self, short: str) -> ModuleInfo:
        """module by path relative to the package, e.g. 'utilities.utils' or 'audio'."""
        key = self.package + "." + short if short else self.package
        if key in self.modules:
            return self.modules[key]
        raise Vanished("module '%s' not found" % short)

    def cls(self, name: str) -> ClassInfo:
        if name in self.classes:
            return self.classes[name]
        raise Vanished("class '%s' not found" % name)

    def get(self, spec: str) -> FuncInfo:
        """'Class.method' | 'modshort:func' | 'modshort:Class.method'."""
        self.consulted.add(spec)
        if ":" in spec:
            ms, rest = spec.split(":", 1)
            mod = self.module(ms)
            if "." in rest:
                c, m = rest.split(".", 1)
                if c in mod.classes and m in mod.classes[c].methods:
                    return mod.classes[c].methods[m]
            elif rest in mod.functions:
                return mod.functions[rest]
            raise Vanished("function '%s' not found" % spec)
        if "." in spec:
            c, m = spec.split(".", 1)
            if c in self.classes:
                if m in self.classes[c].methods:
                    return self.classes[c].methods[m]
                raise Vanished("method '%s' not found" % spec)
        raise Vanished("function '%s' not found" % spec)

    def try_get(self, spec: str) -> Optional[FuncInfo]:
        try:
            return self.get(spec)
        except Vanished:
            return None

    def all_functions(self) -> List[FuncInfo]:
        out = []
        for mod in self.modules.values():
            out.extend(mod.functions.values())
            for cls in mod.classes.values():
                out.extend(cls.methods.values())
        return out

    def _resolve_class_expr(self, mod: ModuleInfo, expr: str) -> Optional[ClassInfo]:
        parts = expr.split(".")
        if len(parts) == 1:
            if parts[0] in mod.classes:
                return mod.classes[parts[0]]
            al = mod.aliases.get(parts[0])
            if al and al[0] == "symbol":
                m = self.modules.get(al[1])
                if m and al[2] in m.classes:
                    return m.classes[al[2]]
                # re-exported (e.g. praatio.textgrid re-exports IntervalTier)
                if m:
                    return self._resolve_class_expr(m, al[2])
            return None
        if len(parts) == 2:
            al = mod.aliases.get(parts[0])
            if al and al[0] == "module":
                m = self.modules.get(al[1])
                if m:
                    return self._resolve_class_expr(m, parts[1])
        return None

    def resolve_symbol(self, mod: ModuleInfo, node) -> Optional[object]:
        """Resolve a Name/Attribute expression to FuncInfo | ClassInfo | ModuleInfo | None."""
        if isinstance(node, ast.Name):
            n = node.id
            if n in mod.functions:
                return mod.functions[n]
            if n in mod.classes:
                return mod.classes[n]
            al = mod.aliases.get(n)
            if al:
                if al[0] == "module":
                    return self.modules.get(al[1])
                m = self.modules.get(al[1])
                if m:
                    if al[2] in m.functions:
                        return m.functions[al[2]]
                    if al[2] in m.classes:
                        return m.classes[al[2]]
                    if al[2] in m.aliases:
                        return self.resolve_symbol(m, ast.Name(id=al[2]))
            return None
        if isinstance(node, ast.Attribute):
            base = self.resolve_symbol(mod, node.value)
            if isinstance(base, ModuleInfo):
                if node.attr in base.functions:
                    return base.functions[node.attr]
                if node.attr in base.classes:
                    return base.classes[node.attr]
                if node.attr in base.aliases:
                    return self.resolve_symbol(base, ast.Name(id=node.attr))
                sub = self.modules.get(base.dotted + "." + node.attr)
                if sub:
                    return sub
            if isinstance(base, ClassInfo):
                f = base.lookup(node.attr)
                if f:
                    return f
            return None
        return None

    def const_value(self, mod: ModuleInfo, node):
        """Evaluate a constant expression such as constants.CropCollision.LAX or INTERVAL_TIER."""
        lit = _literal(node)
        if lit is not None or (isinstance(node, ast.Constant) and node.value is None):
            return lit
        if isinstance(node, ast.Name):
            if node.id in mod.consts:
                return mod.consts[node.id]
            al = mod.aliases.get(node.id)
            if al and al[0] == "symbol":
                m = self.modules.get(al[1])
                if m and al[2] in m.consts:
                    return m.consts[al[2]]
            return None
        if isinstance(node, ast.Attribute):
            base = self.resolve_symbol(mod, node.value)
            if isinstance(base, ClassInfo):
                for c in base.mro():
                    if node.attr in c.consts:
                        return c.consts[node.attr]
            if isinstance(base, ModuleInfo) and node.attr in base.consts:
                return base.consts[node.attr]
        return None

    # --------------------------------------------------------------- typing
    def ann_classes(self, mod: ModuleInfo, ann) -> Set[str]:
        """Repository class names mentioned by an annotation node."""
        out: Set[str] = set()
        if ann is None:
            return out
        if isinstance(ann, ast.Constant) and isinstance(ann.value, str):
            try:
                ann = ast.parse(ann.value, mode="eval").body
            except SyntaxError:
                return out
        for n in ast.walk(ann):
            if isinstance(n, (ast.Name, ast.Attribute)):
                r = self.resolve_symbol(mod, n)
                if isinstance(r, ClassInfo):
                    out.add(r.name)
            if isinstance(n, ast.Constant) and isinstance(n.value, str) and n is not ann:
                if n.value in self.classes:
                    out.add(n.value)
        return out

    def digest(self) -> str:
        h = hashlib.sha256()
        for k in sorted(self.modules):
            h.update(k.encode())
            h.update(self.modules[k].src.encode())
        return h.hexdigest()[:16]


class TypeEnv:
    """Flow-insensitive local class inference for one function: var -> set of class names."""

    def __init__(self, idx: Index, fn: FuncInfo):
        self.idx = idx
        self.fn = fn
        self.vars: Dict[str, Set[str]] = {}
        self.typevar_self = set()
        if fn.has_self and not fn.is_classmethod:
            self.vars[fn.self_name] = {fn.cls.name}
        for p, ann in fn.annotations.items():
            cs = idx.ann_classes(fn.module, ann)
            if cs:
                self.vars.setdefault(p, set()).update(cs)
            elif isinstance(ann, ast.Name) and ann.id == "T" and fn.cls:
                self.vars.setdefault(p, set()).add(fn.cls.name)
        for _ in range(4):
            changed = False
            for node in ast.walk(fn.node):
                tv = None
                if isinstance(node, ast.Assign) and len(node.targets) == 1:
                    tv = (node.targets[0], node.value)
                elif isinstance(node, ast.AnnAssign) and node.value is not None:
                    tv = (node.target, node.value)
                    cs = idx.ann_classes(fn.module, node.annotation)
                    if cs and isinstance(node.target, ast.Name):
                        if not cs <= self.vars.get(node.target.id, set()):
                            self.vars.setdefault(node.target.id, set()).update(cs)
                            changed = True
                elif isinstance(node, (ast.For, ast.comprehension)):
                    # for t in x.tiers / x._tierDict.values()
                    it = node.iter
                    cs = self.elem_type(it)
                    if cs and isinstance(node.target, ast.Name):
                        if not cs <= self.vars.get(node.target.id, set()):
                            self.vars.setdefault(node.target.id, set()).update(cs)
                            changed = True
                    continue
                elif isinstance(node, ast.Call) and norm(node.func) == "isinstance":
                    if len(node.args) == 2 and isinstance(node.args[0], ast.Name):
                        cs = set()
                        for n in ast.walk(node.args[1]):
                            r = idx.resolve_symbol(fn.module, n) if isinstance(n, (ast.Name, ast.Attribute)) else None
                            if isinstance(r, ClassInfo):
                                cs.add(r.name)
                        v = node.args[0].id
                        if cs and not cs <= self.vars.get(v, set()):
                            self.vars.setdefault(v, set()).update(cs)
                            changed = True
                    continue
                if tv and isinstance(tv[0], ast.Name):
                    cs = self.type_of(tv[1])
                    if cs and not cs <= self.vars.get(tv[0].id, set()):
                        self.vars.setdefault(tv[0].id, set()).update(cs)
                        changed = True
            if not changed:
                break

    def elem_type(self, it) -> Set[str]:
        # iteration over a textgrid's tiers
        if isinstance(it, ast.Attribute) and it.attr == "tiers":
            return {"TextgridTier"} if "TextgridTier" in self.idx.classes else set()
        if isinstance(it, ast.Call) and isinstance(it.func, ast.Attribute):
            if it.func.attr == "values" and norm(it.func.value).endswith("_tierDict"):
                return {"TextgridTier"} if "TextgridTier" in self.idx.classes else set()
        return set()

    def type_of(self, e) -> Set[str]:
        idx, fn = self.idx, self.fn
        if isinstance(e, ast.Name):
            return set(self.vars.get(e.id, set()))
        if isinstance(e, ast.IfExp):
            return self.type_of(e.body) | self.type_of(e.orelse)
        if isinstance(e, ast.Call):
            f = e.func
            r = idx.resolve_symbol(fn.module, f) if isinstance(f, (ast.Name, ast.Attribute)) else None
            if isinstance(r, ClassInfo):
                return {r.name}
            if isinstance(r, FuncInfo) and not (isinstance(f, ast.Attribute) and isinstance(f.value, ast.Name) and f.value.id in self.vars):
                return idx.ann_classes(r.module, r.returns)
            if isinstance(f, ast.Attribute):
                recv = self.type_of(f.value)
                out: Set[str] = set()
                for c in recv:
                    ci = idx.classes.get(c)
                    if not ci:
                        continue
                    m = ci.lookup(f.attr)
                    if m is None:
                        continue
                    if isinstance(m.returns, ast.Name) and m.returns.id == "T":
                        out.add(c)
                        continue
                    rc = idx.ann_classes(m.module, m.returns)
                    out |= rc
                if out:
                    return out
                # copy.deepcopy(x) keeps x's class
                if norm(f) in ("copy.deepcopy", "copy.copy") and e.args:
                    return self.type_of(e.args[0])
            if isinstance(f, ast.Call) and norm(f.func) == "type" and f.args:
                return self.type_of(f.args[0])
            if isinstance(f, ast.Name) and f.id == "cls" and fn.is_classmethod and fn.cls:
                return {fn.cls.name}
        if isinstance(e, ast.Attribute):
            # attribute annotated in class body or __init__ not tracked; special-case none
            return set()
        return set()


def resolve_call(idx: Index, fn: FuncInfo, tenv: TypeEnv, call: ast.Call):
    """Return (targets, kind): list of FuncInfo the call may invoke.

    kind: 'func' | 'method' | 'ctor' | None.  For 'ctor' targets are the __init__
    methods (may be empty if the class has none).  None => unresolved.
    """
    f = call.func
    # super().__init__ / super(X, self).m
    if isinstance(f, ast.Attribute) and isinstance(f.value, ast.Call) and norm(f.value.func) == "super":
        if fn.cls:
            mro = fn.cls.mro()[1:]
            for c in mro:
                if f.attr in c.methods:
                    return [c.methods[f.attr]], "method"
        return None, None
    # type(self)(...)
    if isinstance(f, ast.Call) and norm(f.func) == "type" and f.args:
        cs = tenv.type_of(f.args[0])
        targets = []
        for c in sorted(cs):
            ci = idx.classes[c]
            for k in [ci] + ci.all_subclasses():
                if k.is_abstract():
                    continue  # cannot be instantiated
                init = k.lookup("__init__")
                if init and init not in targets:
                    targets.append(init)
        if targets:
            return targets, "ctor"
        return None, None
    if isinstance(f, ast.Name) and f.id == "cls" and fn.is_classmethod and fn.cls:
        init = fn.cls.lookup("__init__")
        return ([init] if init else []), "ctor"
    if isinstance(f, (ast.Name, ast.Attribute)):
        # method call on a typed receiver takes precedence over symbol resolution
        if isinstance(f, ast.Attribute):
            recv = tenv.type_of(f.value)
            if recv:
                targets = []
                for c in sorted(recv):
                    ci = idx.classes.get(c)
                    if not ci:
                        continue
                    for k in [ci] + ci.all_subclasses():
                        m = k.lookup(f.attr)
                        if m and m not in targets:
                            targets.append(m)
                if targets:
                    # drop abstract declarations when concrete overriders exist
                    conc = [t for t in targets if not t.is_abstract]
                    return (conc or targets), "method"
        r = idx.resolve_symbol(fn.module, f)
        if isinstance(r, FuncInfo):
            return [r], ("method" if r.cls else "func")
        if isinstance(r, ClassInfo):
            init = r.lookup("__init__")
            return ([init] if init else []), "ctor"
    return None, None
