"""Spec tables: reference semantics of the tier operations, written from the property
statements (the quoted sentences) over symbolic values.  `O` is the comparison oracle of the
current abstract state; timestamps are linear forms, labels opaque terms.

A spec returns {"class", "entries", "min", "max"} or raises through O.raise_(ErrorName).
"""

from .absint import DontCare, Lin, Str, mkcat, mkjoin
from .tables import label_equal

ZERO = Lin.num(0)


def hull(O, lo, hi, out, kind="interval"):
    """'the span is widened just enough to contain' the entries (constructor behaviour)."""
    if out:
        first = out[0][0]
        last = out[-1][1] if kind == "interval" else out[-1][0]
        return O.mn(lo, first), O.mx(hi, last)
    return lo, hi


# --------------------------------------------------------------------------------- C06


def crop_interval(O, ents, a, b, mode, rebase):
    """C06: 'strict' keeps intervals wholly inside, 'lax' the intervals overlapping it (unchanged), 'truncated' the
    parts of intervals inside it; without rebasing timestamps untouched, span [a,b]; with rebasing shifted so the
    window (or an earlier-starting lax interval) begins at 0, span [0,b-a]; lax widens the span just enough;
    a window with no entries yields an empty tier; a >= b -> ArgumentError."""
    if O.ge(a, b):
        O.raise_("ArgumentError")
    out = []
    for s, e, l in ents:
        if mode == "strict":
            if O.le(a, s) and O.le(e, b):
                out.append((s, e, l))
        elif O.lt(s, b) and O.lt(a, e):  # overlap of positive length
            out.append((s, e, l) if mode == "lax" else (O.mx(s, a), O.mn(e, b), l))
    if rebase:
        delta = a
        if out and O.lt(out[0][0], a):
            delta = out[0][0]
        out = [(s - delta, e - delta, l) for s, e, l in out]
        lo, hi = ZERO, b - a
    else:
        lo, hi = a, b
    lo, hi = hull(O, lo, hi, out)
    return {"class": "IntervalTier", "entries": out, "min": lo, "max": hi}


def crop_point(O, ents, a, b, rebase):
    """C06: 'for point tiers the points with a <= t <= b'."""
    if O.ge(a, b):
        O.raise_("ArgumentError")
    out = [(t, l) for t, l in ents if O.le(a, t) and O.le(t, b)]
    if rebase:
        out = [(t - a, l) for t, l in out]
        lo, hi = ZERO, b - a
    else:
        lo, hi = a, b
    return {"class": "PointTier", "entries": out, "min": lo, "max": hi}


# --------------------------------------------------------------------------------- C07


def erase_interval(O, ents, m, M, a, b, mode, shrink):
    """C07: erasing [a,b] leaves the annotation outside unchanged and nothing inside: 'truncate' cuts intervals that
    reach into the region at a and b, 'categorical' removes every interval that overlaps it, 'error' raises
    CollisionError if anything overlaps (a >= b is rejected).  With shrinking everything after b moves earlier by
    exactly b-a, the span's end decreases by b-a, and an interval that straddled the region comes out as one
    interval shortened by b-a; without shrinking the span is unchanged."""
    if O.ge(a, b):
        O.raise_("ANY")  # 'a region with a >= b is rejected': the error class is not named
    hit = [x for x in ents if O.lt(x[0], b) and O.lt(a, x[1])]
    if hit and mode == "error":
        O.raise_("CollisionError")
    out = []
    for x in ents:
        if x in hit:
            if mode == "truncate":
                s, e, l = x
                if O.lt(s, a):
                    out.append((s, a, l))
                if O.gt(e, b):
                    out.append((b, e, l))
        else:
            out.append(x)
    if not shrink:
        return {"class": "IntervalTier", "entries": out, "min": m, "max": M}
    D = b - a
    res = []
    for s, e, l in out:
        if O.le(e, a):
            res.append((s, e, l))
        else:  # s >= b
            res.append((s - D, e - D, l))
    # a straddler comes out as ONE interval
    i = 0
    while i < len(res) - 1:
        x, y = res[i], res[i + 1]
        if O.eq(x[1], a) and O.eq(y[0], a) and label_equal(x[2], y[2]):
            res[i:i + 2] = [(x[0], y[1], x[2])]
            break
        i += 1
    return {"class": "IntervalTier", "entries": res, "min": m, "max": M - D}


def erase_point(O, ents, m, M, a, b, shrink):
    """C07: 'points with a <= t <= b are removed'; with shrinking later points move earlier by b-a."""
    if O.ge(a, b):
        O.raise_("ANY")
    out = [(t, l) for t, l in ents if not (O.le(a, t) and O.le(t, b))]
    if not shrink:
        return {"class": "PointTier", "entries": out, "min": m, "max": M}
    D = b - a
    out = [(t, l) if O.lt(t, a) else (t - D, l) for t, l in out]
    return {"class": "PointTier", "entries": out, "min": m, "max": M - D}


# --------------------------------------------------------------------------------- C08


def insert_space_interval(O, ents, m, M, p, d, mode):
    """C08: leaves every entry ending at or before s unchanged, moves every entry starting at or after s later by
    exactly d, lengthens the span by d; an interval straddling s is stretched by d, split into two same-labelled
    pieces around the gap, left as is, or rejected with an error."""
    out = []
    for s, e, l in ents:
        if O.le(e, p):
            out.append((s, e, l))
        elif O.ge(s, p):
            out.append((s + d, e + d, l))
        elif mode == "stretch":
            out.append((s, e + d, l))
        elif mode == "split":
            out.append((s, p, l))
            out.append((p + d, e + d, l))
        elif mode == "no_change":
            out.append((s, e, l))
        else:
            O.raise_("ANY")  # 'or rejected with an error'
    return {"class": "IntervalTier", "entries": out, "min": m, "max": M + d}


def insert_space_point(O, ents, m, M, p, d):
    """C08: 'points at t <= s stay and later points move by d'."""
    out = [(t, l) if O.le(t, p) else (t + d, l) for t, l in ents]
    return {"class": "PointTier", "entries": out, "min": m, "max": M + d}


# --------------------------------------------------------------------------------- C09


def edit_timestamps(O, kind, ents, m, M, off, reporting):
    """C09: moves every entry by exactly offset keeping labels and order; entries that end up wholly before time 0
    are dropped and an interval crossing 0 is clipped to start at 0; the span grows to contain moved entries and
    never shrinks; leaving the old span is reported as the reportingMode says (nothing, a message, an exception)."""
    out = []
    left_span = False
    for x in ents:
        if kind == "interval":
            s, e, l = x
            ns, ne = off + s, off + e
        else:
            t, l = x
            ns = ne = off + t
        if O.lt(ns, m) or O.gt(ne, M):
            left_span = True
            if reporting == "error":
                O.raise_("ANY")  # 'reported as the reportingMode says (nothing, a message, or an exception)' 
        if kind == "interval":
            if O.le(ne, ZERO):
                continue
            if O.lt(ns, ZERO):
                ns = ZERO
            out.append((ns, ne, l))
        else:
            if O.lt(ns, ZERO):
                continue
            out.append((ns, l))
    lo, hi = hull(O, m, M, out, kind)
    return {"class": "IntervalTier" if kind == "interval" else "PointTier", "entries": out, "min": lo, "max": hi,
            "printed": left_span and reporting == "warning"}


# --------------------------------------------------------------------------------- C11


def insert_entry_interval(O, ents, m, M, new, mode, reporting):
    """C11: an entry that collides with nothing (no interval overlap of positive length) is added and nothing else
    changes; on collision 'error' raises CollisionError, 'replace' removes exactly the colliding entries and inserts
    the new one, 'merge' replaces them by one entry covering their joint extent whose label joins all labels with
    '-' in time order.  Afterwards the tier is in time order and its span has grown just enough."""
    ns, ne, nl = new
    if mode not in ("error", "replace", "merge") or reporting not in ("silence", "warning", "error"):
        O.raise_("ANY")  # an invalid option is rejected with a praatio error (and, C13, nothing is changed)
    if O.ge(ns, ne):
        # C05: an operation that cannot produce a well-formed tier raises a praatio error
        O.raise_("ANY")
    hit = [x for x in ents if O.lt(x[0], ne) and O.lt(ns, x[1])]
    rest = [x for x in ents if x not in hit]
    if hit and mode == "error":
        O.raise_("CollisionError")
    if hit and reporting == "error":
        O.raise_("CollisionError")
    if hit and mode == "merge":
        group = sort_entries(O, hit + [new])
        add = (O.mn(*[g[0] for g in group]), O.mx(*[g[1] for g in group]), mkjoin("-", [g[2] for g in group]))
    else:
        add = new
    out = sort_entries(O, rest + [add])
    return {"class": "IntervalTier", "entries": out, "min": O.mn(m, out[0][0]), "max": O.mx(M, out[-1][1]),
            "printed": bool(hit) and reporting == "warning"}


def insert_entry_point(O, ents, m, M, new, mode, reporting):
    """C11: collision = a point at the same time; merge label is 'old-new'."""
    nt, nl = new
    if mode not in ("error", "replace", "merge") or reporting not in ("silence", "warning", "error"):
        O.raise_("ANY")  # an invalid option is rejected with a praatio error (and, C13, nothing is changed)
    hit = [x for x in ents if O.eq(x[0], nt)]
    rest = [x for x in ents if x not in hit]
    if hit and mode == "error":
        O.raise_("CollisionError")
    if hit and reporting == "error":
        O.raise_("CollisionError")
    if hit and mode == "merge":
        add = (nt, mkjoin("-", [hit[0][1], nl]))
    else:
        add = new
    out = sort_entries(O, rest + [add])
    return {"class": "PointTier", "entries": out, "min": O.mn(m, out[0][0]), "max": O.mx(M, out[-1][0]),
            "printed": bool(hit) and reporting == "warning"}


def sort_entries(O, ents):
    out = []
    for x in ents:
        pos = len(out)
        for i, y in enumerate(out):
            c = O.sgn(x[0], y[0])
            if c == 0 and len(x) == 3:
                c = O.sgn(x[1], y[1])
                if c == 0:
                    raise DontCare("two entries with identical extent: order of labels is unconstrained")
            if c < 0:
                pos = i
                break
        out.insert(pos, x)
    return out


# --------------------------------------------------------------------------------- C10 (set operations)


def difference(O, A, mA, MA, B):
    """C10: difference(A,B) is labelled exactly where A is and B is not, with A's labels."""
    cur = list(A)
    for bs, be, _ in B:
        nxt = []
        for s, e, l in cur:
            if O.lt(s, be) and O.lt(bs, e):
                if O.lt(s, bs):
                    nxt.append((s, bs, l))
                if O.gt(e, be):
                    nxt.append((be, e, l))
            else:
                nxt.append((s, e, l))
        cur = nxt
    return {"class": "IntervalTier", "entries": cur, "min": mA, "max": MA}


def intersection(O, A, mA, MA, B, nameA, nameB):
    """C10: intersection(A,B) is labelled exactly where both are, one entry per overlapping pair labelled 'a-b'."""
    out = []
    for bs, be, bl in B:
        for s, e, l in A:
            if O.lt(s, be) and O.lt(bs, e):
                out.append((O.mx(s, bs), O.mn(e, be), mkcat([l, "-", bl])))
    out = sort_entries(O, out)
    return {"class": "IntervalTier", "entries": out, "min": mA, "max": MA, "name": mkcat([nameA, "-", nameB])}


def merge_labels(O, A, mA, MA, B, nameA, nameB):
    """C10: mergeLabels keeps exactly those intervals of A that overlap something in B and appends B's labels in
    parentheses."""
    out = []
    for s, e, l in A:
        inside = [(bs, be, bl) for bs, be, bl in B if O.lt(bs, e) and O.lt(s, be)]
        if not inside:
            continue
        out.append((s, e, mkcat([l, "(", mkjoin(",", [x[2] for x in inside]), ")"])))
    return {"class": "IntervalTier", "entries": out, "min": mA, "max": MA, "name": mkcat([nameA, "-", nameB])}


def union_interval(O, A, mA, MA, B):
    """C10: union(A,B) is labelled exactly where either is, overlapping entries fused into one entry whose label
    joins the fused labels in time order."""
    allv = list(A) + list(B)
    n = len(allv)
    parent = list(range(n))

    def find(i):
        while parent[i] != i:
            i = parent[i]
        return i

    for i in range(n):
        for j in range(i + 1, n):
            x, y = allv[i], allv[j]
            if O.lt(x[0], y[1]) and O.lt(y[0], x[1]):
                parent[find(i)] = find(j)
    comps = {}
    for i in range(n):
        comps.setdefault(find(i), []).append(allv[i])
    out = []
    for g in comps.values():
        if len(g) == 1:
            out.append(g[0])
        else:
            g = sort_entries(O, g)
            out.append((O.mn(*[x[0] for x in g]), O.mx(*[x[1] for x in g]), mkjoin("-", [x[2] for x in g])))
    out = sort_entries(O, out)
    lo, hi = hull(O, mA, MA, out)
    return {"class": "IntervalTier", "entries": out, "min": lo, "max": hi}


def union_point(O, A, mA, MA, B):
    """C10: for point tiers union contains exactly the union of the time points, labels of coinciding points joined."""
    cur = list(A)
    lo, hi = mA, MA
    for new in B:
        r = insert_entry_point(O, cur, lo, hi, new, "merge", "silence")
        cur, lo, hi = r["entries"], r["min"], r["max"]
    return {"class": "PointTier", "entries": cur, "min": lo, "max": hi}


# --------------------------------------------------------------------------------- C14


def _abs(O, x):
    return x if O.sgn(x) >= 0 else x.neg()


def _snap(O, t, refs, D):
    """C14: 'moves a timestamp to the nearest timestamp of the reference tier if and only if it lies within
    maxDifference of it, and otherwise leaves it untouched'."""
    best = refs[0]
    for x in refs[1:]:
        if O.lt(_abs(O, x - t), _abs(O, best - t)):
            best = x
    return best if O.le(_abs(O, t - best), D) else t


def dejitter(O, kind, ents, m, M, refs, D):
    if not refs:
        O.raise_("ANY-EXC")  # 'empty references as error cases'"
    out = []
    for x in ents:
        if kind == "interval":
            out.append((_snap(O, x[0], refs, D), _snap(O, x[1], refs, D), x[2]))
        else:
            out.append((_snap(O, x[0], refs, D), x[1]))
    if kind == "interval":
        # 'an adjustment that would collapse or cross intervals raises instead of returning an ill-formed tier'
        for s, e, _ in out:
            if O.ge(s, e):
                O.raise_("ANY")
        for x, y in zip(out, out[1:]):
            if O.gt(x[1], y[0]):
                O.raise_("ANY")
    else:
        out = sort_entries(O, out)
    lo, hi = hull(O, m, M, out, kind)
    return {"class": "IntervalTier" if kind == "interval" else "PointTier", "entries": out, "min": lo, "max": hi}


def morph(O, A, m, M, T, selected):
    """C14: morph gives each selected interval the duration of its counterpart in the target tier while preserving
    labels, the gaps between consecutive intervals, the first start and the trailing gap to the end of the span."""
    if len(A) != len(T):
        O.raise_("ANY")  # 'mismatched counts ... as error cases'
    out = []
    prev_old_end = prev_new_end = None
    for (s, e, l), (ts, te, _) in zip(A, T):
        dur = (te - ts) if selected(l) else (e - s)
        ns = s if prev_old_end is None else prev_new_end + (s - prev_old_end)  # gap preserved
        out.append((ns, ns + dur, l))
        prev_old_end, prev_new_end = e, ns + dur
    newmax = prev_new_end + (M - prev_old_end)  # trailing gap preserved
    return {"class": "IntervalTier", "entries": out, "min": m, "max": newmax}


# --------------------------------------------------------------------------------- C04 / C02 (save preparation)


def save_prep_interval(O, ents, m, M, lo_ov, hi_ov, blank, L):
    """C04: with blank filling on, saving changes the annotation only by adding empty-labelled intervals in
    unlabelled stretches and by absorbing intervals shorter than minimumIntervalLength into a neighbour; a
    minTimestamp/maxTimestamp override becomes the file's span, and if an entry would fall outside the requested
    span the save raises instead of writing an inconsistent file; with blank filling off, entries are written
    verbatim; with the threshold disabled nothing is absorbed.
    C02: when blank filling is on, each interval tier in the file is an ascending, gap-free, overlap-free
    partition of the file's [xmin, xmax]."""
    lo = lo_ov if lo_ov is not None else m
    hi = hi_ov if hi_ov is not None else M
    if not blank:
        return {"xmin": lo, "xmax": hi, "entries": list(ents)}
    if ents:
        if O.lt(ents[0][0], lo) or O.gt(ents[-1][1], hi):
            O.raise_("ParsingError")
    filled = []
    cur = lo
    for s, e, l in ents:
        if O.lt(cur, s):
            filled.append((cur, s, ""))
        filled.append((s, e, l))
        cur = e
    if O.lt(cur, hi) or not ents:
        filled.append((cur, hi, ""))
    if L is None:
        return {"xmin": lo, "xmax": hi, "entries": filled}
    kept = []
    for s, e, l in filled:
        if O.lt(e - s, L):  # a sliver: absorbed into the interval before it (or, at the very start, the one after)
            if kept:
                ks, _, kl = kept[-1]
                kept[-1] = (ks, e, kl)
        else:
            if not kept and not O.eq(s, lo):
                s = lo
            kept.append((s, e, l))
    return {"xmin": lo, "xmax": hi, "entries": kept}
