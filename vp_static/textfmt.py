"""E5 / R-C -- writer / reader / documentation agreement for the TextGrid text formats."""

import ast
import json
import re
import re._parser as sre_parse  # CPython's regex parser (AST of the regex constants found in the source)
from typing import Dict, List, Optional, Tuple

from .index import FuncInfo, Index, Vanished, norm

SLOT_RE = re.compile(r"%(?:\([^)]*\))?[-+ #0]*\d*(?:\.\d+)?([sdrfgeEGi])")


class Slot:
    def __init__(self, fn, node, template, conv, quoted, arg, prefix, spec):
        self.fn = fn
        self.node = node  # the BinOp / JoinedStr
        self.template = template
        self.conv = conv  # s d r f g ...
        self.quoted = quoted  # slot sits between two double quotes in the template
        self.arg = arg  # AST of the argument expression (None if not resolvable)
        self.prefix = prefix  # template text before the slot (on the same line)
        self.spec = spec  # the full %-spec text

    @property
    def key(self):
        m = re.search(r"([A-Za-z_]+)\s*\??\s*[:=]?\s*(?:size\s*=\s*)?\"?$", self.prefix)
        return m.group(1) if m else ""


def percent_slots(fn: FuncInfo) -> List[Slot]:
    """Every %-format slot of every  'template' % args  expression in fn."""
    out = []
    for n in ast.walk(fn.node):
        if isinstance(n, ast.BinOp) and isinstance(n.op, ast.Mod) and isinstance(n.left, ast.Constant) and isinstance(n.left.value, str):
            tpl = n.left.value
            args = n.right.elts if isinstance(n.right, ast.Tuple) else [n.right]
            i = 0
            for m in re.finditer(r"%%|" + SLOT_RE.pattern, tpl):
                if m.group(0) == "%%":
                    continue
                before = tpl[: m.start()]
                after = tpl[m.end():]
                quoted = before.endswith('"') and after.startswith('"')
                line_prefix = before.rsplit("\n", 1)[-1]
                out.append(Slot(fn, n, tpl, m.group(1), quoted, args[i] if i < len(args) else None, line_prefix, m.group(0)))
                i += 1
    return out


def is_call_to(idx: Index, fn: FuncInfo, node, name: str) -> bool:
    if not isinstance(node, ast.Call):
        return False
    r = idx.resolve_symbol(fn.module, node.func) if isinstance(node.func, (ast.Name, ast.Attribute)) else None
    return isinstance(r, FuncInfo) and r.name == name


def single_def(fn: FuncInfo, name: str):
    """The unique assignment 'name = expr' in fn (None if zero or several)."""
    defs = []
    for n in ast.walk(fn.node):
        if isinstance(n, ast.Assign) and len(n.targets) == 1 and isinstance(n.targets[0], ast.Name) and n.targets[0].id == name:
            defs.append(n.value)
        elif isinstance(n, (ast.For, ast.comprehension)):
            for x in ast.walk(n.target):
                if isinstance(x, ast.Name) and x.id == name:
                    defs.append(None)
    return defs[0] if len(defs) == 1 else None


def is_undouble(node) -> bool:
    """re.sub(r'""', '"', x)  or  x.replace('""', '"')."""
    if not isinstance(node, ast.Call):
        return False
    f = norm(node.func)
    if f == "re.sub" and len(node.args) >= 3:
        a, b = node.args[0], node.args[1]
        return isinstance(a, ast.Constant) and a.value == '""' and isinstance(b, ast.Constant) and b.value == '"'
    if isinstance(node.func, ast.Attribute) and node.func.attr == "replace" and len(node.args) == 2:
        a, b = node.args
        return isinstance(a, ast.Constant) and a.value == '""' and isinstance(b, ast.Constant) and b.value == '"'
    return False


def is_double(node) -> bool:
    if isinstance(node, ast.Call) and isinstance(node.func, ast.Attribute) and node.func.attr == "replace" and len(node.args) == 2:
        a, b = node.args
        return isinstance(a, ast.Constant) and a.value == '"' and isinstance(b, ast.Constant) and b.value == '""'
    return False


def stmts_in_order(fn: FuncInfo) -> List[ast.stmt]:
    out = []

    def walk(body):
        for s in body:
            out.append(s)
            for f in ("body", "orelse", "finalbody"):
                if hasattr(s, f):
                    walk(getattr(s, f))
            if isinstance(s, ast.Try):
                for h in s.handlers:
                    walk(h.body)

    walk(fn.node.body)
    return out


def enclosing_block(fn: FuncInfo, stmt) -> Optional[List[ast.stmt]]:
    for n in ast.walk(fn.node):
        for f in ("body", "orelse", "finalbody"):
            b = getattr(n, f, None)
            if isinstance(b, list) and stmt in b:
                return b
    return None


class Chain:
    """Backward def-use chain of a variable from a use site to its raw source inside one block."""

    def __init__(self):
        self.steps: List[ast.AST] = []  # RHS expressions, nearest first
        self.source: Optional[ast.AST] = None
        self.tuple_index: Optional[int] = None


def chain_of(fn: FuncInfo, use_stmt, name: str) -> Chain:
    ch = Chain()
    block = enclosing_block(fn, use_stmt)
    cur = use_stmt
    while block is not None:
        pos = block.index(cur)
        for s in reversed(block[:pos]):
            hit = None
            if isinstance(s, ast.Assign) and len(s.targets) == 1:
                t = s.targets[0]
                if isinstance(t, ast.Name) and t.id == name:
                    hit = (s.value, None)
                elif isinstance(t, ast.Tuple):
                    for i, e in enumerate(t.elts):
                        if isinstance(e, ast.Name) and e.id == name:
                            hit = (s.value, i)
            elif isinstance(s, ast.Try):
                # assignment inside a try body (the short parser fetches rows in a try)
                for s2 in reversed(s.body):
                    if isinstance(s2, ast.Assign) and len(s2.targets) == 1 and isinstance(s2.targets[0], ast.Tuple):
                        for i, e in enumerate(s2.targets[0].elts):
                            if isinstance(e, ast.Name) and e.id == name:
                                hit = (s2.value, i)
                    if hit:
                        break
            if hit is None:
                continue
            val, ti = hit
            uses_self = any(isinstance(x, ast.Name) and x.id == name for x in ast.walk(val))
            if uses_self and ti is None:
                ch.steps.append(val)
                continue
            ch.source = val
            ch.tuple_index = ti
            return ch
        # continue in the enclosing block
        parent = None
        for n in ast.walk(fn.node):
            for f in ("body", "orelse", "finalbody"):
                b = getattr(n, f, None)
                if isinstance(b, list) and block is b:
                    parent = n
        if parent is None or parent is fn.node:
            return ch
        cur = parent
        block = enclosing_block(fn, parent)
    return ch


# --------------------------------------------------------------------------- regex helpers


def regex_literals(fn: FuncInfo) -> List[Tuple[ast.Call, str, int]]:
    """(call, pattern, flags) for every re.* / reSearch call with a constant pattern."""
    out = []
    for n in ast.walk(fn.node):
        if isinstance(n, ast.Call) and n.args and isinstance(n.args[0], ast.Constant) and isinstance(n.args[0].value, str):
            f = norm(n.func)
            if f in ("reSearch", "re.search", "re.split", "re.match", "re.findall", "re.sub") or f.endswith(".reSearch"):
                flags = 0
                for k in n.keywords:
                    if k.arg == "flags":
                        flags = eval_flags(k.value)
                if f in ("reSearch",) and len(n.args) >= 3:
                    flags = eval_flags(n.args[2])
                out.append((n, n.args[0].value, flags))
    return out


def eval_flags(node) -> int:
    if isinstance(node, ast.BinOp) and isinstance(node.op, ast.BitOr):
        return eval_flags(node.left) | eval_flags(node.right)
    t = norm(node)
    return {"re.MULTILINE": re.MULTILINE, "re.M": re.MULTILINE, "re.DOTALL": re.DOTALL, "re.S": re.DOTALL, "re.I": re.I, "re.IGNORECASE": re.I}.get(t, 0)


def group1_repeat(pattern: str):
    """('greedy'|'lazy'|None, inner description) of the first capture group's top-level repeat."""
    try:
        tree = sre_parse.parse(pattern)
    except Exception:
        return None, "unparsable"
    for op, av in tree:
        if op == sre_parse.SUBPATTERN:
            sub = av[3]
            if len(sub) == 1:
                op2, av2 = sub[0]
                if op2 == sre_parse.MAX_REPEAT:
                    return "greedy", str(av2[2])
                if op2 == sre_parse.MIN_REPEAT:
                    return "lazy", str(av2[2])
            return "other", ""
    return None, "no group"


# --------------------------------------------------------------------------- README schemas


def readme_json_blocks(repo: str) -> List[dict]:
    path = repo.rstrip("/") + "/README.md"
    try:
        txt = open(path, encoding="utf-8").read()
    except OSError:
        raise Vanished("README.md")
    out = []
    for m in re.finditer(r"```\s*\n(\{.*?\})\s*\n```", txt, re.S):
        try:
            out.append(json.loads(m.group(1)))
        except ValueError:
            continue
    return out
