"""E5 / R-C -- writer / reader / documentation agreement for the TextGrid text formats."""

import ast
import json
import re
import re._parser as sre_parse  # CPython's regex parser (AST of the regex constants found in the source)
from typing import Dict, List, Optional, Tuple

from .index import FuncInfo, Index, Vanished, norm

SLOT_RE = re.compile(r"%(?:\([^)]*\))?[-+ #0]*\d*(?:\.\d+)?([sdrfgeEGi])")


class Slot:
    def __init__(self, fn, node, template, conv, quoted, arg, prefix, spec):
        self.fn = fn
        self.node = node  # the BinOp / JoinedStr
        self.template = template
        self.conv = conv  # s d r f g ...
        self.quoted = quoted  # slot sits between two double quotes in the template
        self.arg = arg  # AST of the argument expression (None if not resolvable)
        self.prefix = prefix  # template text before the slot (on the same line)
        self.spec = spec  # the full %-spec text

    @property
    def key(self):
        m = re.search(r"([A-Za-z_]+)\s*\??\s*[:=]?\s*(?:size\s*=\s*)?\"?$", self.prefix)
        return m.group(1) if m else ""


def percent_slots(fn: FuncInfo) -> List[Slot]:
    """Every %-format slot of every  'template' % args  expression in fn."""
    out = []
    for n in ast.walk(fn.node):
        if isinstance(n, ast.BinOp) and isinstance(n.op, ast.Mod) and isinstance(n.left, ast.Constant) and isinstance(n.left.value, str):
            tpl = n.left.value
            args = n.right.elts if isinstance(n.right, ast.Tuple) else [n.right]
            i = 0
            for m in re.finditer(r"%%|" + SLOT_RE.pattern, tpl):
                if m.group(0) == "%%":
                    continue
                before = tpl[: m.start()]
                after = tpl[m.end():]
                quoted = before.endswith('"') and after.startswith('"')
                line_prefix = before.rsplit("\n", 1)[-1]
                out.append(Slot(fn, n, tpl, m.group(1), quoted, args[i] if i < len(args) else None, line_prefix, m.group(0)))
                i += 1
    return out


def is_call_to(idx: Index, fn: FuncInfo, node, name: str) -> bool:
    if not isinstance(node, ast.Call):
        return False
    r = idx.resolve_symbol(fn.module, node.func) if isinstance(node.func, (ast.Name, ast.Attribute)) else None
    return isinstance(r, FuncInfo) and r.name == name


def single_def(fn: FuncInfo, name: str):
    """The unique assignment 'name = expr' in fn (None if zero or several)."""
    defs = []
    for n in ast.walk(fn.node):
        if isinstance(n, ast.Assign) and len(n.targets) == 1 and isinstance(n.targets[0], ast.Name) and n.targets[0].id == name:
            defs.append(n.value)
        elif isinstance(n, (ast.For, ast.comprehension)):
            for x in ast.walk(n.target):
                if isinstance(x, ast.Name) and x.id == name:
                    defs.append(None)
    return defs[0] if len(defs) == 1 else None


def is_undouble(node) -> bool:
    """re.sub(r'""', '"', x)  or  x.replace('""', '"')."""
    if not isinstance(node, ast.Call):
        return False
    f = norm(node.func)
    if f == "re.sub" and len(node.args) >= 3:
        a, b = node.args[0], node.args[1]
        return isinstance(a, ast.Constant) and a.value == '""' and isinstance(b, ast.Constant) and b.value == '"'
    if isinstance(node.func, ast.Attribute) and node.func.attr == "replace" and len(node.args) == 2:
        a, b = node.args
        return isinstance(a, ast.Constant) and a.value == '""' and isinstance(b, ast.Constant) and b.value == '"'
    return False


def is_double(node) -> bool:
    if isinstance(node, ast.Call) and isinstance(node.func, ast.Attribute) and node.func.attr == "replace" and len(node.args) == 2:
        a, b = node.args
        return isinstance(a, ast.Constant) and a.value == '"' and isinstance(b, ast.Constant) and b.value == '""'
    return False


def stmts_in_order(fn: FuncInfo) -> List[ast.stmt]:
    out = []

    def walk(body):
        for s in body:
            out.append(s)
            for f in ("body", "orelse", "finalbody"):
                if hasattr(s, f):
                    walk(getattr(s, f))
            if isinstance(s, ast.Try):
                for h in s.handlers:
                    walk(h.body)

    walk(fn.node.body)
    return out


def enclosing_block(fn: FuncInfo, stmt) -> Optional[List[ast.stmt]]:
    for n in ast.walk(fn.node):
        for f in ("body", "orelse", "finalbody"):
            b = getattr(n, f, None)
            if isinstance(b, list) and stmt in b:
                return b
    return None


class Chain:
    """Backward def-use chain of a variable from a use site to its raw source inside one block."""

    def __init__(self):
        self.steps: List[ast.AST] = []  # RHS expressions, nearest first
        self.source: Optional[ast.AST] = None
        self.tuple_index: Optional[int] = None


def chain_of(fn: FuncInfo, use_stmt, name: str) -> Chain:
    ch = Chain()
    block = enclosing_block(fn, use_stmt)
    cur = use_stmt
    while block is not None:
        pos = block.index(cur)
        for s in reversed(block[:pos]):
            hit = None
            if isinstance(s, ast.Assign) and len(s.targets) == 1:
                t = s.targets[0]
                if isinstance(t, ast.Name) and t.id == name:
                    hit = (s.value, None)
                elif isinstance(t, ast.Tuple):
                    for i, e in enumerate(t.elts):
                        if isinstance(e, ast.Name) and e.id == name:
                            hit = (s.value, i)
            elif isinstance(s, ast.Try):
                # assignment inside a try body (the short parser fetches rows in a try)
                for s2 in reversed(s.body):
                    if isinstance(s2, ast.Assign) and len(s2.targets) == 1 and isinstance(s2.targets[0], ast.Tuple):
                        for i, e in enumerate(s2.targets[0].elts):
                            if isinstance(e, ast.Name) and e.id == name:
                                hit = (s2.value, i)
                    if hit:
                        break
            if hit is None:
                continue
            val, ti = hit
            uses_self = any(isinstance(x, ast.Name) and x.id == name for x in ast.walk(val))
            if uses_self and ti is None:
                ch.steps.append(val)
                continue
            ch.source = val
            ch.tuple_index = ti
            return ch
        # continue in the enclosing block
        parent = None
        for n in ast.walk(fn.node):
            for f in ("body", "orelse", "finalbody"):
                b = getattr(n, f, None)
                if isinstance(b, list) and block is b:
                    parent = n
        if parent is None or parent is fn.node:
            return ch
        cur = parent
        block = enclosing_block(fn, parent)
    return ch


# --------------------------------------------------------------------------- constant strings


def const_str(idx, fn: FuncInfo, node, depth=0) -> Optional[str]:
    """Value of a constant string expression: literal, module-level constant, concatenation, constant f-string."""
    if depth > 6 or node is None:
        return None
    if isinstance(node, ast.Constant) and isinstance(node.value, str):
        return node.value
    if isinstance(node, ast.Name):
        mod = fn.module
        if node.id in mod.const_nodes:
            return const_str(idx, _ModFn(mod), mod.const_nodes[node.id], depth + 1)
        al = mod.aliases.get(node.id)
        if al and al[0] == "symbol":
            m = idx.modules.get(al[1])
            if m and al[2] in m.const_nodes:
                return const_str(idx, _ModFn(m), m.const_nodes[al[2]], depth + 1)
        # a local assigned exactly once from a constant string expression
        if getattr(fn, "node", None) is not None:
            d = single_def(fn, node.id)
            if d is not None:
                return const_str(idx, fn, d, depth + 1)
        return None
    if isinstance(node, ast.BinOp) and isinstance(node.op, ast.Add):
        a, b = const_str(idx, fn, node.left, depth + 1), const_str(idx, fn, node.right, depth + 1)
        return a + b if a is not None and b is not None else None
    if isinstance(node, ast.JoinedStr):
        out = ""
        for v in node.values:
            if isinstance(v, ast.Constant):
                out += v.value
            elif isinstance(v, ast.FormattedValue) and v.format_spec is None and v.conversion == -1:
                x = const_str(idx, fn, v.value, depth + 1)
                if x is None:
                    return None
                out += x
            else:
                return None
        return out
    return None


class _ModFn:
    def __init__(self, mod):
        self.module = mod
        self.node = None
        self.params = []


# --------------------------------------------------------------------------- regex helpers


REGEX_FUNCS = ("reSearch", "re.search", "re.split", "re.match", "re.findall", "re.sub")


def _regex_call(n):
    if not isinstance(n, ast.Call) or not n.args:
        return False
    f = norm(n.func)
    return f in REGEX_FUNCS or f.endswith(".reSearch")


def _flags_of(call, consts=None):
    flags = 0
    for k in call.keywords:
        if k.arg == "flags":
            flags = eval_flags(k.value, consts)
    if norm(call.func).endswith("reSearch") and len(call.args) >= 3:
        flags = eval_flags(call.args[2], consts)
    return flags


def _bind_call(tgt: FuncInfo, call: ast.Call):
    binding = {}
    for i, a in enumerate(call.args):
        if i < len(tgt.params):
            binding[tgt.params[i]] = a
    for k in call.keywords:
        if k.arg:
            binding[k.arg] = k.value
    for p_, d_ in tgt.defaults.items():
        binding.setdefault(p_, d_)
    return binding


def regex_templates(idx, fn: FuncInfo, depth=0):
    """Regex uses of fn, also through private helpers that forward the pattern (any depth <= 4).
    Each: {'call': node in fn, 'pattern': str|None, 'pparam': name|None, 'flags': int|None, 'fparam': name|None}."""
    out = []
    if depth > 4:
        return out
    for n in ast.walk(fn.node):
        if not isinstance(n, ast.Call) or not n.args:
            continue
        if _regex_call(n):
            a0 = n.args[0]
            pat = const_str(idx, fn, a0) if idx is not None else (a0.value if isinstance(a0, ast.Constant) and isinstance(a0.value, str) else None)
            pparam = a0.id if pat is None and isinstance(a0, ast.Name) and a0.id in fn.params else None
            fexpr = None
            for k in n.keywords:
                if k.arg == "flags":
                    fexpr = k.value
            if norm(n.func).endswith("reSearch") and len(n.args) >= 3:
                fexpr = n.args[2]
            if norm(n.func) in ("re.search", "re.match", "re.findall", "re.split") and len(n.args) >= 3 and norm(n.func) != "re.split":
                fexpr = n.args[2]
            fparam = fexpr.id if isinstance(fexpr, ast.Name) and fexpr.id in fn.params else None
            flags = None if fparam else (eval_flags(fexpr) if fexpr is not None else 0)
            if pat is not None or pparam is not None:
                out.append({"call": n, "pattern": pat, "pparam": pparam, "flags": flags, "fparam": fparam})
            continue
        if idx is None:
            continue
        tgt = idx.resolve_symbol(fn.module, n.func) if isinstance(n.func, (ast.Name, ast.Attribute)) else None
        if isinstance(tgt, FuncInfo) and tgt.module is fn.module and tgt is not fn and tgt.cls is None:
            binding = _bind_call(tgt, n)
            for t in regex_templates(idx, tgt, depth + 1):
                pat, pparam, flags, fparam = t["pattern"], None, t["flags"], None
                if pat is None and t["pparam"] in binding:
                    arg = binding[t["pparam"]]
                    pat = const_str(idx, fn, arg)
                    if pat is None and isinstance(arg, ast.Name) and arg.id in fn.params:
                        pparam = arg.id
                if flags is None and t["fparam"] in binding:
                    arg = binding[t["fparam"]]
                    if isinstance(arg, ast.Name) and arg.id in fn.params:
                        fparam = arg.id
                    else:
                        flags = eval_flags(arg)
                if pat is not None or pparam is not None:
                    out.append({"call": n, "pattern": pat, "pparam": pparam, "flags": flags, "fparam": fparam})
    return out


def regex_literals(fn: FuncInfo, idx=None) -> List[Tuple[ast.Call, str, int]]:
    """(call, pattern, flags) for every regex use of fn with a constant pattern (directly, via module constants, or
    via private helpers forwarding it)."""
    return [(t["call"], t["pattern"], t["flags"] or 0) for t in regex_templates(idx, fn) if t["pattern"] is not None]


def eval_flags(node, consts=None) -> int:
    if isinstance(node, ast.BinOp) and isinstance(node.op, ast.BitOr):
        return eval_flags(node.left, consts) | eval_flags(node.right, consts)
    if isinstance(node, ast.Name) and consts and node.id in consts:
        return eval_flags(consts[node.id], None)
    t = norm(node)
    return {"re.MULTILINE": re.MULTILINE, "re.M": re.MULTILINE, "re.DOTALL": re.DOTALL, "re.S": re.DOTALL, "re.I": re.I, "re.IGNORECASE": re.I}.get(t, 0)


def group1_repeat(pattern: str):
    """('greedy'|'lazy'|None, inner description) of the first capture group's top-level repeat."""
    try:
        tree = sre_parse.parse(pattern)
    except Exception:
        return None, "unparsable"
    for op, av in tree:
        if op == sre_parse.SUBPATTERN:
            sub = av[3]
            if len(sub) == 1:
                op2, av2 = sub[0]
                if op2 == sre_parse.MAX_REPEAT:
                    return "greedy", str(av2[2])
                if op2 == sre_parse.MIN_REPEAT:
                    return "lazy", str(av2[2])
            return "other", ""
    return None, "no group"


# --------------------------------------------------------------------------- README schemas


def readme_json_blocks(repo: str) -> List[dict]:
    path = repo.rstrip("/") + "/README.md"
    try:
        txt = open(path, encoding="utf-8").read()
    except OSError:
        raise Vanished("README.md")
    out = []
    for m in re.finditer(r"```\s*\n(\{.*?\})\s*\n```", txt, re.S):
        try:
            out.append(json.loads(m.group(1)))
        except ValueError:
            continue
    return out


# --------------------------------------------------------------------------- payload operation sequences


def _unary_inner(e):
    """The operand of a unary string operation (strip / replace / re.sub / slice), or None."""
    if isinstance(e, ast.Call) and isinstance(e.func, ast.Attribute) and e.func.attr in ("strip", "rstrip", "lstrip", "replace") and not (isinstance(e.func.value, ast.Name) and e.func.value.id == "re"):
        return e.func.value
    if isinstance(e, ast.Call) and norm(e.func) == "re.sub" and len(e.args) >= 3:
        return e.args[2]
    if isinstance(e, ast.Subscript) and isinstance(e.slice, ast.Slice):
        return e.value
    return None


def _op_of(e) -> str:
    if is_undouble(e):
        return "undouble"
    if is_double(e):
        return "double"
    if isinstance(e, ast.Call) and isinstance(e.func, ast.Attribute) and e.func.attr in ("strip", "rstrip", "lstrip") and not e.args:
        return "strip"
    if isinstance(e, ast.Subscript) and isinstance(e.slice, ast.Slice):
        lo = norm(e.slice.lower) if e.slice.lower is not None else ""
        hi = norm(e.slice.upper) if e.slice.upper is not None else ""
        return "unquote" if (lo, hi) == ("1", "-1") else "slice"
    return "other"


_PEEL_CTX = []  # (idx, fn) of the function whose expressions are being peeled (helpers are expanded through it)


def _helper_transform(e):
    """If e is a call of a private helper that returns a transformed copy of one argument:
    (that argument expression, the helper's operations) else None."""
    if not _PEEL_CTX or not isinstance(e, ast.Call):
        return None
    idx, fn, depth = _PEEL_CTX[-1]
    if depth > 5:
        return None
    tgt = idx.resolve_symbol(fn.module, e.func) if isinstance(e.func, (ast.Name, ast.Attribute)) else None
    if not isinstance(tgt, FuncInfo) or tgt is fn:
        return None
    rets = [n for n in ast.walk(tgt.node) if isinstance(n, ast.Return) and n.value is not None]
    if len(rets) != 1 or isinstance(rets[0].value, ast.Tuple):
        return None
    inner = payload_ops(idx, tgt, rets[0], rets[0].value, depth + 1)
    if inner is None or not inner["source"].startswith("param:"):
        return None
    pname = inner["source"][6:]
    binding = _bind_call(tgt, e)
    if pname not in binding:
        return None
    return binding[pname], inner["ops"]


def peel(e):
    """(base expression, operations applied to it innermost first)."""
    ops = []
    while True:
        inner = _unary_inner(e)
        if inner is None:
            ht = _helper_transform(e)
            if ht is None:
                return e, list(reversed(ops))
            arg, hops = ht
            ops.extend(reversed(hops))
            e = arg
            continue
        ops.append(_op_of(e))
        e = inner


def expr_ops(e, hole: str) -> Optional[List[str]]:
    base, ops = peel(e)
    if isinstance(base, ast.Name) and base.id == hole:
        return ops
    return None


def payload_ops(idx, fn: FuncInfo, stmt, expr, depth=0):
    """-> {'source': kind, 'ops': [...], 'pattern': regex or None} describing how the payload `expr` used at `stmt`
    is derived from raw file text, or None when the derivation is outside the modelled forms."""
    if depth > 6:
        return None
    _PEEL_CTX.append((idx, fn, depth))
    try:
        return _payload_ops(idx, fn, stmt, expr, depth)
    finally:
        _PEEL_CTX.pop()


def _payload_ops(idx, fn, stmt, expr, depth):
    base, outer = peel(expr)
    if isinstance(base, ast.Name):
        hole = base.id
        ch = chain_of(fn, stmt, hole)
        if ch.source is None:
            if hole in fn.params:
                return {"source": "param:" + hole, "ops": outer, "pattern": None}
            return None
        if ch.tuple_index is None:
            src = payload_ops(idx, fn, _stmt_of(fn, ch.source) or stmt, ch.source, depth + 1)
        else:
            src = _source_ops(idx, fn, ch.source, ch.tuple_index, depth)
        if src is None:
            return None
        ops = list(src["ops"])
        for step in reversed(ch.steps):
            so = expr_ops(step, hole)
            if so is None:
                return None
            ops += so
        return {"source": src["source"], "ops": ops + outer, "pattern": src.get("pattern"), "pparam": src.get("pparam")}
    src = _source_ops(idx, fn, base, None, depth)
    if src is None:
        return None
    return dict(src, ops=list(src["ops"]) + outer)


def _source_ops(idx, fn, src, tuple_index, depth):
    # regex group:  reSearch(P, text, ...).groups()[0]
    if isinstance(src, ast.Subscript) and isinstance(src.value, ast.Call) and norm(src.value.func).endswith(".groups"):
        inner = src.value.func.value
        if _regex_call(inner):
            pat = const_str(idx, fn, inner.args[0])
            pp = inner.args[0].id if pat is None and isinstance(inner.args[0], ast.Name) and inner.args[0].id in fn.params else None
            return {"source": "regex-group", "ops": [], "pattern": pat, "pparam": pp}
        return None
    if isinstance(src, ast.Subscript) and isinstance(src.slice, ast.Slice) and isinstance(src.value, ast.Name):
        # a slice of a text parameter / local: raw text including its delimiters
        r = expr_ops(src, src.value.id)
        return {"source": "text-slice", "ops": [o for o in (r or []) if o != "slice"], "pattern": None}
    if isinstance(src, ast.Name) and src.id in fn.params:
        return {"source": "param:" + src.id, "ops": [], "pattern": None}
    if isinstance(src, ast.Call):
        tgt = idx.resolve_symbol(fn.module, src.func) if isinstance(src.func, (ast.Name, ast.Attribute)) else None
        if isinstance(tgt, FuncInfo):
            rets = [n for n in ast.walk(tgt.node) if isinstance(n, ast.Return) and n.value is not None]
            if len(rets) != 1:
                return None
            val = rets[0].value
            if isinstance(val, ast.Tuple):
                val = val.elts[tuple_index if tuple_index is not None else 0]
            inner = payload_ops(idx, tgt, rets[0], val, depth + 1)
            if inner is None:
                return None
            if inner["source"].startswith("param:"):
                # the helper transforms its argument: continue with the argument at the call site
                pname = inner["source"][6:]
                pi = tgt.params.index(pname)
                arg = src.args[pi] if pi < len(src.args) else next((k.value for k in src.keywords if k.arg == pname), None)
                if arg is None:
                    return None
                # pattern forwarded to a regex helper?
                if isinstance(arg, (ast.Constant, ast.Name, ast.BinOp, ast.JoinedStr)) and const_str(idx, fn, arg) is not None and False:
                    pass
                stmt = _stmt_of(fn, src)
                outer = payload_ops(idx, fn, stmt, arg, depth + 1) if stmt is not None else None
                if outer is None:
                    return None
                return {"source": outer["source"], "ops": outer["ops"] + inner["ops"], "pattern": outer.get("pattern"), "pparam": outer.get("pparam")}
            if inner["source"] == "regex-group" and inner.get("pattern") is None and inner.get("pparam"):
                # the helper searches with a pattern it receives as a parameter: resolve it at this call site
                binding = _bind_call(tgt, src)
                arg = binding.get(inner["pparam"])
                pat = const_str(idx, fn, arg) if arg is not None else None
                pp = arg.id if pat is None and isinstance(arg, ast.Name) and arg.id in fn.params else None
                inner = dict(inner, pattern=pat, pparam=pp)
            return inner
    return None


def _stmt_of(fn: FuncInfo, node):
    for s in stmts_in_order(fn):
        if any(n is node for n in ast.walk(s)) and not isinstance(s, (ast.For, ast.While, ast.If, ast.Try, ast.With)):
            return s
    return None
