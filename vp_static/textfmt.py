"""Small helpers shared by the text-format rules (the syntactic writer/reader rules that used to live here were
replaced by the interpretive rules of props/textrules.py and props/docmodel.py)."""

import ast
import json
import re
from typing import List

from .index import FuncInfo, Index, Vanished, norm

def is_call_to(idx: Index, fn: FuncInfo, node, name: str) -> bool:
    if not isinstance(node, ast.Call):
        return False
    r = idx.resolve_symbol(fn.module, node.func) if isinstance(node.func, (ast.Name, ast.Attribute)) else None
    return isinstance(r, FuncInfo) and r.name == name


def readme_json_blocks(repo: str) -> List[dict]:
    path = repo.rstrip("/") + "/README.md"
    try:
        txt = open(path, encoding="utf-8").read()
    except OSError:
        raise Vanished("README.md")
    out = []
    for m in re.finditer(r"```\s*\n(\{.*?\})\s*\n```", txt, re.S):
        try:
            out.append(json.loads(m.group(1)))
        except ValueError:
            continue
    return out
