"""Command line: vcheck <Cnn>|all [--tier quick|thorough] [--replay path] [--selftest]."""

import argparse
import importlib
import json
import os
import sys

from . import report

PROPS = ["C%02d" % i for i in range(1, 21)]


def run_one(prop: str, tier: str) -> int:
    try:
        mod = importlib.import_module("vp_static.props.%s" % prop.lower())
    except ModuleNotFoundError:
        sys.stdout.write("ANALYSIS-ERROR property=%s no checker implemented\n" % prop)
        return 2
    def body(rep):
        mod.run(rep, tier)
        if tier == "thorough" and not os.environ.get("VP_NO_EVIDENCE"):
            # informational: the checker against the seeded breaking changes / benign twins of this property
            from . import selftest

            st = selftest.for_property(prop)
            rep.extra["selftest"] = st
            missed = [k for k, v in st["breaking"].items() if not v["as_expected"]]
            alarms = [k for k, v in st["twins"].items() if not v["as_expected"]]
            rep.info("self-test: %d seeded breaking change(s) reported, %d missed %s; %d benign twin(s) silent, %d alarmed %s"
                     % (len(st["breaking"]) - len(missed), len(missed), missed, len(st["twins"]) - len(alarms), len(alarms), alarms))
    return report.run_check(prop, tier, body)


def main(argv=None) -> int:
    ap = argparse.ArgumentParser(prog="vcheck")
    ap.add_argument("prop", nargs="?")
    ap.add_argument("--tier", default=os.environ.get("VERIF_TIER") or "quick", choices=["quick", "thorough"])
    ap.add_argument("--replay")
    ap.add_argument("--selftest", action="store_true")
    args = ap.parse_args(argv)

    if args.selftest:
        from . import selftest

        return selftest.main(args.prop)

    prop = args.prop
    if args.replay:
        try:
            with open(args.replay) as fd:
                data = json.load(fd)
        except (OSError, ValueError) as e:
            print("ANALYSIS-ERROR cannot read replay file %s: %s" % (args.replay, e))
            return 2
        prop = data["property"]
        code = run_one(prop, data.get("tier", "quick"))
        # replay succeeded iff the recorded violations are re-derived
        try:
            with open(os.path.join(report.VERIF, "evidence", "%s.violation.json" % prop)) as fd:
                now = {v["key"] for v in json.load(fd)["violations"]} if code == 1 else set()
        except FileNotFoundError:
            now = set()
        want = {v["key"] for v in data["violations"]}
        missing = want - now
        for k in sorted(want & now):
            print("REPLAYED %s" % k)
        for k in sorted(missing):
            print("NOT-REPRODUCED %s" % k)
        return 1 if (want & now) else 0

    if not prop:
        ap.error("property id required")
    if prop == "all":
        worst = 0
        for p in PROPS:
            worst = max(worst, run_one(p, args.tier))
        return worst
    return run_one(prop.upper(), args.tier)


if __name__ == "__main__":
    sys.exit(main())
