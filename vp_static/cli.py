"""Command line: vcheck <Cnn>|all [--tier quick|thorough] [--replay path] [--selftest]."""

import argparse
import importlib
import json
import os
import sys

from . import report

PROPS = ["C%02d" % i for i in range(1, 20)]


def run_one(prop: str, tier: str) -> int:
    try:
        mod = importlib.import_module("vp_static.props.%s" % prop.lower())
    except ModuleNotFoundError:
        sys.stdout.write("ANALYSIS-ERROR property=%s no checker implemented\n" % prop)
        return 2
    return report.run_check(prop, tier, lambda rep: mod.run(rep, tier))


def main(argv=None) -> int:
    ap = argparse.ArgumentParser(prog="vcheck")
    ap.add_argument("prop", nargs="?")
    ap.add_argument("--tier", default=os.environ.get("VERIF_TIER") or "quick", choices=["quick", "thorough"])
    ap.add_argument("--replay")
    ap.add_argument("--selftest", action="store_true")
    args = ap.parse_args(argv)

    if args.selftest:
        from . import selftest

        return selftest.main(args.prop)

    prop = args.prop
    if args.replay:
        with open(args.replay) as fd:
            data = json.load(fd)
        prop = data["property"]
        code = run_one(prop, data.get("tier", "quick"))
        # replay succeeded iff the recorded violations are re-derived
        try:
            with open(os.path.join(report.VERIF, "evidence", "%s.violation.json" % prop)) as fd:
                now = {v["key"] for v in json.load(fd)["violations"]} if code == 1 else set()
        except FileNotFoundError:
            now = set()
        want = {v["key"] for v in data["violations"]}
        missing = want - now
        for k in sorted(want & now):
            print("REPLAYED %s" % k)
        for k in sorted(missing):
            print("NOT-REPRODUCED %s" % k)
        return 1 if (want & now) else 0

    if not prop:
        ap.error("property id required")
    if prop == "all":
        worst = 0
        for p in PROPS:
            worst = max(worst, run_one(p, args.tier))
        return worst
    return run_one(prop.upper(), args.tier)


if __name__ == "__main__":
    sys.exit(main())
